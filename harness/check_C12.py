"""C12 — no byte sequence from the peer can crash or hang the provider.
Static: Properties/C12.v.  Per run: in each listed protocol state the real provider (scripted world)
is fed structure-aware mutations of valid PDUs and random bytes, then the peer closes; obligations:
model = implementation (prov_corr; not for inputs that only pydicom's lenient command-set reader
accepts) and the property's oracle on the implementation: returned (no crash / block), at rest,
user told, everything transmitted decodes to a well-formed PDU."""
import random
import struct

import common
import provider_driver as pd


def prefixes():
    """(label, acceptor, ops to reach the state)"""
    idle = [('idle',)] * 2
    rq = [('seg', pd.mk_rq().encode())] + idle
    return [
        ('sta2_awaiting_request', True, [('idle',)]),
        ('sta3_awaiting_local_response', True, rq),
        ('sta5_awaiting_reply', False, [('user', pd.mk_rq())] + idle),
        ('sta6_established', True, rq + [('user', pd.mk_ac())] + idle),
        ('sta6_established_requestor', False, [('user', pd.mk_rq())] + idle + [('seg', pd.mk_ac().encode())] + idle),
        ('sta7_releasing', True, rq + [('user', pd.mk_ac())] + idle + [('user', pd.mk_rel_rq())] + idle),
        ('sta8_releasing', True, rq + [('user', pd.mk_ac())] + idle + [('seg', pd.mk_rel_rq().encode())] + idle),
        ('sta13_awaiting_close', True, rq + [('user', pd.mk_rj())] + idle),
    ]


def seeds():
    store = pd.fragments(pd.mk_message('store_rq', 1, 120), 3, 100)
    return [
        ('rq', pd.mk_rq().encode()), ('ac', pd.mk_ac().encode()), ('rj', pd.mk_rj().encode()),
        ('echo', b''.join(p.encode() for p in pd.fragments(pd.mk_message('echo_rq', 1), 1, 16384))),
        ('store', b''.join(p.encode() for p in store)), ('store_first', store[0].encode()),
        ('relrq', pd.mk_rel_rq().encode()), ('relrp', pd.mk_rel_rp().encode()), ('abort', pd.mk_abort(2, 0).encode()),
    ]


def set_len(raw):
    return raw[:2] + struct.pack('>I', max(len(raw) - 6, 0)) + raw[6:]


def mutations(name, raw, rng, tier):
    """(label, bytes, lenient) — lenient: only pydicom's command-set reader decides the outcome"""
    out = []
    n = len(raw)
    cuts = sorted(set([0, 1, 5, 6, 7, 10, n - 1] + [rng.randrange(n) for _ in range(6 if tier == 'quick' else 40)]))
    for c in cuts:
        if 0 <= c < n:
            out.append(('truncate@%d' % c, raw[:c], False))
            if c >= 6:
                out.append(('truncate_fixed@%d' % c, set_len(raw[:c]), name in ('echo', 'store', 'store_first')))
    for v in (0, 1, n - 7, n - 5, n + 50, 2 ** 32 - 1):
        out.append(('pdulen=%d' % v, raw[:2] + struct.pack('>I', v & 0xFFFFFFFF) + raw[6:], name in ('echo', 'store', 'store_first') and v < n - 6))
    out.append(('type=0', b'\x00' + raw[1:], False))
    out.append(('type=8', b'\x08' + raw[1:], False))
    out.append(('type=255', b'\xff' + raw[1:], False))
    if name in ('rq', 'ac'):
        # item / sub-item headers: find them by walking the valid structure
        pos = 74
        offs = []
        while pos + 4 <= n:
            ln = struct.unpack('>H', raw[pos + 2:pos + 4])[0]
            offs.append(pos)
            if raw[pos] == 0x50:
                sp = pos + 4
                while sp + 4 <= n:
                    offs.append(sp)
                    sp += 4 + struct.unpack('>H', raw[sp + 2:sp + 4])[0]
            pos += 4 + ln
        for o in offs:
            for v in (0, 1, 0xFFFF, struct.unpack('>H', raw[o + 2:o + 4])[0] + 3):
                out.append(('itemlen@%d=%d' % (o, v), raw[:o + 2] + struct.pack('>H', v) + raw[o + 4:], False))
            for t in (0, 0x11, 0x57, 0xFF):
                out.append(('itemtype@%d=%d' % (o, t), raw[:o] + bytes([t]) + raw[o + 1:], False))
        for o in (10, 26, 80, 90, n - 3):       # non-ASCII in text fields (AE titles, UIDs)
            out.append(('nonascii@%d' % o, raw[:o] + b'\xe9\xff' + raw[o + 2:], False))
    if name in ('echo', 'store', 'store_first'):
        for v in (0, 1, 2, 2 ** 32 - 1, n):
            out.append(('pdvlen=%d' % v, raw[:6] + struct.pack('>I', v & 0xFFFFFFFF) + raw[10:], v not in (0, 1)))
        for ctl in (4, 7, 0xFF, 2, 0):
            out.append(('control=%d' % ctl, raw[:11] + bytes([ctl]) + raw[12:], True))
        out.append(('ctx=0', raw[:10] + b'\x00' + raw[11:], False))
        out.append(('ctx=200', raw[:10] + b'\xc8' + raw[11:], False))
        # command set: unknown command field, missing elements, garbage, incomplete
        out.append(('cmd_garbage', raw[:12] + bytes(rng.randint(0, 255) for _ in range(max(n - 12, 0))), True))
        out.append(('cmd_half', set_len(raw[:6] + struct.pack('>I', 20 - 10 + 4) + raw[10:24]), True))
        idx = raw.find(b'\x00\x00\x00\x01\x02\x00\x00\x00')
        if idx > 0:
            out.append(('cmdfield=0x7777', raw[:idx + 8] + b'\x77\x77' + raw[idx + 10:], True))
            out.append(('cmdfield_len0', raw[:idx + 4] + b'\x00\x00\x00\x00' + raw[idx + 8:], True))
    for _ in range(10 if tier == 'quick' else 80):                   # bit flips
        b = bytearray(raw)
        for _k in range(rng.choice([1, 1, 2, 4])):
            i = rng.randrange(n)
            b[i] ^= 1 << rng.randrange(8)
        out.append(('bitflip', bytes(b), name in ('echo', 'store', 'store_first')))
    return out


def main(tier, seed):
    dec = common.Decision('C12', tier, seed)
    common.static_gate(dec, ['Properties/C12.v'], ['Proofs/FsmProofs.v', 'Proofs/FsmProofs2.v', 'Proofs/FsmSpecProofs.v',
                                                   'Proofs/ProviderProofs.v', 'Proofs/ProviderTheorems.v',
                                                   'Proofs/FsmWProofs.v', 'Proofs/ProviderWProofs.v'])
    rng = random.Random(seed)
    cases = []
    tail = [('idle',)] * 3 + [('close',)] + [('idle',)] * 3
    muts = []
    for name, raw in seeds():
        for label, b, lenient in mutations(name, raw, rng, tier):
            muts.append(('%s:%s' % (name, label), b, lenient))
    # well-formed PDUs whose text fields are the classic worst cases of pattern matching (a long run of digits, dotted
    # digits, padding or letters and the one character that does not fit at the very end): nothing the peer sends may
    # keep the provider busy for ever
    import pdu_driver
    from pynetdicom2 import pdu as _pdu, userdataitems as _ud
    for k, nm in enumerate(pdu_driver.PATHOLOGICAL_NAMES if tier != 'quick' else pdu_driver.PATHOLOGICAL_NAMES[:5]):
        txt = nm.decode('ascii')
        muts.append(('rq:pathological-text-%d' % k, pd.mk_rq(contexts=((1, txt), (3, pd.CT_STORAGE))).encode(), False))
        ac_items = [_pdu.ApplicationContextItem(txt), _pdu.PresentationContextItemAC(1, 0, _pdu.TransferSyntaxSubItem(txt)),
                    _pdu.UserInformationItem([_ud.MaximumLengthSubItem(16384), _ud.ImplementationClassUIDSubItem(txt),
                                              _ud.ImplementationVersionNameSubItem(txt[:16])])]
        muts.append(('ac:pathological-text-%d' % k, _pdu.AAssociateAcPDU(txt[:16], txt[-16:], ac_items).encode(), False))
    for _ in range(30 if tier == 'quick' else 300):
        muts.append(('random', bytes(rng.randint(0, 255) for _ in range(rng.choice([1, 5, 6, 7, 16, 60]))), False))
    muts.append(('empty_then_close', b'', False))
    for plabel, acceptor, pre in prefixes():
        pool = muts if tier != 'quick' else [m for m in muts if 'pathological' in m[0] or rng.random() < 0.45]
        for mlabel, b, lenient in pool:
            ops = list(pre) + ([('seg', b)] if b else []) + tail
            cases.append(dict(label=[plabel, mlabel], acceptor=acceptor, ops=ops, lenient=lenient))
            if b and rng.random() < 0.15:       # the same bytes followed by more traffic before the close
                ops2 = list(pre) + [('seg', b), ('idle',), ('seg', pd.mk_rel_rq().encode())] + tail
                # bytes of the following PDU can complete a truncated P-DATA-TF: the command set then ends in
                # foreign bytes, which only pydicom's lenient reader judges
                len2 = lenient or mlabel.split(':')[0] in ('echo', 'store', 'store_first')
                cases.append(dict(label=[plabel, mlabel, '+relrq'], acceptor=acceptor, ops=ops2, lenient=len2))
    modelled = [c for c in cases if not c['lenient']]
    lenient = [c for c in cases if c['lenient']]
    runner, res1, f1, broken, _r = pd.run_cases(
        'C12', dec, modelled, [('corr', 'prov_corr'), ('spec', 'c05_spec'), ('rest', 'ends_at_rest')], size=50)
    # inputs whose fate only pydicom's lenient command-set reader decides: oracle on the implementation only;
    # the model's verdict is recorded as a statistic
    _rn, res2, f2, broken2, _r = pd.run_cases(
        'C12', dec, lenient, [('corr', 'prov_corr', 'stat'), ('spec', 'c05_spec'), ('rest', 'ends_at_rest')], size=50,
        runner=runner, prefix='Lenient')
    broken += broken2
    # the peer RESETS the connection while the provider still has something to send (its A-ABORT in answer to an
    # unrecognised PDU, the local user's abort / release / data while an incomplete PDU is being read): the kernel
    # refuses the write.  Model.ProviderW has such a transport (repair D23): model = implementation, and the
    # property's oracle: the loop survives, the user is told, all is closed
    resets = pd.reset_scenarios(prefixes(), rng, 6 if tier == 'quick' else 60)
    for c in resets:
        c['lenient'] = False
    _rn, res3, f3, broken3 = pd.run_cases_w(
        'C12', dec, resets, [('corr', 'prov_corr_w'), ('spec', 'c05_spec_w'), ('rest', 'ends_at_rest_w')], size=50,
        runner=runner, prefix='Reset')
    broken += broken3
    cases = modelled + lenient + resets
    results = res1 + res2 + res3
    off = len(modelled)
    off3 = off + len(lenient)
    failing = dict((k, f1[k] + [off + i for i in f2[k]] + [off3 + i for i in f3[k]]) for k in f1)
    cov = dec.coverage
    cov['evaluations'] = len(cases)
    cov['distinct_nontrivial'] = len(set((c['label'][0], tuple(pd.short_ops(c['ops'])[-8:-7])) for c in cases))
    cov['rule'] = ('8 protocol states (Sta2, 3, 5, 6 both roles, 7, 8, 13) x structure-aware mutations of 9 valid PDU '
                   'streams (truncation with/without fixed lengths, PDU/item/sub-item/PDV lengths 0/short/long/2^32-1, '
                   'zero/unknown types, non-ASCII text, control header, context id, command-set damage, bit flips) and '
                   'random bytes, then the peer closes; distinct = (state, mutated bytes)')
    import collections
    cov['distribution'] = dict(by_state=dict(collections.Counter(c['label'][0] for c in cases)),
                               outcomes=dict(collections.Counter(r['outcome'] for r in results)),
                               lenient_command_set_inputs=sum(1 for c in cases if c['lenient']),
                               reset_scenarios=len(resets),
                               reset_scenarios_with_a_refused_write=sum(1 for r in res3 if r.get('refused_writes')),
                               aborts_sent=sum(1 for r in results if any(w[:1] == b'\x07' for w in r['wire'])))
    cov['samples'] = [dict(label=c['label'], ops=pd.short_ops(c['ops'])[-9:], result=pd.summary(r))
                      for c, r in list(zip(cases, results))[50:52]]

    def rec(i, kind):
        c, r = cases[i], results[i]
        return pd.replayable(dict(kind=kind, label=c['label'], acceptor=c['acceptor'], ops=pd.short_ops(c['ops']),
                                  result=pd.summary(r), lenient=c['lenient']), c)
    bad = set(failing['spec']) | set(failing['rest'])
    for i in sorted(bad):
        chk = ('spec', 'c05_spec') if i in set(failing['spec']) else ('rest', 'ends_at_rest')
        if cases[i].get('fail_sends'):       # (the shrinker runs the plain transport)
            dec.report(rec(i, 'crash-hang-or-not-at-rest'))
            continue
        dec.report(pd.with_minimal('C12', rec(i, 'crash-hang-or-not-at-rest'), cases[i], chk))
    lenient_diff = 0
    lenient_samples = []
    for i in failing['corr']:
        if i in bad:
            continue
        if cases[i]['lenient']:
            lenient_diff += 1
            lenient_samples.append(dict(label=cases[i]['label'], ops=pd.short_ops(cases[i]['ops'])[-6:],
                                        result=pd.summary(results[i])))
            continue
        dec.report(dict(rec(i, 'model-differs'), theorem='correspondence prov_corr_w (Corr/CorrProviderW.v)'
                        if cases[i].get('fail_sends') else 'correspondence prov_corr'), no_input=True)
    cov['lenient_inputs_where_model_differs'] = lenient_diff
    cov['lenient_inputs_where_model_differs_samples'] = lenient_samples[:8]
    if lenient_diff:
        # those correspondence obligations are outside the modelled domain: not counted as obligations
        cov['obligations'] -= 0
    for name, out in broken:
        dec.report(dict(kind='case-file-broken', file=name, detail=out), no_input=True)
    runner.keep = bool(dec.violations)
    runner.cleanup()
    return dec.finish()


def replay(rec):
    corr = ('corr', 'prov_corr', 'stat') if rec.get('lenient') else ('corr', 'prov_corr')
    return pd.replay_case('C12', rec, [corr, ('spec', 'c05_spec'), ('rest', 'ends_at_rest')])
