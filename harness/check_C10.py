"""C10 — the negotiated maximum PDU length is honoured in both directions, including 0.
Static: Properties/C10.v.  Per run: a real AssociationRequester builds its request, a real
AssociationAcceptor.accept answers it, the requester reads the reply (stub providers passing the PDUs
through encode/decode); then both sides send messages of various sizes through Association.send and
every P-DATA-TF is measured: Model.Negotiation.negotiate = observed numbers (max_corr), and the
property's oracle on the observation (max_spec)."""
import random

import common
import impl
import nego_driver as nd
import pdumodel as pm
from common import clist, cbool

GRID = [0, 7, 8, 127, 128, 1024, 16384, 65536, 2 ** 31, 2 ** 32 - 1]


def one(own_r, own_a, sizes, rng):
    from pynetdicom2 import asceprovider, pdu, dimsemessages as dm
    classes = ['1.2.840.10008.1.1']
    ts = ['1.2.840.10008.1.2']
    ae = nd.make_entity([('scu', classes)], ts, 32768 if own_r not in (32768, 0) else 8192)
    req = object.__new__(asceprovider.AssociationRequester)
    req.ae = ae
    req.max_pdu_length = own_r
    req.accepted_contexts = {}
    req.association_established = False
    req.context_def_list = ae.copy_context_def_list()
    req.remote_ae = dict(address='127.0.0.1', port=104, aet='REMOTE')
    req.sop_classes_as_scu = {}
    acc = object.__new__(asceprovider.AssociationAcceptor)
    acc.ae = nd.StubAE(dict((c, nd.served_service) for c in classes), ts)
    acc.dul = impl.StubDul()
    acc.max_pdu_length = own_a
    acc.sop_classes_as_scp = {}
    acc.accepted_contexts = {}
    acc.remote_ae = b''
    seen = {}

    def reply(rq):
        wire_rq = pdu.AAssociateRqPDU.decode(rq.encode())
        seen['ann_r'] = wire_rq.variable_items[-1].user_data[0].maximum_length_received
        acc.accept(wire_rq)
        ac = pdu.AAssociateAcPDU.decode(acc.dul.sent[0].encode())
        seen['ann_a'] = ac.variable_items[-1].user_data[0].maximum_length_received
        return ac
    req.dul = nd.ReplyDul(reply)
    err = None
    try:
        req.request()
    except Exception as e:  # noqa
        err = repr(e)

    def send_all(assoc):
        out = []
        for n in sizes:
            msg = dm.CStoreRQMessage()
            impl.fill_message(msg, rng)
            data = common.pat(5, n)
            msg.data_set = data if n else None
            assoc.dul = impl.StubDul()
            longest = 0
            complete = False
            try:
                assoc.send(msg, 1)
                got = b''
                nfr = 0
                for p in assoc.dul.sent[0]:
                    nfr += 1
                    longest = max(longest, len(p.encode()) - 6)
                    for it in p.data_value_items:
                        if it.data_value[0] in (0, 2):
                            got += it.data_value[1:]
                complete = (got == data) and nfr >= 1
            except Exception:
                complete = False
            out.append((n, longest, complete))
        return out
    sent_r = send_all(req) if err is None else [(0, 0, False)]
    sent_a = send_all(acc) if err is None else [(0, 0, False)]
    lim_r = req.max_pdu_length if isinstance(req.max_pdu_length, int) else 0
    lim_a = acc.max_pdu_length if isinstance(acc.max_pdu_length, int) else 0
    term = '(mkmc %d %d %d %d %d %d %s %s)' % (own_r, own_a, seen.get('ann_r', 0), seen.get('ann_a', 0), lim_r, lim_a,
                                              clist(['(%d, %d, %s)' % (a, b, cbool(c)) for a, b, c in sent_r]),
                                              clist(['(%d, %d, %s)' % (a, b, cbool(c)) for a, b, c in sent_a]))
    human = dict(own_r=own_r, own_a=own_a, announced_r=seen.get('ann_r'), announced_a=seen.get('ann_a'), limit_r=lim_r,
                 limit_a=lim_a, sent_by_requestor=sent_r, sent_by_acceptor=sent_a, error=err)
    return term, human


def recv_case(own, peer_ann, ident_len):
    """The library as requestor (configured maximum `own`, which it announces) against a raw-socket acceptor that
    announces the smaller `peer_ann` and then - as it may: the two directions are independent - answers a C-FIND
    with one P-DATA-TF sized by the REQUESTOR's announcement.  The match must reach the caller."""
    import socket
    import struct
    import threading
    from pynetdicom2 import applicationentity as aemod, sopclass, pdu, userdataitems, dimsemessages as dm, dsutils
    from pydicom.dataset import Dataset
    FIND = sopclass.PATIENT_ROOT_FIND_SOP_CLASS
    ident = Dataset()
    ident.PatientID = 'X' * ident_len
    srv = socket.socket()
    srv.bind(('127.0.0.1', 0))
    srv.listen(1)
    port = srv.getsockname()[1]
    sent_len = [0]

    def read_pdu(conn):
        head = b''
        while len(head) < 6:
            chunk = conn.recv(6 - len(head))
            if not chunk:
                return None
            head += chunk
        n = struct.unpack('>I', head[2:6])[0]
        body = b''
        while len(body) < n:
            chunk = conn.recv(n - len(body))
            if not chunk:
                return None
            body += chunk
        return head + body

    def peer():
        conn, _a = srv.accept()
        conn.settimeout(10)
        try:
            rq = pdu.AAssociateRqPDU.decode(read_pdu(conn))
            items = [rq.variable_items[0]]
            for it in rq.variable_items[1:-1]:
                items.append(pdu.PresentationContextItemAC(it.context_id, 0, pdu.TransferSyntaxSubItem('1.2.840.10008.1.2')))
            items.append(pdu.UserInformationItem([userdataitems.MaximumLengthSubItem(peer_ann)]))
            conn.sendall(pdu.AAssociateAcPDU(rq.called_ae_title, rq.calling_ae_title, items).encode())
            pc = rq.variable_items[1].context_id
            got = b''
            while True:                                  # the C-FIND request (command + identifier)
                raw = read_pdu(conn)
                if raw is None:
                    return
                p = pdu.PDataTfPDU.decode(raw)
                if any(v.data_value[0] == 2 for v in p.data_value_items):
                    break
            rsp = dm.CFindRSPMessage()
            rsp.message_id_being_responded_to = 1
            rsp.sop_class_uid = FIND
            rsp.status = 0xFF00
            rsp.data_set = dsutils.encode(ident, True, True)
            rsp.set_length()
            for p in rsp.encode(pc, own or 2 ** 31):     # sized by what the requestor announced (0: no limit at all)
                raw = p.encode()
                sent_len[0] = max(sent_len[0], len(raw) - 6)
                conn.sendall(raw)
            fin = dm.CFindRSPMessage()
            fin.message_id_being_responded_to = 1
            fin.sop_class_uid = FIND
            fin.status = 0
            fin.set_length()
            for p in fin.encode(pc, own):
                conn.sendall(p.encode())
            while read_pdu(conn) is not None:            # release / abort / close
                rel = pdu.AReleaseRpPDU().encode()
                try:
                    conn.sendall(rel)
                except Exception:  # noqa
                    pass
        except Exception:  # noqa
            pass
        finally:
            conn.close()
    t = threading.Thread(target=peer)
    t.daemon = True
    t.start()
    delivered = False
    err = None
    try:
        cli = aemod.ClientAE('CLIENT', max_pdu_length=own).add_scu(sopclass.qr_find_scu)
        cli.timeout = 5
        with cli.request_association(dict(address='127.0.0.1', port=port, aet='PEER')) as assoc:
            q = Dataset()
            q.PatientID = ''
            for d, st in assoc.get_scu(FIND)(q, 1):
                if d is not None and str(d.PatientID) == 'X' * ident_len:
                    delivered = True
    except Exception as e:  # noqa
        err = repr(e)
    t.join(5)
    srv.close()
    return ('(%d, %d, %d, %s)' % (own, peer_ann, sent_len[0], cbool(delivered)),
            dict(own=own, peer_announced=peer_ann, incoming_pdu_length=sent_len[0], delivered=delivered, error=err))


def _read_pdu(conn):
    import struct
    head = b''
    while len(head) < 6:
        chunk = conn.recv(6 - len(head))
        if not chunk:
            return None
        head += chunk
    n = struct.unpack('>I', head[2:6])[0]
    body = b''
    while len(body) < n:
        chunk = conn.recv(n - len(body))
        if not chunk:
            return None
        body += chunk
    return head + body


def entity_class_cases():
    """Every public entity class must hand its configured maximum on: the serving classes (AE, StorageAE) announce it or
    less in their A-ASSOCIATE-AC, every class that requests (ClientAE, ClientStorageAE, AE, StorageAE - the latter two for
    their C-MOVE / N-ACTION sub-associations) announces it in its A-ASSOCIATE-RQ.  Raw sockets on the other side."""
    import shutil
    import socket
    import tempfile
    import threading
    import pynetdicom2
    import provider_driver as pd
    from pynetdicom2 import applicationentity as aemod, pdu, userdataitems, sopclass
    tmp = tempfile.mkdtemp(prefix='c10-', dir=common.BUILD)
    out = []

    def maxlen_of(p):
        for sub in p.variable_items[-1].user_data:
            if isinstance(sub, userdataitems.MaximumLengthSubItem):
                return sub.maximum_length_received
        return None
    try:
        for own in (4096, 100000):
            makers = [('AE', lambda: aemod.AE('SRV', 0, max_pdu_length=own)),
                      ('StorageAE', lambda: pynetdicom2.StorageAE(tmp, 'SRV', 0, max_pdu_length=own)),
                      ('ClientAE', lambda: aemod.ClientAE('CLI', max_pdu_length=own)),
                      ('ClientStorageAE', lambda: pynetdicom2.ClientStorageAE(tmp, 'CLI', max_pdu_length=own))]
            for name, make in makers[:2]:
                ann, err = None, None
                try:
                    ae = make().add_scp(sopclass.verification_scp)
                    t = threading.Thread(target=ae.serve_forever)
                    t.daemon = True
                    t.start()
                    try:
                        conn = socket.create_connection(('127.0.0.1', ae.server_address[1]), 5)
                        conn.settimeout(5)
                        conn.sendall(pd.mk_rq(max_len=1000000).encode())
                        ann = maxlen_of(pdu.AAssociateAcPDU.decode(_read_pdu(conn)))
                        conn.sendall(pdu.AAbortPDU(0, 0).encode())
                        conn.close()
                    finally:
                        ae.shutdown()
                        ae.server_close()
                except Exception as e:  # noqa
                    err = repr(e)
                out.append(dict(entity=name, role='acceptor', configured=own, peer_announced=1000000, announced=ann,
                                error=err, ok=bool(err is None and ann is not None and 0 < ann <= own)))
            for name, make in makers:
                ann, err = [None], None
                srv = socket.socket()
                srv.bind(('127.0.0.1', 0))
                srv.listen(1)

                def peer():
                    try:
                        conn, _a = srv.accept()
                        conn.settimeout(5)
                        ann[0] = maxlen_of(pdu.AAssociateRqPDU.decode(_read_pdu(conn)))
                        conn.sendall(pdu.AAssociateRjPDU(1, 1, 1).encode())
                        _read_pdu(conn)
                        conn.close()
                    except Exception:  # noqa
                        pass
                t = threading.Thread(target=peer)
                t.daemon = True
                t.start()
                ae = None
                try:
                    ae = make().add_scu(sopclass.verification_scu)
                    ae.timeout = 5
                    try:
                        with ae.request_association(dict(address='127.0.0.1', port=srv.getsockname()[1], aet='PEER')):
                            pass
                    except Exception:  # noqa  (rejected, as scripted)
                        pass
                except Exception as e:  # noqa
                    err = repr(e)
                finally:
                    if ae is not None and hasattr(ae, 'server_close'):
                        ae.server_close()
                t.join(5)
                srv.close()
                out.append(dict(entity=name, role='requestor', configured=own, announced=ann[0], error=err,
                                ok=bool(err is None and ann[0] == own)))
    finally:
        shutil.rmtree(tmp, ignore_errors=True)
    return out


def maxlen_position_cases():
    """A peer (another toolkit) whose user information does not list the Maximum Length sub-item FIRST - the standard
    fixes no order for the sub-items - or omits it: the acceptor (accept) and the requestor (_request) must still find
    the peer's announcement.  Known finding D24: both take `user_data[0]`."""
    from pynetdicom2 import asceprovider, pdu, userdataitems
    out = []
    for order, own, announced in [('impl-first', 16384, 4096), ('maxlen-last-of-three', 16384, 4096),
                                  ('maxlen-middle-of-five', 16384, 4096), ('impl-first', 0, 4096), ('impl-first', 128, 0),
                                  ('maxlen-last-of-three', 4096, 2 ** 32 - 1), ('absent', 16384, None), ('absent', 0, None),
                                  ('only-maxlen', 16384, 4096), ('empty', 16384, None)]:
        subs = [userdataitems.ImplementationClassUIDSubItem('1.2.3.4'), userdataitems.MaximumLengthSubItem(announced or 0)]
        if order == 'maxlen-last-of-three':
            subs.insert(1, userdataitems.ImplementationVersionNameSubItem('V1'))
        elif order == 'maxlen-middle-of-five':
            subs = [userdataitems.ImplementationClassUIDSubItem('1.2.3.4'), userdataitems.AsynchronousOperationsWindowSubItem(1, 1),
                    userdataitems.MaximumLengthSubItem(announced), userdataitems.ImplementationVersionNameSubItem('V1'),
                    userdataitems.ScpScuRoleSelectionSubItem('1.2.840.10008.1.1', 1, 0)]
        elif order == 'absent':
            subs = [userdataitems.ImplementationClassUIDSubItem('1.2.3.4'), userdataitems.ImplementationVersionNameSubItem('V1')]
        elif order == 'only-maxlen':
            subs = [userdataitems.MaximumLengthSubItem(announced)]
        elif order == 'empty':
            subs = []
        # what the side must send within: its own maximum limited by the peer's announcement; 0 = no limit; nothing
        # announced = no limit
        peer = announced or 0
        want = peer if not own else own if not peer else min(own, peer)
        # acceptor side
        acc = object.__new__(asceprovider.AssociationAcceptor)
        acc.ae = nd.StubAE({'1.2.840.10008.1.1': nd.served_service}, ['1.2.840.10008.1.2'])
        acc.dul = impl.StubDul()
        acc.max_pdu_length = own
        acc.sop_classes_as_scp = {}
        acc.accepted_contexts = {}
        acc.remote_ae = b''
        items = [pdu.ApplicationContextItem('1.2.840.10008.3.1.1.1'),
                 pdu.PresentationContextItemRQ(1, pdu.AbstractSyntaxSubItem('1.2.840.10008.1.1'),
                                               [pdu.TransferSyntaxSubItem('1.2.840.10008.1.2')]),
                 pdu.UserInformationItem(subs)]
        err = None
        try:
            acc.accept(pdu.AAssociateRqPDU.decode(pdu.AAssociateRqPDU('CALLED', 'CALLING', items).encode()))
        except Exception as e:  # noqa
            err = type(e).__name__
        lim = acc.max_pdu_length if isinstance(acc.max_pdu_length, int) else -1
        # and it announces, in its own A-ASSOCIATE-AC, exactly one Maximum Length sub-item; the peer's other sub-items
        # stay as they were
        ann = None
        if err is None and acc.dul.sent:
            ac = pdu.AAssociateAcPDU.decode(acc.dul.sent[0].encode())
            anns = [x.maximum_length_received for x in ac.variable_items[-1].user_data
                    if isinstance(x, userdataitems.MaximumLengthSubItem)]
            ann = anns[0] if len(anns) == 1 else -len(anns) - 1
            others_in = [type(x).__name__ for x in subs if not isinstance(x, userdataitems.MaximumLengthSubItem)]
            others_out = [type(x).__name__ for x in ac.variable_items[-1].user_data
                          if not isinstance(x, userdataitems.MaximumLengthSubItem)]
            if others_in != others_out:
                ann = -1
        out.append(dict(side='acceptor', sub_item_order=order, peer_announced=announced, own=own, error=err, limit_after=lim,
                        announces=ann, ok=(err is None and lim == want and ann == want)))
        # requestor side: the same order in the peer's A-ASSOCIATE-AC
        ae = nd.make_entity([('scu', ['1.2.840.10008.1.1'])], ['1.2.840.10008.1.2'], own)
        req = object.__new__(asceprovider.AssociationRequester)
        req.ae = ae
        req.max_pdu_length = own
        req.accepted_contexts = {}
        req.association_established = False
        req.context_def_list = ae.copy_context_def_list()
        req.remote_ae = dict(address='127.0.0.1', port=104, aet='REMOTE')
        req.sop_classes_as_scu = {}

        def reply(rq, subs=subs):
            ac_items = [pdu.ApplicationContextItem('1.2.840.10008.3.1.1.1'),
                        pdu.PresentationContextItemAC(1, 0, pdu.TransferSyntaxSubItem('1.2.840.10008.1.2')),
                        pdu.UserInformationItem(list(subs))]
            return pdu.AAssociateAcPDU.decode(pdu.AAssociateAcPDU('REMOTE', 'LOCAL', ac_items).encode())
        req.dul = nd.ReplyDul(reply)
        err = None
        try:
            req.request()
        except Exception as e:  # noqa
            err = type(e).__name__
        lim = req.max_pdu_length if isinstance(req.max_pdu_length, int) else -1
        out.append(dict(side='requestor', sub_item_order=order, peer_announced=announced, own=own, error=err, limit_after=lim,
                        ok=(err is None and lim == want)))
    return out


def main(tier, seed):
    dec = common.Decision('C10', tier, seed)
    common.static_gate(dec, ['Properties/C10.v'], ['Proofs/NegotiationProofs.v', 'Proofs/DimseProofs.v', 'Proofs/MaxLenPduProofs.v', 'Proofs/NegoPduProofs.v'])
    rng = random.Random(seed)
    obs = []
    for own_r in GRID:
        for own_a in GRID:
            eff = [x for x in (own_r, own_a) if x]
            frag = (min(eff) if eff else 65536) - 6
            sizes = sorted(set([0, 1, frag - 1, frag, frag + 1, 3 * frag + 2] if frag < 20000 else [0, 1, 70000]))
            sizes = [s for s in sizes if 0 <= s <= 200000]
            obs.append(one(own_r, own_a, sizes, rng))
    if tier != 'quick':
        for _ in range(300):
            a, b = rng.choice(GRID + [rng.randint(7, 5000)]), rng.choice(GRID + [rng.randint(7, 5000)])
            obs.append(one(a, b, [0, rng.randint(1, 3000), rng.randint(1, 20000)], rng))
    run = common.CoqRun('C10')
    failing, broken, n_obl, n_ok = common.run_sharded(run, 'Max', nd.IMPORTS, 'mcase', [t for t, _h in obs],
                                                      [('corr', 'max_corr'), ('spec', 'max_spec')], size=25)
    recv = [recv_case(own, ann, n) for own, ann, n in
            ([(16384, 4096, 8000), (0, 4096, 30000), (0, 4096, 100000), (0, 4096, 1500000), (65536, 128, 2000)] if tier == 'quick' else
             [(16384, 4096, 8000), (0, 4096, 30000), (0, 4096, 100000), (0, 0, 300000), (0, 0, 3000000), (0, 4194304, 3000000),
              (65536, 128, 2000), (8192, 7, 5000), (4096, 4096, 3000),
              (131072, 1024, 100000)])]
    f3, b3, n3, k3 = common.run_sharded(run, 'Recv', nd.IMPORTS, 'rvcase', [t for t, _h in recv],
                                        [('recv', 'recv_spec')], size=10)
    broken += b3
    n_obl += n3
    n_ok += k3
    dec.obligations(n_obl, n_ok)
    for r in maxlen_position_cases():
        if not r['ok']:
            dec.report(dict(r, kind='peer-maximum-not-found'))
    for i in f3['recv']:
        dec.report(dict(recv[i][1], kind='announced-maximum-not-received'))
    ents = entity_class_cases()
    for r in ents:
        if not r['ok']:
            dec.report(dict(r, kind='configured-maximum-not-announced'))
    cov = dec.coverage
    cov['evaluations'] = len(obs)
    cov['distinct_nontrivial'] = len(set((h['own_r'], h['own_a']) for _t, h in obs))
    cov['rule'] = ('all pairs over {0, 7, 8, 127, 128, 1024, 16384, 65536, 2^31, 2^32-1}^2 through the real requester and '
                   'acceptor (PDUs passed through encode/decode) x both sides sending messages smaller than, equal to and '
                   'several times the fragment size; the library as requestor against a raw acceptor that announces less than the '
                   'requestor and sends it P-DATA-TF PDUs sized by the requestor\'s announcement; distinct = pairs of configured maxima')
    cov['exhaustive'] = False
    cov['distribution'] = dict(pairs_with_zero=sum(1 for _t, h in obs if 0 in (h['own_r'], h['own_a'])),
                               errors=sum(1 for _t, h in obs if h['error']))
    cov['samples'] = [h for _t, h in obs[11:13]]
    cov['distribution']['entity_classes'] = ['%s/%s/%d announces %s' % (r['entity'], r['role'], r['configured'], r['announced'])
                                             for r in ents]
    spec_set = set(failing['spec'])
    for i in failing['spec']:
        dec.report(dict(obs[i][1], kind='max-length-not-honoured'))
    for i in failing['corr']:
        if i not in spec_set:
            dec.report(dict(obs[i][1], kind='model-differs', theorem='correspondence max_corr'), no_input=True)
    for name, out in broken:
        dec.report(dict(kind='case-file-broken', file=name, detail=out), no_input=True)
    run.keep = bool(dec.violations)
    run.cleanup()
    return dec.finish()


def replay(rec):
    rng = random.Random(0)
    _t, h = one(rec['own_r'], rec['own_a'], [s[0] for s in rec['sent_by_requestor']], rng)
    for k, v in h.items():
        print(k, ':', v)
    return 0
