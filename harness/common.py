"""Shared machinery of every check: environment, Coq literals, running generated case
files through coqc, deciding PASS / KNOWN-FINDING / VIOLATION, writing evidence."""
from __future__ import annotations

import concurrent.futures
import fcntl
import hashlib
import json
import os
import random
import re
import shutil
import subprocess
import sys
import time

VERIF = os.path.dirname(os.path.dirname(os.path.abspath(__file__)))
REPO = os.environ.get('VERIF_REPO', '/repo')
COQ = os.path.join(VERIF, 'coq')
BUILD = os.path.join(VERIF, 'build')
# VERIF_OUT redirects what a run writes (evidence, replays) - used only by tools/seeded.py and tools/harmless.py so that
# runs against a changed tree never touch the committed evidence; the registered commands do not set it
OUT = os.environ.get('VERIF_OUT', VERIF)
REPLAYS = os.path.join(OUT, 'replays')
EVIDENCE = os.path.join(OUT, 'evidence')
NPROC = int(os.environ.get('VERIF_JOBS', '16'))

TRUSTED_BASE = [
    'Coq 8.16.1 kernel incl. its bytecode VM (vm_compute); no native_compute',
    'no axioms: Print Assumptions of every property theorem = "Closed under the global context"',
    'primitive 63-bit integers (Uint63) only as a literal format in generated case files',
    'hand transcription of PS3.8 / PS3.7 / PS3.4 in coq/theories/Spec',
    'correspondence harness: CPython 3.12, harness/*.py (drivers, literal printer, generators)',
    'pydicom 2.4.5 treated as part of the implementation (observed, not modelled beyond command groups)',
]


# --------------------------------------------------------------------------- env
# ---- the case in hand: a breadcrumb for the supervising process (harness/main.py).  The implementation runs inside the
# harness process; if it never returns from one call (a decoder that does not terminate on some input holds the
# interpreter lock: no signal handler, no thread of this process can report it), only another process can tell.  Before a
# call that is given peer-controlled bytes the driver notes the input; the supervisor kills a child whose note has not
# changed for STALL_S seconds and reports the noted input as the one on which the implementation does not come back.
_CRUMB = os.environ.get('VERIF_CRUMB')
STALL_S = int(os.environ.get('VERIF_STALL_S', '150'))


def note_case(desc):
    if not _CRUMB:
        return
    if desc is None:
        try:
            os.remove(_CRUMB)
        except OSError:
            pass
        return
    tmp = _CRUMB + '.tmp'
    with open(tmp, 'w') as f:
        json.dump(desc, f)
    os.replace(tmp, _CRUMB)


def setup_env():
    """Make sure the implementation under test is /repo's working tree (fail closed)."""
    os.environ['PYTHONDONTWRITEBYTECODE'] = '1'
    sys.dont_write_bytecode = True
    if REPO not in sys.path:
        sys.path.insert(0, REPO)
    import pynetdicom2  # noqa
    f = os.path.realpath(pynetdicom2.__file__)
    if not f.startswith(os.path.realpath(REPO) + os.sep):
        raise SystemExit('FATAL: pynetdicom2 imported from %s, not from %s' % (f, REPO))
    import warnings
    warnings.filterwarnings('ignore')
    try:
        import pydicom.config
    except Exception:
        pass


def seed_from_env():
    try:
        return int(os.environ.get('VERIF_SEED', '20260923'))
    except ValueError:
        return 20260923


# --------------------------------------------------------------------------- static theories
def coq_project_lines():
    lines = ['-Q theories PND',
             '-arg -w -arg -notation-overridden,-deprecated-hint-without-locality,'
             '-deprecated-instance-without-locality']
    vs = []
    for root, _dirs, files in os.walk(os.path.join(COQ, 'theories')):
        for f in files:
            if f.endswith('.v'):
                vs.append(os.path.relpath(os.path.join(root, f), COQ))
    return lines + sorted(vs)


def ensure_static(verbose=False, fresh=False):
    """Build (or no-op) the static theories under a lock; returns the make output.  fresh: regenerate the Makefile
    and the dependency file first (bin/setup); a build that fails is repeated once from regenerated ones, so that a
    stale or truncated dependency file left behind by an interrupted run cannot fail it."""
    os.makedirs(BUILD, exist_ok=True)
    with open(os.path.join(BUILD, '.lock'), 'w') as lk:
        fcntl.flock(lk, fcntl.LOCK_EX)
        proj = '\n'.join(coq_project_lines()) + '\n'
        pf = os.path.join(COQ, '_CoqProject')

        def regenerate():
            for name in ('Makefile', 'Makefile.conf', '.Makefile.d'):
                try:
                    os.remove(os.path.join(COQ, name))
                except OSError:
                    pass
            with open(pf, 'w') as f:
                f.write(proj)
            subprocess.run(['coq_makefile', '-f', '_CoqProject', '-o', 'Makefile'], cwd=COQ,
                           check=True, stdout=subprocess.DEVNULL)

        def make():
            return subprocess.run('ulimit -s unlimited; timeout 3000 make -j%d 2>&1' % NPROC, shell=True,
                                  cwd=COQ, stdout=subprocess.PIPE, universal_newlines=True)
        old = open(pf).read() if os.path.exists(pf) else ''
        if fresh or old != proj or not os.path.exists(os.path.join(COQ, 'Makefile')):
            regenerate()
        p = make()
        if p.returncode != 0:
            first = p.stdout
            regenerate()
            p = make()
            if p.returncode != 0:
                p.stdout = first + '\n---- second attempt, Makefile and dependencies regenerated ----\n' + p.stdout
        out = p.stdout
        with open(os.path.join(BUILD, 'static.log'), 'a') as f:
            f.write(out)
        if verbose:
            sys.stdout.write(out)
        return p.returncode, out


FORBIDDEN = re.compile(r'\b(Admitted|admit|Axiom|Parameter|Conjecture|Unset Guard|bypass_check|'
                       r'type-in-type|Admit Obligations)\b')


def forbidden_scan():
    """No Admitted/Axiom/... anywhere in the development (comments excluded crudely)."""
    hits = []
    for rel in coq_project_lines()[2:]:
        txt = open(os.path.join(COQ, rel)).read()
        txt = re.sub(r'\(\*.*?\*\)', '', txt, flags=re.S)
        for m in FORBIDDEN.finditer(txt):
            hits.append('%s: %s' % (rel, m.group(0)))
    return hits


def static_theorem_status(prop_files):
    """Return (n_theorems, n_closed, assumptions_text) for the given Properties/ files by
    re-running coqc on them (cheap: they only contain `exact`) and reading Print Assumptions."""
    n_thm = 0
    n_closed = 0
    texts = []
    for rel in prop_files:
        path = os.path.join(COQ, 'theories', rel)
        src = open(path).read()
        n_thm += len(re.findall(r'^\s*(Theorem|Corollary)\b', src, flags=re.M))
        p = subprocess.run('ulimit -s unlimited; timeout 600 coqc -Q theories PND %s 2>&1' %
                           os.path.join('theories', rel), shell=True, cwd=COQ,
                           stdout=subprocess.PIPE, universal_newlines=True)
        if p.returncode != 0:
            return n_thm, -1, p.stdout[-2000:]
        n_closed += p.stdout.count('Closed under the global context')
        rest = p.stdout.replace('Closed under the global context', '').strip()
        if rest:
            texts.append(rest)
    return n_thm, n_closed, '\n'.join(texts)


def count_lemmas(rel_files):
    n = 0
    for rel in rel_files:
        path = os.path.join(COQ, 'theories', rel)
        if os.path.exists(path):
            n += len(re.findall(r'^\s*(Theorem|Lemma|Corollary|Example|Fact)\b',
                                open(path).read(), flags=re.M))
    return n


# --------------------------------------------------------------------------- Coq literals
def cN(n):
    assert isinstance(n, int) and n >= 0, n
    return str(n)


def cbool(b):
    return 'true' if b else 'false'


def cbytes(b):
    """bytes -> `(B len [ints]%uint63)` (7 bytes per primitive int)."""
    b = bytes(b)
    if len(b) == 0:
        return '[]'
    parts = []
    for i in range(0, len(b), 7):
        chunk = b[i:i + 7]
        chunk = chunk + b'\0' * (7 - len(chunk))
        parts.append('0x' + chunk.hex())
    return '(B %d [%s]%%uint63)' % (len(b), ';'.join(parts))


def clist(items):
    return '[' + '; '.join(items) + ']'


def copt(x, f=lambda v: v):
    return 'None' if x is None else '(Some %s)' % f(x)


def pat(seed, n):
    """Mirror of Lib.Base.pat."""
    out = bytearray()
    x = seed
    for _ in range(n):
        x = (x * 75 + 74) % 65537
        out.append(x % 256)
    return bytes(out)


# --------------------------------------------------------------------------- running case files
class CoqRun(object):
    """A per-run scratch directory of generated .v files compiled against the static theories."""

    def __init__(self, prop):
        self.prop = prop
        self.dir = os.path.join(BUILD, 'run-%s-%d' % (prop, os.getpid()))
        shutil.rmtree(self.dir, ignore_errors=True)
        os.makedirs(self.dir)
        self.files = []
        self.keep = False

    def add(self, name, text):
        path = os.path.join(self.dir, name + '.v')
        with open(path, 'w') as f:
            f.write(text)
        self.files.append(name)
        return path

    def _compile(self, name):
        t0 = time.time()
        cmd = ('ulimit -s unlimited; timeout 1800 coqc -Q %s/theories PND -Q . RUN %s.v 2>&1'
               % (COQ, name))
        p = subprocess.run(cmd, shell=True, cwd=self.dir, stdout=subprocess.PIPE,
                           universal_newlines=True)
        return name, p.returncode, p.stdout, time.time() - t0

    def compile_all(self):
        res = {}
        with concurrent.futures.ThreadPoolExecutor(NPROC) as ex:
            for name, rc, out, dt in ex.map(self._compile, list(self.files)):
                res[name] = (rc, out, dt)
        return res

    def cleanup(self):
        if not self.keep:
            shutil.rmtree(self.dir, ignore_errors=True)


def parse_printed_list(out, name):
    """Parse `name = [a; b; ...]` as printed by `Print name.`; None when absent."""
    m = re.search(r'\b%s\s*=\s*(.*?)\n\s*:\s' % re.escape(name), out, flags=re.S)
    if not m:
        return None
    return [int(x) for x in re.findall(r'\d+', re.sub(r'%\w+', '', m.group(1)))]


CASE_HEADER = '''From Coq Require Import Uint63.
From PND Require Import Lib.Base Lib.Lit.
'''


def shard(cases, size):
    return [cases[i:i + size] for i in range(0, len(cases), size)]


def obligations_file(imports, case_type, case_terms, checks, preamble=''):
    """A generated file: `cases`, then for each (name, fn) in checks the list of failing indices
    is computed by vm_compute, printed, and asserted empty with a kernel-checked Example."""
    txt = [CASE_HEADER, imports, 'Open Scope N_scope.\n', preamble,
           'Definition cases : list %s :=\n  [ %s ].\n' % (case_type, '\n  ; '.join(case_terms))]
    for chk in checks:
        name, fn = chk[0], chk[1]
        txt.append('Definition bad_%s := Eval vm_compute in failing %s cases.\nPrint bad_%s.\n'
                   % (name, fn, name))
    for chk in checks:
        if len(chk) > 2 and chk[2] == 'stat':
            continue
        txt.append('Example ok_%s : bad_%s = []. Proof. vm_compute. reflexivity. Qed.\n' % (chk[0], chk[0]))
    return ''.join(txt)


def run_sharded(run, prefix, imports, case_type, terms, checks, size=300, preamble=''):
    """Compile shards; return dict check-name -> sorted global failing indices, plus broken files."""
    groups = shard(terms, size)
    for k, g in enumerate(groups):
        run.add('%s_%d' % (prefix, k), obligations_file(imports, case_type, g, checks, preamble))
    res = run.compile_all()
    failing = dict((chk[0], []) for chk in checks)
    broken = []
    n_obl = 0
    n_ok = 0
    for k, g in enumerate(groups):
        rc, out, _dt = res['%s_%d' % (prefix, k)]
        for chk in checks:
            name = chk[0]
            stat = len(chk) > 2 and chk[2] == 'stat'
            if not stat:
                n_obl += 1
            lst = parse_printed_list(out, 'bad_' + name)
            if lst is None:
                broken.append(('%s_%d' % (prefix, k), out[-1500:]))
                continue
            if lst:
                failing[name].extend(k * size + i for i in lst)
            elif not stat:
                n_ok += 1
    # the files are compiled once; drop them from the pending list
    run.files = []
    return failing, broken, n_obl, n_ok


# --------------------------------------------------------------------------- known findings
def load_known_findings():
    out = []
    path = os.path.join(VERIF, 'KNOWN_FINDINGS.txt')
    if not os.path.exists(path):
        return out
    for line in open(path):
        line = line.strip()
        if not line.startswith('finding:'):
            continue
        m = re.match(r'finding:\s+property=(\S+)\s+id=(\S+)\s+matcher=(\S+)\s+(.*)', line)
        if m:
            out.append(dict(property=m.group(1), id=m.group(2), matcher=m.group(3), text=m.group(4)))
    return out


# --------------------------------------------------------------------------- decision + evidence
class Decision(object):
    def __init__(self, prop, tier, seed):
        self.prop = prop
        self.tier = tier
        self.seed = seed
        self.t0 = time.time()
        self.violations = []       # list of (record dict, no_input flag)
        self.known = []
        self.coverage = dict(obligations=0, discharged=0, evaluations=0, distinct_nontrivial=0,
                             samples=[], rule='', trusted_base=list(TRUSTED_BASE),
                             checker_cmd='coqc (make in /verif/coq; generated case files in '
                                         '/verif/build/run-*) via bin/check %s %s' % (prop, tier))
        self.assumptions = []
        self.findings = [f for f in load_known_findings() if f['property'] == prop]
        self.matchers = {}
        import glob
        for f in glob.glob(os.path.join(REPLAYS, '%s-*.json' % prop)):
            try:
                os.remove(f)
            except OSError:
                pass

    def obligations(self, total, ok):
        self.coverage['obligations'] += total
        self.coverage['discharged'] += ok

    def report(self, record, no_input=False):
        """record: dict describing the failing case (must be JSON-serialisable)."""
        for f in self.findings:
            m = self.matchers.get(f['matcher'])
            if m is not None and not no_input and m(record):
                if f['id'] not in [k['id'] for k in self.known]:
                    self.known.append(dict(id=f['id'], text=f['text'], example=record))
                return 'known'
        self.violations.append((record, no_input))
        return 'violation'

    def concurrent_use(self, makers, rounds=150):
        """harness/race.py: the operations, each on its own inputs, from four threads at the same time."""
        import race
        bad, n = race.race(makers, rounds=rounds)
        self._race = dict(operations_run=n, threads=4, disagreements=len(bad),
                          operations=sorted(set(name for mk in makers for name, _f in mk(0))))
        for b in bad[:3]:
            self.report(dict(b, kind='result-depends-on-what-another-thread-does',
                             detail='each thread computes functions of its own arguments; the result computed alone and the '
                                    'result computed while three other threads do the same with THEIR arguments differ'))

    def finish(self, extra=None):
        for key, attr in (('concurrent_use', '_race'), ('through_the_dispatcher', '_dispatched')):
            if getattr(self, attr, None):
                self.coverage.setdefault('distribution', {})
                if isinstance(self.coverage['distribution'], dict):
                    self.coverage['distribution'][key] = getattr(self, attr)
        os.makedirs(EVIDENCE, exist_ok=True)
        os.makedirs(REPLAYS, exist_ok=True)
        lines = []
        for k in self.known:
            lines.append('KNOWN-FINDING: property=%s %s: %s' % (self.prop, k['id'], k['text']))
        # one VIOLATION line per distinct kind (first few), each with a replay file
        seen = {}
        for rec, no_input in self.violations:
            key = (rec.get('kind', '?'), no_input)
            if key in seen:
                seen[key]['more'] = seen[key].get('more', 0) + 1
                continue
            seen[key] = rec
            n = len(seen)
            path = os.path.join(REPLAYS, '%s-%d.json' % (self.prop, n))
            rec = dict(rec)
            rec.update(property=self.prop, tier=self.tier, seed=self.seed,
                       how_to_replay='cd /verif && bin/check --replay %s' % path)
            with open(path, 'w') as f:
                json.dump(rec, f, indent=1, default=repr)
            lines.append('VIOLATION property=%s replay=%s%s' %
                         (self.prop, path, ' no-failing-input-found' if no_input else ''))
        if self.violations:
            with open(os.path.join(REPLAYS, '%s-all.json' % self.prop), 'w') as f:
                json.dump([dict(r, no_failing_input_found=ni) for r, ni in self.violations[:500]], f,
                          indent=1, default=repr)
        wall = time.time() - self.t0
        cov = self.coverage
        if extra:
            cov.update(extra)
        ev = dict(property_id=self.prop, tier=self.tier, seed=self.seed, level='proof',
                  coverage=cov, assumptions=self.assumptions, wall_s=round(wall, 2),
                  violations=len(self.violations),
                  known_findings=[k['id'] for k in self.known])
        with open(os.path.join(EVIDENCE, '%s.json' % self.prop), 'w') as f:
            json.dump(ev, f, indent=1, default=repr)
        for ln in lines:
            print(ln)
        ok = not self.violations
        print('%s %s %s: obligations %d/%d discharged, %d evaluations, %.1fs' %
              ('PASS' if ok else 'FAIL', self.prop, self.tier, cov['discharged'], cov['obligations'],
               cov['evaluations'], wall))
        return 0 if ok else 1


def static_gate(dec, prop_files, cone_files):
    """Static part shared by all checks: build, forbidden-word scan, property theorems closed."""
    rc, out = ensure_static()
    if rc != 0:
        dec.report(dict(kind='static-build-failed', detail=out[-3000:],
                        theorem='static theories do not compile'), no_input=True)
        return False
    hits = forbidden_scan()
    if hits:
        dec.report(dict(kind='forbidden-construct', detail=hits), no_input=True)
        return False
    n_thm, n_closed, txt = static_theorem_status(prop_files)
    if n_closed < 0:
        dec.report(dict(kind='property-theorem-broken', detail=txt, theorem=prop_files), no_input=True)
        return False
    n_lem = count_lemmas(cone_files)
    dec.obligations(n_thm + n_lem, n_closed + n_lem if n_closed == n_thm else n_closed)
    dec.coverage['static_theorems'] = n_thm
    dec.coverage['static_lemmas_in_cone'] = n_lem
    dec.coverage['print_assumptions'] = ('all %d closed under the global context' % n_thm
                                         if (n_closed == n_thm and not txt) else txt)
    if n_closed != n_thm or txt:
        dec.report(dict(kind='property-theorem-has-assumptions', detail=txt), no_input=True)
        return False
    return True


def stable_hash(obj):
    return hashlib.sha1(repr(obj).encode()).hexdigest()[:12]
