"""C05 — provider behaviour = PS3.8 protocol machine over every event history.
Static: Proofs/FsmProofs.v (reachable control states closed under every legal input; invariants by
reflection, lifted to all histories of any length).  Per run: the real provider loop under the
scripted world vs Model.Provider step by step (prov_corr) and the property's invariants evaluated on
the implementation's own trace (c05_spec)."""
import itertools
import random

import common
import provider_driver as pd
import world


def with_version(p, v):
    p.protocol_version = v
    return p


def alphabet(acceptor, max_len=16384):
    """Operations a history is made of (the property's alphabet)."""
    peer = [
        ('rq', ('seg', pd.mk_rq(max_len).encode())), ('ac', ('seg', pd.mk_ac(max_len).encode())),
        ('rj', ('seg', pd.mk_rj().encode())),
        # a peer supporting several protocol versions announces them all (bit 0 = version 1 is what counts)
        ('rq_v3', ('seg', with_version(pd.mk_rq(max_len), 3).encode())),
        ('ac_v3', ('seg', with_version(pd.mk_ac(max_len), 0x8001).encode())),
        ('data', ('seg', b''.join(p.encode() for p in pd.fragments(pd.mk_message('echo_rq', 1), 1, max_len)))),
        # a partial P-DATA: the first command fragment of a C-ECHO-RQ, cut at an element boundary (group length +
        # affected SOP class = 38 bytes) so that what follows is decided by the modelled strict reader, not by
        # pydicom's lenient one
        ('data_part', ('seg', pd.fragments(pd.mk_message('echo_rq', 2), 1, 44)[0].encode())),
        ('frame_part', ('seg', pd.mk_rel_rq().encode()[:7])),      # an incomplete PDU (part of a frame)
        # a well-framed P-DATA-TF that cannot be reassembled: a PDV whose message control header is not 0..3
        ('data_bad', ('seg', b'\x04\x00\x00\x00\x00\x0a\x00\x00\x00\x06\x01\x07abcd')),
        ('relrq', ('seg', pd.mk_rel_rq().encode())), ('relrp', ('seg', pd.mk_rel_rp().encode())),
        ('abort', ('seg', pd.mk_abort(2, 0).encode())), ('unknown', ('seg', b'\x09\x00\x00\x00\x00\x01z')),
        ('close', ('close',)), ('expire', ('tick', 11)), ('tick', ('tick', 3)), ('idle', ('idle',)),
    ]
    user = [
        ('u_rq', ('user', pd.mk_rq(max_len))), ('u_ac', ('user', pd.mk_ac(max_len))), ('u_rj', ('user', pd.mk_rj())),
        ('u_data', ('usermsg', pd.fragments(pd.mk_message('echo_rsp', 1), 1, max_len))),
        ('u_relrq', ('user', pd.mk_rel_rq())), ('u_relrp', ('user', pd.mk_rel_rp())),
        ('u_abort', ('user', pd.mk_abort(0, 0))),
    ]
    return peer, user


# user primitives Table 9-10 defines, per state (the property's "legal at that point")
LEGAL_USER = {1: ['u_rq'], 3: ['u_ac', 'u_rj', 'u_abort'], 4: ['u_abort'], 5: ['u_abort'],
              6: ['u_data', 'u_relrq', 'u_abort'], 7: ['u_abort'], 8: ['u_data', 'u_relrp', 'u_abort'],
              9: ['u_relrp', 'u_abort'], 10: ['u_abort'], 11: ['u_abort'], 12: ['u_relrp', 'u_abort'], 2: [], 13: []}


def bases():
    """(label, acceptor, ops) reaching each protocol state from which histories are explored."""
    idle = [('idle',)] * 2
    rq = [('seg', pd.mk_rq().encode())] + idle
    est_a = rq + [('user', pd.mk_ac())] + idle
    est_r = [('user', pd.mk_rq())] + idle + [('seg', pd.mk_ac().encode())] + idle
    return [
        ('start', True, []), ('start', False, []),
        ('sta2', True, [('idle',)]), ('sta3', True, rq), ('sta5', False, [('user', pd.mk_rq())] + idle),
        ('sta6', True, est_a), ('sta6', False, est_r),
        ('sta7', True, est_a + [('user', pd.mk_rel_rq())] + idle), ('sta7', False, est_r + [('user', pd.mk_rel_rq())] + idle),
        ('sta8', True, est_a + [('seg', pd.mk_rel_rq().encode())] + idle),
        ('sta9', False, est_r + [('user', pd.mk_rel_rq())] + idle + [('seg', pd.mk_rel_rq().encode())] + idle),
        ('sta10', True, est_a + [('user', pd.mk_rel_rq())] + idle + [('seg', pd.mk_rel_rq().encode())] + idle),
        ('sta13', True, rq + [('user', pd.mk_rj())] + idle), ('sta13', False, est_r + [('user', pd.mk_abort(0, 0))] + idle),
    ]


def histories(acceptor, base_ops, depth, rng, n_random, walk_len):
    """Exhaustive histories to `depth` from a base state (user primitives only where legal, decided by
    running the implementation on the prefix), then seeded random walks."""
    peer, user = alphabet(acceptor)
    udict = dict(user)
    out = []

    def state_after(ops):
        r = pd.run(list(base_ops) + ops + [('idle',)] * 2, acceptor)
        return r['final']['st'], r

    def extend(prefix_names, prefix_ops, d):
        st, _r = state_after(prefix_ops)
        choices = list(peer) + [(n, udict[n]) for n in LEGAL_USER.get(st, [])]
        for name, op in choices:
            names = prefix_names + [name]
            ops = prefix_ops + [op, ('idle',), ('idle',)]
            if d + 1 >= depth:
                out.append((names, list(base_ops) + ops))
            else:
                extend(names, ops, d + 1)

    if depth > 0:
        extend([], [], 0)
    for _ in range(n_random):
        names, ops = [], []
        for _k in range(walk_len):
            st, _r = state_after(ops)
            choices = list(peer) + [(n, udict[n]) for n in LEGAL_USER.get(st, [])] * 3
            name, op = rng.choice(choices)
            names.append(name)
            ops += [op] + [('idle',)] * rng.choice([0, 1, 2])
        out.append((names, list(base_ops) + ops + [('idle',)] * 3))
    return out


def straddling_histories(acceptor, base_ops):
    """A peer message split over several P-DATA-TF PDUs with something else happening between its fragments:
    the local release request (the rest then arrives in Sta7), an outgoing message, the peer's release request
    (protocol error of the peer), a time advance."""
    frags = pd.fragments(pd.mk_message('store_rq', 2, 120), 3, 70)
    first, rest = frags[0].encode(), [f.encode() for f in frags[1:]]
    _peer, user = alphabet(acceptor)
    udict = dict(user)
    betweens = [('u_relrq', [udict['u_relrq']]), ('u_data', [udict['u_data']]), ('tick3', [('tick', 3)]),
                ('u_abort', [udict['u_abort']]), ('nothing', [])]
    out = []
    # ... and the mirror image: an OUTGOING message of several fragments with the peer's release request (Sta8: AR-7
    # still sends the rest), a peer message, or a time advance arriving between its fragments
    big = pd.fragments(pd.mk_message('store_rsp', 2), 3, 40) if False else pd.fragments(pd.mk_message('store_rq', 4, 90), 3, 48)
    for name, mid in [('relrq', [('seg', pd.mk_rel_rq().encode())]), ('data', [dict(_peer)['data']]),
                      ('tick3', [('tick', 3)]), ('abort', [dict(_peer)['abort']])]:
        for gap in (1, 2, 4):
            ops = list(base_ops) + [('usermsg', list(big))] + [('idle',)] * gap + list(mid) + [('idle',)] * (len(big) + 4)
            out.append((['outgoing-%d-fragments' % len(big), 'after-%d' % gap, name], ops))
    for name, mid in betweens:
        for split_rest in (False, True):
            ops = list(base_ops) + [('seg', first), ('idle',)] + list(mid) + [('idle',), ('idle',)]
            if split_rest:
                for r in rest:
                    ops += [('seg', r), ('idle',)]
            else:
                ops += [('seg', b''.join(rest)), ('idle',)]
            ops += [('idle',), ('seg', pd.mk_rel_rp().encode())] + [('idle',)] * 3
            out.append((['first-fragment', name, 'rest' + ('-split' if split_rest else ''), 'relrp'], ops))
    return out


def timed_histories(acceptor, base_ops):
    """ARTIM is running: a non-expiring time advance, then traffic, then further advances that pass the
    original deadline (the timer must not have been re-armed by the traffic)."""
    peer, _user = alphabet(acceptor)
    out = []
    for name, op in peer:
        if name in ('expire', 'tick', 'idle'):
            continue
        out.append((['tick6', name, 'tick6'], list(base_ops) + [('tick', 6), ('idle',), op, ('idle',), ('idle',), ('tick', 6)] + [('idle',)] * 3))
        out.append((['tick6', name, 'tick3', 'tick3'], list(base_ops) + [('tick', 6), ('idle',), op, ('idle',), ('tick', 3), ('idle',), ('tick', 3)] + [('idle',)] * 3))
    return out


def large_message_run(mib=70):
    """Sta6, acceptor: one message whose data set of `mib` MiB arrives in P-DATA-TF PDUs of 1 MiB (a provider that
    announced no limit).  Far beyond what the Coq evaluation of Model.Provider can be given: the cell (Sta6, P-DATA-TF) is
    the same for every one of these PDUs - DT-2, next state Sta6 - and its effect is compared directly: nothing is written,
    the machine stays in Sta6, the message is indicated once, complete (length and digest)."""
    import hashlib
    import world
    from pynetdicom2 import pdu
    chunk = bytes(range(256)) * 4096
    msg = pd.mk_message('store_rq', 5, 0)
    msg.command_set.CommandDataSetType = 1
    msg.set_length()
    cmd_pdus = pd.fragments(msg, 3, 0)
    ops = [('seg', pd.mk_rq(0).encode()), ('idle',), ('user', pd.mk_ac(0)), ('idle',)]
    ops += [('seg', p.encode()) for p in cmd_pdus]
    want = hashlib.sha256()
    for k in range(mib):
        tail = bytes([k % 251]) * 5
        ops.append(('seg', pdu.PDataTfPDU([pdu.PresentationDataValueItem(3, (b'\x02' if k == mib - 1 else b'\x00') + chunk + tail)]).encode()))
        ops += [('idle',)] * 17                   # reads of 65536: 17 per PDU
        want.update(chunk)
        want.update(tail)
    ops += [('idle',)] * 4
    r = world.run_provider(pd.world_script(ops), True, 0, budget=400000)
    msgs = [g[0] for g in r['given'] if isinstance(g, tuple) and hasattr(g[0], 'command_set')]
    ds = msgs[0].data_set if msgs else None
    ok = (r['outcome'] == 'returned' and r['final']['st'] == 6 and len(r['wire']) == 1 and len(msgs) == 1
          and isinstance(ds, bytes) and len(ds) == mib * (len(chunk) + 5) and hashlib.sha256(ds).hexdigest() == want.hexdigest())
    return dict(data_set_MiB=mib, outcome=r['outcome'], error=repr(r['exc'])[:200], final_state=r['final']['st'],
                pdus_written=len(r['wire']), written_types=[w[0] for w in r['wire']][:5], messages_indicated=len(msgs),
                indications=len(r['given']), data_set_length=(len(ds) if isinstance(ds, bytes) else None), ok=ok)


def main(tier, seed, prop='C05'):
    dec = common.Decision(prop, tier, seed)
    common.static_gate(dec, ['Properties/C05.v'], ['Proofs/FsmProofs.v', 'Proofs/FsmCellProofs.v'])
    rng = random.Random(seed)
    mt = pd.message_table()
    env = pd.c_env(mt)
    cases = []
    for acceptor in (True, False):
        corpus = pd.ACCEPTOR_CORPUS if acceptor else pd.REQUESTOR_CORPUS
        for name, build in corpus:
            for lead in (False, True):
                cases.append((['corpus', name, 'lead_idle' if lead else 'first_waiting'], acceptor,
                              pd.to_script(build(), None, lead)))
    depth = 2 if tier == 'quick' else 3
    for label, acceptor, base_ops in bases():
        d = depth if label != 'start' else depth
        nr, wl = (6, 10) if tier == 'quick' else (60, 40)
        for names, ops in histories(acceptor, base_ops, d, rng, nr, wl):
            cases.append(([label] + names, acceptor, ops))
        if label in ('sta2', 'sta13'):
            for names, ops in timed_histories(acceptor, base_ops):
                cases.append(([label] + names, acceptor, ops))
        if label in ('sta6', 'sta8'):
            for names, ops in straddling_histories(acceptor, base_ops):
                cases.append(([label] + names, acceptor, ops))
    obs = []
    terms = []
    for names, acceptor, ops in cases:
        r = pd.run(ops, acceptor)
        obs.append((names, acceptor, ops, r))
        terms.append(pd.case_term(env, acceptor, 65536, ops, r))
    runner = common.CoqRun(prop)
    failing, broken, n_obl, n_ok = common.run_sharded(runner, 'Hist', pd.IMPORTS, 'pcase', terms,
                                                      [('corr', 'prov_corr'), ('spec', 'c05_spec')], size=40)
    dec.obligations(n_obl, n_ok)
    cov = dec.coverage
    cov['evaluations'] = len(obs)
    cov['distinct_nontrivial'] = len(set(tuple(n) for n, _a, _o, r in obs if len(r['wire']) + len(r['given']) >= 2))
    cov['rule'] = ('scenario corpus (both roles, first segment waiting or not) + exhaustive histories to depth %d from each of 14 base states (Sta1..Sta13, both roles) over '
                   '{7 PDU types, complete / partial / unusable P-DATA, unknown type, close, ARTIM expiry, tick, idle, legal user '
                   'primitives} + timed histories around the ARTIM deadline + a fragmented peer message with the local release request / an outgoing message / a time advance between its fragments + seeded random walks; non-trivial = at least two wire/indication outputs' % depth)
    cov['distribution'] = dict(final_states=dict((str(k), sum(1 for o in obs if o[3]['final']['st'] == k)) for k in range(1, 14)),
                               outcomes=dict((k, sum(1 for o in obs if o[3]['outcome'] == k)) for k in pd.OUTCOME))
    cov['samples'] = [dict(history=o[0], acceptor=o[1], result=pd.summary(o[3])) for o in obs[3:6]]

    def rec(i, kind):
        names, acceptor, ops, r = obs[i]
        return dict(kind=kind, history=names, acceptor=acceptor, ops=[repr(o)[:100] for o in ops], result=pd.summary(r),
                    states=[s['st'] for s in r['snapshots']])
    spec_set = set(failing['spec'])
    for i in failing['spec']:
        case = dict(ops=obs[i][2], acceptor=obs[i][1])
        dec.report(pd.with_minimal('C05', pd.replayable(rec(i, 'invariant-violated-by-implementation'), case), case,
                                   ('spec', 'c05_spec')))
    for i in failing['corr']:
        if i not in spec_set:
            dec.report(dict(pd.replayable(rec(i, 'model-differs'), dict(ops=obs[i][2], acceptor=obs[i][1])),
                            theorem='correspondence prov_corr (Model.Provider vs real loop)'), no_input=True)
    for name, out in broken:
        dec.report(dict(kind='case-file-broken', file=name, detail=out), no_input=True)
    if prop == 'C05':
        big = large_message_run(70 if tier == 'quick' else 200)
        if isinstance(cov.get('distribution'), dict):
            cov['distribution']['large_message'] = big
        if not big['ok']:
            dec.report(dict(big, kind='large-message-in-sta6-not-handled-as-dt2'))
    runner.keep = bool(dec.violations)
    runner.cleanup()
    return dec.finish()


def replay(rec):
    return pd.replay_case('C05', rec, [('corr', 'prov_corr'), ('spec', 'c05_spec')])
