"""C06 — DIMSE fragmentation.  Static theorem C06_fragmentation (all cmd/data/pc/m>=7) +
correspondence of Model.Dimse.dimse_encode with the real Association.send/DIMSEMessage.encode
and the property's oracle evaluated on the observation."""
import io
import os
import random
import tempfile

import common
import impl
from common import cN, cbytes, cbool, clist

IMPORTS = 'From PND Require Import Model.Dimse Corr.CorrC06.\n'


class ShortReader(io.RawIOBase):
    """A raw stream whose read(n) may return fewer than n bytes before the end (io.RawIOBase allows that; sockets,
    pipes and home-made storage streams do it): every k-th read returns at most `cap` bytes."""

    def __init__(self, data, k, cap):
        io.RawIOBase.__init__(self)
        self._b = io.BytesIO(data)
        self._k, self._cap, self._n = k, cap, 0

    def read(self, n=-1):
        self._n += 1
        if n is None or n < 0:
            return self._b.read()
        if self._n % self._k == 0:
            n = min(n, self._cap)
        return self._b.read(n)

    def seek(self, pos, whence=0):
        return self._b.seek(pos, whence)

    def tell(self):
        return self._b.tell()

    def readable(self):
        return True

    def seekable(self):
        return True


def observe(cls, data_len, pc, m, variant, rng, seed_pat):
    """Run the implementation; returns a case dict."""
    msg = impl.fill_message(cls(), rng)
    data = common.pat(seed_pat, data_len)
    tmp = None
    if not data_len and variant in ('bytesio', 'bytesio_off', 'file', 'file_off'):
        # a stream with nothing (left) to read is "no data set": no data fragment, certainly not an empty one
        prefix = common.pat(seed_pat + 1, 1 + seed_pat % 300) if variant.endswith('_off') else b''
        msg.data_set = io.BytesIO(prefix)
        msg.data_set.seek(len(prefix))
    if data_len:
        if variant == 'bytes':
            msg.data_set = data
        elif variant == 'bytesio':
            msg.data_set = io.BytesIO(data)
        elif variant == 'gzip':
            # a file object whose fileno() belongs to ANOTHER byte stream than the one it reads (an instance kept
            # compressed on disk): sizes taken from the descriptor are not the data set's
            import gzip
            tmp = tempfile.NamedTemporaryFile(dir=common.BUILD, suffix='.gz')
            with gzip.GzipFile(fileobj=tmp, mode='wb') as gz:
                gz.write(data)
            tmp.flush()
            tmp.seek(0)
            msg.data_set = gzip.GzipFile(fileobj=tmp, mode='rb')
        elif variant == 'shortread':
            msg.data_set = ShortReader(data, 1 + seed_pat % 7, 3 + seed_pat % 50)
        elif variant == 'bytesio_off':
            # a stream positioned after a header, as storage_scu positions a Part-10 file after its meta group:
            # the data set is what follows the current position
            prefix = common.pat(seed_pat + 1, 1 + seed_pat % 300)
            msg.data_set = io.BytesIO(prefix + data)
            msg.data_set.seek(len(prefix))
        else:
            tmp = tempfile.TemporaryFile(dir=common.BUILD)
            prefix = common.pat(seed_pat + 1, 1 + seed_pat % 300) if variant == 'file_off' else b''
            tmp.write(prefix + data)
            tmp.seek(len(prefix))
            msg.data_set = tmp
    err = None
    obs = []
    one = True
    cmd = b''
    refused = False
    try:
        try:
            assoc = impl.stub_assoc(m)
            assoc.send(msg, pc)                       # the caller's thread
        except Exception as e:  # noqa
            refused = True
            raise
        from pynetdicom2 import dsutils
        cmd = dsutils.encode(msg.command_set, True, True)
        pdus = list(assoc.dul.sent[0])                # the provider's thread
        for p in pdus:
            items = p.data_value_items
            if len(items) != 1:
                one = False
            for it in items:
                dv = it.data_value
                obs.append((it.context_id, dv[0], bytes(dv[1:])))
            if len(p.encode()) != sum(len(it.data_value) for it in items) + 5 * len(items) + 6 \
                    or p.total_length() != len(p.encode()):
                one = False
    except Exception as e:  # noqa
        err = type(e).__name__
    return dict(cls=cls.__name__, data_len=data_len, pc=pc, m=m, variant=variant, seed_pat=seed_pat,
                cmd=cmd, data=data, obs=obs, one=one, err=err, refused=refused)


def render(c):
    data = c['data']
    # payloads as slices of cmd / data where they are exactly that (else literal)
    off = {1: 0, 3: 0, 0: 0, 2: 0}
    parts = []
    pos_c = 0
    pos_d = 0
    for ctx, ctl, pl in c['obs']:
        if ctl in (1, 3) and c['cmd'][pos_c:pos_c + len(pl)] == pl and len(pl) > 0:
            term = 'sl C %d %d' % (pos_c, len(pl))
            pos_c += len(pl)
        elif ctl in (0, 2) and data[pos_d:pos_d + len(pl)] == pl and len(pl) > 0:
            term = 'sl D %d %d' % (pos_d, len(pl))
            pos_d += len(pl)
        else:
            term = cbytes(pl)
        parts.append('(%d, %d, %s)' % (ctx, ctl, term))
    dterm = '(pat %d %d)' % (c['seed_pat'], len(data)) if len(data) else '[]'
    return ('(let C := %s in let D := %s in mk C D %d %d %s %s %s)' %
            (cbytes(c['cmd']) if c['cmd'] else '[]', dterm, c['pc'], c['m'], clist(parts),
             cbool(c['one'] and c['err'] is None), cbool(c['refused'])))


def gen_cases(tier, rng):
    from pynetdicom2 import dimsemessages as dm
    classes = impl.message_classes()
    cases = []
    k = [0]

    def add(cls, n, pc, m, variant='bytes'):
        k[0] += 1
        if variant in ('bytesio', 'file') and k[0] % 2:
            variant += '_off'
        cases.append((cls, n, pc, m, variant, 1 + (k[0] * 7919) % 60000))

    hi = 20 if tier == 'quick' else 40
    for m in range(7, hi + 1):                      # exhaustive box
        for n in range(0, 3 * (m - 6) + 3):
            add(dm.CEchoRSPMessage if (m + n) % 2 else dm.CFindRSPMessage, n, 1 + 2 * ((m + n) % 100), m,
                ['bytes', 'bytesio', 'file'][(m + n) % 3])
    for cls in classes:                             # every message class
        for m in (7, 64, 1024):
            for n in (0, 1, m - 6, 3 * (m - 6) + 1):
                add(cls, n, rng.choice([1, 3, 255]), m, rng.choice(['bytes', 'bytesio']))
    big = [100, 128, 1000, 4096, 16384] + ([65536] if tier == 'quick' else [65536, 131072])
    for m in big:                                    # lengths within +-2 of multiples
        for mult in ((1, 2, 3) if m < 65536 else (1, 2)):
            for d in (-2, -1, 0, 1, 2):
                add(dm.CStoreRQMessage, mult * (m - 6) + d, 1 + 2 * rng.randint(0, 127), m,
                    rng.choice(['bytes', 'bytesio', 'file']))
    for kk in range(3, 33):                          # 2^k boundaries up to 2^32-1
        for m in (2 ** kk - 1, 2 ** kk, 2 ** kk + 1):
            if m > 2 ** 32 - 1 or m < 7:
                continue
            for n in (1, 100):
                add(dm.CGetRQMessage, n, 7, m, 'bytes' if n == 1 else 'bytesio')
    for n in (0, 1, 65529, 65530, 65531, 131060, 131061):   # no maximum in force (0): fragments of 65530
        add(dm.CStoreRQMessage, n, 3, 0, ['bytes', 'bytesio', 'file'][n % 3])
    for m in range(1, 7):                             # maxima that cannot carry a fragment: the send is refused
        for n in (0, 1, 20):
            add(dm.CEchoRQMessage if n == 0 else dm.CStoreRQMessage, n, 1, m, ['bytes', 'bytesio', 'file'][m % 3])
    for pc in range(1, 256):                         # presentation context ids 1..255
        add(dm.NSetRQMessage, pc % 5, pc, 16 + pc % 3)
    if tier != 'quick':
        for _ in range(1500):
            m = rng.choice([rng.randint(7, 300), rng.randint(7, 5000)])
            add(rng.choice(classes), rng.randint(0, 4 * m), rng.randint(1, 255), m,
                rng.choice(['bytes', 'bytesio', 'file']))
    return cases


def main(tier, seed):
    dec = common.Decision('C06', tier, seed)
    common.static_gate(dec, ['Properties/C06.v'], ['Proofs/DimseProofs.v'])
    rng = random.Random(seed)
    os.makedirs(common.BUILD, exist_ok=True)
    specs = gen_cases(tier, rng)
    obs = [observe(cls, n, pc, m, v, rng, sp) for (cls, n, pc, m, v, sp) in specs]
    # streams with short reads: where the reads fall is the stream's business, so the fragment boundaries are not
    # the model's (which reads full chunks); the property's oracle applies all the same (size bound, flags, content)
    from pynetdicom2 import dimsemessages as dm_
    short_specs = []
    for m in ((7, 8, 20, 64, 1024, 4102) if tier == 'quick' else (7, 8, 9, 20, 33, 64, 100, 1024, 4102, 16384)):
        for sp in range(1, 15 if tier == 'quick' else 60):      # the seed decides which reads are short and how short
            for mult in (2, 5):
                short_specs.append((dm_.CStoreRQMessage, mult * (m - 6) + sp % 4, 1 + 2 * (sp % 100), m, 'shortread', sp))
        for n in (1, 3 * (m - 6), 40 * (m - 6) + 5):             # compressible (pattern) data of 1, 3 and 40 fragments
            short_specs.append((dm_.CStoreRQMessage, n, 3, m, 'gzip', 7))
    short_obs = [observe(cls, n, pc, m, v, rng, sp) for (cls, n, pc, m, v, sp) in short_specs]
    terms = [render(c) for c in obs]
    run = common.CoqRun('C06')
    failing, broken, n_obl, n_ok = common.run_sharded(
        run, 'Cases', IMPORTS, 'case', terms,
        [('corr', 'check_corr'), ('spec', 'check_spec')], size=60)
    f2, b2, n2, k2 = common.run_sharded(run, 'Short', IMPORTS, 'case', [render(c) for c in short_obs],
                                        [('corr', 'check_corr', 'stat'), ('spec', 'check_spec')], size=60)
    off = len(obs)
    obs = obs + short_obs
    failing = dict(corr=failing['corr'], spec=failing['spec'] + [off + i for i in f2['spec']])
    broken += b2
    n_obl += n2
    n_ok += k2
    dec.obligations(n_obl, n_ok)
    cov = dec.coverage
    cov['evaluations'] = len(obs)
    nontriv = set((c['cls'], c['m'], c['data_len'], c['pc'], c['variant']) for c in obs if len(c['obs']) >= 2)
    cov['distinct_nontrivial'] = len(nontriv)
    cov['rule'] = ('exhaustive box m in 7..%d x |data| in 0..3(m-6)+2; all 23 classes x m in {7,64,1024}; '
                   'lengths within +-2 of k(m-6) for large m; 2^k-1,2^k,2^k+1 up to 2^32-1; pc ids 1..255; '
                   'bytes / BytesIO / real file, the streams also positioned after a header, and raw streams with short reads; non-trivial = at least two fragments' % (20 if tier == 'quick' else 40))
    cov['distribution'] = dict(
        variants=dict((v, sum(1 for c in obs if c['variant'] == v)) for v in ('bytes', 'bytesio', 'bytesio_off', 'file', 'file_off', 'shortread', 'gzip')),
        fragments_max=max(len(c['obs']) for c in obs), with_data=sum(1 for c in obs if c['data_len']),
        impl_errors=sum(1 for c in obs if c['err']))
    cov['samples'] = [dict(cls=c['cls'], m=c['m'], data_len=c['data_len'], pc=c['pc'], variant=c['variant'],
                           fragments=[(a, b, len(p)) for a, b, p in c['obs']][:8]) for c in obs[5:8]]

    def rec(i, kind):
        c = obs[i]
        return dict(kind=kind, cls=c['cls'], m=c['m'], data_len=c['data_len'], pc=c['pc'], variant=c['variant'],
                    seed_pat=c['seed_pat'], impl_error=c['err'],
                    observed=[(a, b, len(p)) for a, b, p in c['obs']][:50], cmd_len=len(c['cmd']))
    for i in failing['spec']:
        dec.report(rec(i, 'spec'))
    spec_set = set(failing['spec'])
    for i in failing['corr']:
        if i not in spec_set:
            dec.report(rec(i, 'corr-only'), no_input=True)
    for name, out in broken:
        dec.report(dict(kind='case-file-broken', file=name, detail=out), no_input=True)
    run.keep = bool(dec.violations)
    run.cleanup()
    return dec.finish()


def replay(rec):
    from pynetdicom2 import dimsemessages as dm
    rng = random.Random(0)
    cls = getattr(dm, rec['cls'])
    c = observe(cls, rec['data_len'], rec['pc'], rec['m'], rec['variant'], rng, rec['seed_pat'])
    print('impl error:', c['err'])
    print('fragments (ctx, ctl, len):', [(a, b, len(p)) for a, b, p in c['obs']][:60])
    print('sum command payload', sum(len(p) for a, b, p in c['obs'] if b in (1, 3)), 'cmd', len(c['cmd']))
    print('sum data payload', sum(len(p) for a, b, p in c['obs'] if b in (0, 2)), 'data', rec['data_len'])
    print('max pdu variable field', max([len(p) + 6 for a, b, p in c['obs']] or [0]), 'limit', rec['m'])
    return 0
