"""C15 — C-STORE delivers the data set intact end to end; stored files are never clobbered.
Static: Properties/C15.v (composition of C06, C01, C07, C17 + the file-name search).  Per run: real
stores over loopback TCP with real threads (seeded data sets with nested sequences and odd-length
values, three transfer syntaxes, asymmetric maximum PDU lengths incl. 0, memory / file source, file /
directory / in-memory reception, handler statuses incl. EventHandlingError, repeated stores of one
instance UID) and direct calls of the directory storage on prepared directories."""
import hashlib
import io
import os
import random
import shutil

import common
import loopback
from common import cbytes, cbool, clist

IMPORTS = 'From PND Require Import Lib.Text Model.Services Model.Storage Corr.CorrStore.\n'
CT = '1.2.840.10008.5.1.4.1.1.2'
TS = {'implicit': '1.2.840.10008.1.2', 'explicit_le': '1.2.840.10008.1.2.1', 'explicit_be': '1.2.840.10008.1.2.2'}


def make_dataset(rng, k, size):
    import pydicom
    from pydicom.dataset import Dataset
    from pydicom.sequence import Sequence
    ds = Dataset()
    ds.SOPClassUID = CT
    ds.SOPInstanceUID = '1.2.826.0.1.3680043.9.%d.%d' % (k, rng.randint(1, 10 ** 6))
    ds.PatientName = 'Name^%s' % ('x' * rng.randint(0, 7))          # odd / even lengths
    ds.PatientID = 'ID%d' % rng.randint(0, 99999)
    ds.StudyInstanceUID = '1.2.3.%d' % rng.randint(1, 999)
    ds.SeriesDescription = 'd' * rng.choice([0, 1, 2, 63])
    inner = Dataset()
    inner.CodeValue = 'C%d' % rng.randint(0, 9)
    inner.CodeMeaning = 'm' * rng.randint(1, 9)
    inner2 = Dataset()
    inner2.ReferencedSOPInstanceUID = '1.2.3.4.%d' % rng.randint(0, 99)
    inner.ReferencedSeriesSequence = Sequence([inner2])
    ds.ConceptNameCodeSequence = Sequence([inner, inner] if rng.random() < 0.5 else [inner])
    ds.Rows = rng.randint(0, 65535)
    if size:
        ds.add_new(0x00420011, 'OB', bytes(rng.randint(0, 255) for _ in range(size + size % 2)))   # EncapsulatedDocument
    return ds


def one_store(rng, k, ts_name, max_cli, max_srv, source, reception, handler, workdir, size=None):
    """One C-STORE over loopback with the library's default time-outs (15 s).  A run that ends in a time-out or
    an abort is repeated once on its own, so that a machine under load does not fail it; a transfer that is
    slow by construction (finding D19: 50 ms per outgoing fragment) fails both times."""
    state = rng.getstate()
    term, human = _one_store(rng, k, ts_name, max_cli, max_srv, source, reception, handler, workdir, size)
    if human['error'] and ('Timeout' in human['error'] or 'Aborted' in human['error']):
        rng.setstate(state)
        first = human['error']
        term, human = _one_store(rng, k, ts_name, max_cli, max_srv, source, reception, handler, workdir + '-retry', size)
        human['first_attempt'] = first
    return term, human


def write_part10(path, ds, ts, body, variant):
    """A DICOM file for the file source: preamble, DICM, file meta group (explicit VR little endian), data set.
    variant: 'standard'; 'no_instance' (no Media Storage SOP Instance UID in the meta group: storage_scu's fallback
    branch); 'short_length' / 'long_length' (the group length element does not agree with the group's real length:
    readers go by the tags, and so does the library)."""
    import struct
    import pydicom
    from pynetdicom2 import dsutils
    meta = pydicom.Dataset()
    meta.FileMetaInformationVersion = b'\x00\x01'
    meta.MediaStorageSOPClassUID = ds.SOPClassUID
    if variant != 'no_instance':
        meta.MediaStorageSOPInstanceUID = ds.SOPInstanceUID
    meta.TransferSyntaxUID = ts
    meta.ImplementationClassUID = '1.2.3.4'
    enc = dsutils.encode(meta, False, True)
    delta = {'short_length': -10, 'long_length': 14}.get(variant, 0)
    with open(path, 'wb') as f:
        f.write(b'\0' * 128 + b'DICM' + b'\x02\x00\x00\x00UL\x04\x00' + struct.pack('<I', len(enc) + delta) + enc + body)


def _one_store(rng, k, ts_name, max_cli, max_srv, source, reception, handler, workdir, size=None):
    from pynetdicom2 import applicationentity as aemod, sopclass, statuses, exceptions, dsutils, dimsemessages as dm
    import pynetdicom2
    import pydicom
    from pydicom import uid as pyuid
    ts = pyuid.UID(TS[ts_name])
    ds = make_dataset(rng, k, size if size is not None else rng.choice([0, 50, 3000, 70000 if rng.random() < 0.2 else 500]))
    ds.is_implicit_VR = ts.is_implicit_VR
    ds.is_little_endian = ts.is_little_endian
    expected = dsutils.encode(ds, ts.is_implicit_VR, ts.is_little_endian)
    file_variant = rng.choice(['standard', 'standard', 'no_instance', 'short_length', 'long_length']) if source == 'file' \
        else None
    seen = {}

    closes = rng.random() < 0.3
    also_scu = rng.random() < 0.3

    def on_store(self, context, fobj):
        if closes and hasattr(fobj, 'read'):
            with fobj:                                   # the application closes the file it was handed
                data = fobj.read()
        else:
            data = fobj.read() if hasattr(fobj, 'read') else fobj
        seen['data'] = data
        seen['in_file'] = hasattr(fobj, 'read')
        seen['cls'] = str(context.sop_class)
        seen['name'] = getattr(fobj, 'name', None)
        if handler is None:
            raise exceptions.EventHandlingError('lab')
        return statuses.Status(handler, dm.CStoreRSPMessage)

    def mem_scp(asce, ctx, msg):
        try:
            status = asce.ae.on_receive_store(ctx, msg.data_set)
        except exceptions.EventHandlingError:
            status = statuses.C_STORE_CANNON_UNDERSTAND
        rsp = dm.CStoreRSPMessage()
        rsp.message_id_being_responded_to = msg.message_id
        rsp.affected_sop_instance_uid = msg.affected_sop_instance_uid
        rsp.sop_class_uid = msg.sop_class_uid
        rsp.status = int(status)
        asce.send(rsp, ctx.id)
    mem_scp.sop_classes = [CT]
    if reception == 'directory':
        d = os.path.join(workdir, 'store%d' % k)
        os.makedirs(d, exist_ok=True)
        base = pynetdicom2.StorageAE
        srv = type('Srv', (base,), dict(on_receive_store=on_store))(d, 'SERVER', 0, supported_ts=[ts], max_pdu_length=max_srv)
    else:
        srv = type('Srv', (aemod.AE,), dict(on_receive_store=on_store))('SERVER', 0, supported_ts=[ts], max_pdu_length=max_srv)
    srv.handle_error = lambda *a: None
    srv.add_scp(mem_scp if reception == 'memory' else sopclass.storage_scp)
    if also_scu and reception != 'memory':
        srv.add_scu(sopclass.storage_scu, [CT])          # a store-and-forward node: SCP first, then SCU for the same class
    result = None
    err = None
    with loopback.serving(srv) as port:
        cli = aemod.ClientAE('CLIENT', supported_ts=[ts], max_pdu_length=max_cli).add_scu(sopclass.storage_scu, [CT])
        try:
            with cli.request_association(loopback.remote(port)) as assoc:
                svc = assoc.get_scu(CT)
                if source == 'file':
                    path = os.path.join(workdir, 'src%d.dcm' % k)
                    write_part10(path, ds, ts, expected, file_variant)
                    result = svc(path, k + 1)
                else:
                    result = svc(ds, k + 1)
        except Exception as e:  # noqa
            err = repr(e)
    received = seen.get('data', b'')
    in_file = bool(seen.get('in_file'))
    parses = True
    seen_inst = ''
    if in_file:
        try:
            back = pydicom.dcmread(io.BytesIO(received))
            seen_inst = str(back.file_meta.MediaStorageSOPInstanceUID)
            parses = (dsutils.encode(back, ts.is_implicit_VR, ts.is_little_endian) == expected and
                      str(back.file_meta.TransferSyntaxUID) == str(ts))
        except Exception:
            parses = False
    else:
        try:
            back = dsutils.decode(received, ts.is_implicit_VR, ts.is_little_endian)
            seen_inst = str(back.SOPInstanceUID)
        except Exception:
            seen_inst = ''
    st_back = int(result) if result is not None else 0xFFFF
    term = '(StoreRun %s %s %s %s %s %s %s %s %d %s)' % (
        cbytes(expected), cbytes(received), cbool(in_file), cbytes(CT.encode()), cbytes(str(ds.SOPInstanceUID).encode()),
        cbytes(seen.get('cls', '').encode()), cbytes(seen_inst.encode()),
        'HError' if handler is None else '(HStatus %d)' % handler, st_back, cbool(parses))
    human = dict(k=k, ts=ts_name, max_client=max_cli, max_server=max_srv, source=source, file_variant=file_variant,
                 handler_closes_file=closes, server_also_scu=also_scu,
                 reception=reception,
                 handler=('EventHandlingError' if handler is None else hex(handler)), status_back=hex(st_back), error=err,
                 sent_len=len(expected), received_len=len(received), in_file=in_file, file_readable_and_equal=parses)
    return term, human


def dir_cases(rng, workdir, tier):
    """_get_storage_file on prepared directories: repeated stores of one instance UID."""
    import pynetdicom2
    from pynetdicom2 import asceprovider
    from pydicom import uid as pyuid
    from pydicom.dataset import Dataset
    out = []
    for k in range(6 if tier == 'quick' else 40):
        d = os.path.join(workdir, 'dir%d' % k)
        os.makedirs(d)
        uid = '1.2.3.%d' % k
        ctx = asceprovider.PContextDef(1, pyuid.UID(CT), pyuid.UID(TS['implicit']))
        cs = Dataset()
        cs.AffectedSOPClassUID = CT
        cs.AffectedSOPInstanceUID = uid
        for rep in range(rng.choice([2, 3, 5, 6])):
            # the application clears out one of the earlier copies now and then: the names then have a gap
            mine = sorted(n for n in os.listdir(d) if n.startswith(uid + '.dcm'))
            if rep >= 2 and len(mine) >= 2 and rng.random() < 0.5:
                os.remove(os.path.join(d, rng.choice(mine[:-1])))
            # some unrelated files too
            if rep == 0 and rng.random() < 0.5:
                open(os.path.join(d, 'other.dcm'), 'wb').write(b'zz')
            existing = sorted(os.listdir(d))
            before = dict((n, hashlib.sha1(open(os.path.join(d, n), 'rb').read()).hexdigest()) for n in existing)
            err = None
            chosen = ''
            ok = False
            try:
                fp, start = pynetdicom2._get_storage_file(ctx, cs, d)
                fp.write(b'DATA%d' % rep)
                fp.close()
                chosen = os.path.basename(fp.name)
                body = open(os.path.join(d, chosen), 'rb').read()
                ok = body.endswith(b'DATA%d' % rep) and body[128:132] == b'DICM'
            except Exception as e:  # noqa
                err = repr(e)
            after = dict((n, hashlib.sha1(open(os.path.join(d, n), 'rb').read()).hexdigest()) for n in existing
                         if os.path.exists(os.path.join(d, n)))
            intact = all(after.get(n) == h for n, h in before.items())
            term = '(DirStore %s %s %s %s %s)' % (clist([cbytes(n.encode()) for n in existing]), cbytes(uid.encode()),
                                                 cbytes(chosen.encode()), cbool(intact), cbool(ok))
            out.append((term, dict(directory=existing, uid=uid, repetition=rep, chosen=chosen, others_intact=intact,
                                   new_file_ok=ok, error=err)))
    return out


def main(tier, seed):
    dec = common.Decision('C15', tier, seed)
    common.static_gate(dec, ['Properties/C15.v'], ['Proofs/StoreProofs.v', 'Proofs/StorageProofs.v', 'Proofs/DecoderProofs2.v',
                                                   'Proofs/DimseProofs.v', 'Proofs/ServicesProofs.v'])
    rng = random.Random(seed)
    workdir = os.path.join(common.BUILD, 'c15-%d' % os.getpid())
    shutil.rmtree(workdir, ignore_errors=True)
    os.makedirs(workdir)
    os.makedirs(workdir + '-retry')
    obs = []
    try:
        maxes = [0, 128, 1024, 16384, 65536]
        handlers = [0, 0xB000, 0xA700, None]
        plans = []
        k = 0
        for ts_name in TS:
            for source in ('memory', 'file'):
                for reception in ('tempfile', 'directory', 'memory'):
                    plans.append((ts_name, rng.choice(maxes), rng.choice(maxes), source, reception, handlers[k % 4]))
                    k += 1
        if tier != 'quick':
            for _ in range(150):
                plans.append((rng.choice(list(TS)), rng.choice(maxes), rng.choice(maxes), rng.choice(['memory', 'file']),
                              rng.choice(['tempfile', 'directory', 'memory']), rng.choice(handlers)))
        for k, (ts_name, a, b, source, reception, handler) in enumerate(plans):
            obs.append(one_store(rng, k, ts_name, a, b, source, reception, handler, workdir))
        # many fragments: 70 KB through 128-byte PDUs in either direction of the limit (about 575 fragments)
        many = [('implicit', 128, 65536, 'memory', 'memory'), ('explicit_le', 65536, 128, 'file', 'directory'),
                ('explicit_be', 128, 128, 'file', 'tempfile')]
        for j, (ts_name, a, b, source, reception) in enumerate(many if tier != 'quick' else many[:2]):
            obs.append(one_store(rng, len(plans) + j, ts_name, a, b, source, reception, 0, workdir, size=70000))
        obs += dir_cases(rng, workdir, tier)
    finally:
        shutil.rmtree(workdir, ignore_errors=True)
        shutil.rmtree(workdir + '-retry', ignore_errors=True)
    run = common.CoqRun('C15')
    failing, broken, n_obl, n_ok = common.run_sharded(run, 'Store', IMPORTS, 'c15case', [t for t, _h in obs],
                                                      [('corr', 'c15_corr'), ('spec', 'c15_spec')], size=8)
    dec.obligations(n_obl, n_ok)
    cov = dec.coverage
    cov['evaluations'] = len(obs)
    cov['distinct_nontrivial'] = len(set(repr(sorted(h.items())) for _t, h in obs))
    cov['rule'] = ('real loopback TCP, real threads: 3 transfer syntaxes x memory / file source x temp-file / directory / '
                   'in-memory reception x maximum PDU lengths from {0,128,1024,16384,65536}^2 x handler outcomes (success, '
                   'warning, failure, EventHandlingError) with seeded data sets (nested sequences, odd-length values, up to '
                   '70 KB), and 70 KB through 128-byte PDUs (about 575 fragments) at the default time-outs; directory storage called 2..5 times for the same instance UID on prepared directories')
    import collections
    cov['distribution'] = dict(loopback_runs=sum(1 for _t, h in obs if 'ts' in h), directory_calls=sum(1 for _t, h in obs if 'uid' in h),
                               by_reception=dict(collections.Counter(h['reception'] for _t, h in obs if 'ts' in h)),
                               errors=sum(1 for _t, h in obs if h.get('error')))
    cov['samples'] = [obs[0][1], obs[-1][1]]
    spec_set = set(failing['spec'])
    for i in failing['spec']:
        dec.report(dict(obs[i][1], kind='store-not-intact-or-clobbered'))
    for i in failing['corr']:
        if i not in spec_set:
            dec.report(dict(obs[i][1], kind='model-differs', theorem='correspondence c15_corr'), no_input=True)
    for name, out in broken:
        dec.report(dict(kind='case-file-broken', file=name, detail=out), no_input=True)
    run.keep = bool(dec.violations)
    run.cleanup()
    return dec.finish()


def replay(rec):
    for k, v in rec.items():
        print(k, ':', v)
    return 0
