import services_checks


def main(tier, seed):
    return services_checks.main_c16(tier, seed)


replay = services_checks.replay
