"""C08 — transmitted command sets are well-formed.
Static: Properties/C08.v (every send of every op sequence on every message type).  Per run: real
message objects are assigned fields / data sets and sent 1..n times through Association.send (stub
provider); the fragment generators are consumed AFTER all later mutations, as the provider thread
would; obligations: Model.CmdMsg.run_msg = transmitted bytes (cmd_corr) and the independent strict
reader's verdict on the transmitted bytes (cmd_spec)."""
import io
import random

import common
import impl
from common import cbytes, cbool, clist

IMPORTS = 'From PND Require Import Lib.Text Model.CmdSet Model.CmdMsg Spec.Ps37Command Corr.CorrCmd.\n'

KIND = {
    'CStoreRQMessage': 'C_STORE_RQ', 'CStoreRSPMessage': 'C_STORE_RSP', 'CGetRQMessage': 'C_GET_RQ',
    'CGetRSPMessage': 'C_GET_RSP', 'CFindRQMessage': 'C_FIND_RQ', 'CFindRSPMessage': 'C_FIND_RSP',
    'CMoveRQMessage': 'C_MOVE_RQ', 'CMoveRSPMessage': 'C_MOVE_RSP', 'CEchoRQMessage': 'C_ECHO_RQ',
    'CEchoRSPMessage': 'C_ECHO_RSP', 'NEventReportRQMessage': 'N_EVENT_REPORT_RQ',
    'NEventReportRSPMessage': 'N_EVENT_REPORT_RSP', 'NGetRQMessage': 'N_GET_RQ', 'NGetRSPMessage': 'N_GET_RSP',
    'NSetRQMessage': 'N_SET_RQ', 'NSetRSPMessage': 'N_SET_RSP', 'NActionRQMessage': 'N_ACTION_RQ',
    'NActionRSPMessage': 'N_ACTION_RSP', 'NCreateRQMessage': 'N_CREATE_RQ', 'NCreateRSPMessage': 'N_CREATE_RSP',
    'NDeleteRQMessage': 'N_DELETE_RQ', 'NDeleteRSPMessage': 'N_DELETE_RSP', 'CCancelRQMessage': 'C_CANCEL_RQ',
}


EXTRA_ELEMENTS = [('ErrorComment', 0x0902, 'AE'), ('OffendingElement', 0x0901, 'AT'), ('ErrorID', 0x0903, 'US'),
                  ('AffectedSOPClassUID', 0x0002, 'UI'), ('AffectedSOPInstanceUID', 0x1000, 'UI')]   # LO pads like AE: with a space


def field_info(cls):
    from pydicom.datadict import dictionary_VR, tag_for_keyword
    out = []
    for kw in cls.command_fields:
        tag = tag_for_keyword(kw)
        out.append((kw, tag & 0xFFFF, dictionary_VR(tag)))
    return out


def gen_value(vr, rng, uid_len=None):
    if vr == 'UI':
        s = impl.rand_uid(rng, uid_len)
        return s, '(VUI %s)' % cbytes(s.encode())
    if vr == 'US':
        n = rng.choice([0, 1, 255, 256, 65535, rng.randint(0, 65535)])
        return n, '(VUS %d)' % n
    if vr == 'AE':
        s = ''.join(rng.choice('ABCDEFGHIJ_0123') for _ in range(rng.randint(1, 16)))
        if rng.random() < 0.3:
            s = s.ljust(16)                      # padded with spaces to the full 16 bytes, as many toolkits send it
        return s, '(VAE %s)' % cbytes(s.encode())
    if vr == 'AT':
        tags = [(0x0010, 0x0010), (0x0010, 0x0020), (0x0008, 0x0018)][:rng.randint(1, 3)]
        return [g << 16 | e for g, e in tags], '(VAT %s)' % clist(['(%d, %d)' % t for t in tags])
    raise ValueError(vr)


def scenario(cls, rng, n_ops, uid_len=None, forced=None):
    """Apply a random op sequence to a real message; return the Coq case."""
    info = [f for f in field_info(cls) if f[1] not in (0, 0x0100, 0x0800)]
    msg = cls()
    assoc = impl.stub_assoc(rng.choice([30, 64, 16384]))
    ops_terms = []
    human = []
    sent_gens = []
    ops = []
    relayed = False
    for step in range(n_ops):
        r = rng.random()
        kind_forced = forced[step] if forced else None
        if kind_forced in ('at', 'inplace'):
            # a multi-valued element (Attribute Identifier List of N-GET, Offending Element) is assigned, and then - between
            # two sends of the same object, with NOTHING else changed - changed in place (append / pop on the live value)
            ats = [f for f in info if f[2] == 'AT'] or [x for x in EXTRA_ELEMENTS if x[2] == 'AT']
            kw, e, vr = ats[0]
            pool = [(0x0010, 0x0010), (0x0010, 0x0020), (0x0008, 0x0018), (0x0020, 0x000d), (0x0008, 0x0050)]
            cur = getattr(msg.command_set, kw, None)
            if kind_forced == 'at' or not hasattr(cur, 'append'):
                tags = pool[:rng.randint(2, 3)]
                setattr(msg.command_set, kw, [g << 16 | el for g, el in tags])
            else:
                if len(cur) >= 3 and rng.random() < 0.5:
                    cur.pop()
                    if rng.random() < 0.5:
                        cur.pop()
                else:
                    g, el = pool[len(cur) % len(pool)]
                    cur.append(g << 16 | el)
                tags = [(int(v) >> 16, int(v) & 0xFFFF) for v in cur]
            ops_terms.append('(SetField %d (VAT %s))' % (e, clist(['(%d, %d)' % t for t in tags])))
            human.append('%s %s=%r' % ('set' if kind_forced == 'at' else 'changed in place:', kw, tags))
            continue
        if kind_forced == 'send':
            r = 0.99
        if r < 0.5 and info:
            kw, e, vr = rng.choice(info)
            if rng.random() < 0.15:
                # a PS3.7 element the message class has no field for, set through command_set (Error Comment,
                # Offending Element, Error ID, ...): the model's `put` inserts it at its place
                kw, e, vr = rng.choice([x for x in EXTRA_ELEMENTS if x[0] not in cls.command_fields])
            val, term = gen_value(vr, rng, uid_len)
            cur = getattr(msg.command_set, kw, None) if vr == 'AT' else None
            if vr == 'AT' and hasattr(cur, 'append') and len(cur) >= 1 and rng.random() < 0.6:
                # the multi-valued element is changed IN PLACE (list methods on the live value), not re-assigned
                del cur[:]
                for v in val:
                    cur.append(v)
            else:
                setattr(msg.command_set, kw, val)
            ops_terms.append('(SetField %d %s)' % (e, term))
            human.append('set %s=%r' % (kw, val))
        elif r < 0.75:
            kind = rng.choice(['bytes', 'none', 'empty', 'file', 'emptyfile', 'file-at-end'])
            if kind == 'bytes':
                msg.data_set = bytes(rng.randint(0, 255) for _ in range(rng.choice([1, 7, 100])))
            elif kind == 'none':
                msg.data_set = None
            elif kind == 'empty':
                msg.data_set = b''
            elif kind == 'emptyfile':
                msg.data_set = io.BytesIO(b'')            # nothing to read: must be sent as "no data set"
            elif kind == 'file-at-end':
                msg.data_set = io.BytesIO(b'header only')
                msg.data_set.seek(0, 2)
            else:
                msg.data_set = io.BytesIO(b'x' * rng.choice([1, 50]))
            ops_terms.append('(SetData %s)' % cbool(kind in ('bytes', 'file')))
            human.append('data_set=%s' % kind)
        else:
            if rng.random() < 0.2 and not relayed and (msg.data_set is None or isinstance(msg.data_set, (bytes, bytearray))):
                # (once per scenario: reading the fields of a received object - as the loop below does - makes pydicom
                # normalise the raw values, which the model does not follow)
                relayed = True
                # relay: the message travels, is received (command set decoded from its bytes, values as the peer
                # wrote them) and the RECEIVED object is what gets sent on
                from pynetdicom2 import dsutils
                # (every field gets a value first: a received command set with zero-length elements cannot be sent on
                # at all - set_length raises TypeError on pydicom's raw None values - observation O11)
                for kw2, e2, vr2 in info:
                    cur2 = getattr(msg.command_set, kw2, None)
                    if cur2 in ('', None) or (hasattr(cur2, '__len__') and len(cur2) == 0):
                        val2, term2 = gen_value(vr2, rng, uid_len)
                        setattr(msg.command_set, kw2, val2)
                        ops_terms.append('(SetField %d %s)' % (e2, term2))
                        human.append('set %s=%r' % (kw2, val2))
                keep = msg.data_set
                msg = cls(dsutils.decode(dsutils.encode(msg.command_set, True, True), True, True))
                if keep:
                    msg.data_set = keep
                human.append('relayed (re-created from its encoded command set)')
            assoc.send(msg, 1)
            sent_gens.append(assoc.dul.sent[-1])
            ops_terms.append('Send')
            human.append('send')
            if msg.data_set is not None and not isinstance(msg.data_set, (bytes, bytearray)):
                # a file-like data set is consumed (and closed) by the transmission: detach it
                msg.data_set = None
                ops_terms.append('(SetData false)')
                human.append('data_set=none (file consumed)')
    if not sent_gens:
        assoc.send(msg, 1)
        sent_gens.append(assoc.dul.sent[-1])
        ops_terms.append('Send')
        human.append('send')
    sends = []
    err = None
    for g in sent_gens:          # the provider thread transmits later
        try:
            cmd = b''
            has_data = False
            for p in g:
                for it in p.data_value_items:
                    if it.data_value[0] in (1, 3):
                        cmd += it.data_value[1:]
                    else:
                        has_data = True
            sends.append((cmd, has_data))
        except Exception as e:  # noqa
            err = type(e).__name__
            sends.append((b'', False))
    term = '(mkcc %s %s %s %s)' % (KIND[cls.__name__], clist([str(f[1]) for f in field_info(cls)]), clist(ops_terms),
                                   clist(['(%s, %s)' % (cbytes(c), cbool(h)) for c, h in sends]))
    return term, dict(cls=cls.__name__, ops=human, sends=[(c.hex(), h) for c, h in sends], error=err)


def main(tier, seed):
    dec = common.Decision('C08', tier, seed)
    common.static_gate(dec, ['Properties/C08.v'], ['Proofs/CmdMsgProofs.v'])
    rng = random.Random(seed)
    classes = impl.message_classes()
    cases = []
    for cls in classes:
        # UIDs of every length 1..64 (odd / even padding), plain single send
        for n in range(1, 65):
            if tier == 'quick' and n % 3 and n not in (1, 2, 63, 64):
                continue
            cases.append(scenario(cls, rng, 6, uid_len=n))
        for _ in range(10 if tier == 'quick' else 80):
            cases.append(scenario(cls, rng, rng.randint(3, 14)))
        cases.append(scenario(cls, rng, 0))
        for _ in range(2 if tier == 'quick' else 6):
            cases.append(scenario(cls, rng, 8, forced=['at', 'send', 'inplace', 'send', 'inplace', 'send', 'inplace', 'send']))
    terms = [t for t, _h in cases]
    run = common.CoqRun('C08')
    failing, broken, n_obl, n_ok = common.run_sharded(run, 'Cmd', IMPORTS, 'ccase', terms,
                                                      [('corr', 'cmd_corr'), ('spec', 'cmd_spec')], size=60)
    dec.obligations(n_obl, n_ok)
    cov = dec.coverage
    cov['evaluations'] = len(cases)
    cov['distinct_nontrivial'] = len(set((h['cls'], tuple(h['ops'])) for _t, h in cases if len(h['sends']) >= 2))
    cov['rule'] = ('all 23 message classes x UIDs of length 1..64 x random sequences of field assignments (values at the '
                   '16-bit boundaries), data-set assignments (bytes / file / None / empty) and sends, the generators '
                   'consumed after all later mutations; non-trivial = the same object sent at least twice')
    import collections
    cov['distribution'] = dict(sends_per_case=dict(collections.Counter(str(len(h['sends'])) for _t, h in cases)),
                               with_data=sum(1 for _t, h in cases for _c, d in h['sends'] if d),
                               errors=sum(1 for _t, h in cases if h['error']))
    cov['samples'] = [h for _t, h in cases[7:9]]
    spec_set = set(failing['spec'])
    for i in failing['spec']:
        dec.report(dict(cases[i][1], kind='malformed-command-set'))
    for i in failing['corr']:
        if i not in spec_set:
            dec.report(dict(cases[i][1], kind='model-differs', theorem='correspondence cmd_corr'), no_input=True)
    for name, out in broken:
        dec.report(dict(kind='case-file-broken', file=name, detail=out), no_input=True)
    # the same from several association threads at once: the command set a thread transmits is a function of ITS message
    import race
    dec.concurrent_use([race.message_ops, race.dataset_ops])
    run.keep = bool(dec.violations)
    run.cleanup()
    return dec.finish()


def replay(rec):
    print(rec.get('cls'), rec.get('ops'))
    for c, h in rec.get('sends', []):
        print('sent command set', c, 'data fragments follow:', h)
    return 0
