"""Python mirror of Model/Pdu.v values: tuples tagged by constructor name.
   conversions to / from the real pynetdicom2 objects, the Coq printer and the generators."""
import struct

from common import cbytes, clist

# ---------------------------------------------------------------- values
# sub-items: ('MaxLen', r, l, m) ('ImplClass', r, uid) ('AsyncOps', r, l, a, b) ('RoleSel', r, uid, a, b)
#            ('ImplVersion', r, name) ('ExtNeg', r, uid, info) ('UserId', r, t, q, p, s) ('UserIdAc', r, s)
#            ('Generic', t, r, data)
# syntax:    (reserved, name)
# items:     ('AppCtx', r, name) ('PcRq', id, r1, r2, r3, r4, abs, [ts]) ('PcAc', id, r1, r2, res, r3, ts)
#            ('UserInfo', r, [subs])
# pdus:      ('Assoc', 'KRq'|'KAc', r1, ver, r2, called, calling, [r3 x8], [items]) ('AssocRj', r1, r2, res, src, rsn)
#            ('PData', r, [(ctx, data)]) ('RelRq', r1, r2) ('RelRp', r1, r2) ('Abort', r1, r2, r3, src, rsn)
# all text fields are bytes (UTF-8)


def s_(b):
    return b.decode('utf-8')


def to_impl_sub(x):
    from pynetdicom2 import userdataitems as ud
    from pydicom import uid
    k = x[0]
    if k == 'MaxLen':
        return ud.MaximumLengthSubItem(x[3], x[1], x[2])
    if k == 'ImplClass':
        return ud.ImplementationClassUIDSubItem(uid.UID(s_(x[2])), x[1])
    if k == 'AsyncOps':
        return ud.AsynchronousOperationsWindowSubItem(x[3], x[4], x[1], x[2])
    if k == 'RoleSel':
        return ud.ScpScuRoleSelectionSubItem(uid.UID(s_(x[2])), x[3], x[4], x[1])
    if k == 'ImplVersion':
        return ud.ImplementationVersionNameSubItem(s_(x[2]), x[1])
    if k == 'ExtNeg':
        return ud.SOPClassExtendedNegotiationSubItem(uid.UID(s_(x[2])), bytes(x[3]), x[1])
    if k == 'UserId':
        return ud.UserIdentityNegotiationSubItem(s_(x[4]), s_(x[5]), x[2], x[3], x[1])
    if k == 'UserIdAc':
        return ud.UserIdentityNegotiationSubItemAc(s_(x[2]), x[1])
    if k == 'Generic':
        return ud.GenericUserDataSubItem(x[1], bytes(x[3]), x[2])
    raise ValueError(k)


def to_impl_item(x):
    from pynetdicom2 import pdu
    from pydicom import uid
    k = x[0]
    if k == 'AppCtx':
        return pdu.ApplicationContextItem(s_(x[2]), x[1])
    if k == 'PcRq':
        a = pdu.AbstractSyntaxSubItem(uid.UID(s_(x[6][1])), x[6][0])
        ts = [pdu.TransferSyntaxSubItem(s_(n), r) for r, n in x[7]]
        return pdu.PresentationContextItemRQ(x[1], a, ts, x[2], x[3], x[4], x[5])
    if k == 'PcAc':
        ts = pdu.TransferSyntaxSubItem(s_(x[6][1]), x[6][0])
        return pdu.PresentationContextItemAC(x[1], x[4], ts, x[2], x[3], x[5])
    if k == 'UserInfo':
        return pdu.UserInformationItem([to_impl_sub(s) for s in x[2]], x[1])
    raise ValueError(k)


BUILD_BY_APPENDING = [False]      # set by the generators for some cases: containers are filled after construction


def to_impl(p):
    from pynetdicom2 import pdu
    k = p[0]
    if BUILD_BY_APPENDING[0]:
        if k == 'PData':
            obj = pdu.PDataTfPDU([], p[1])
            for c, d in p[2]:
                obj.data_value_items.append(pdu.PresentationDataValueItem(c, bytes(d)))
            return obj
        if k == 'Assoc':
            cls = pdu.AAssociateRqPDU if p[1] == 'KRq' else pdu.AAssociateAcPDU
            obj = cls(s_(p[5]), s_(p[6]), [], p[3], p[2], p[4], tuple(p[7]))
            for i in p[8]:
                it = to_impl_item(i)
                if i[0] == 'UserInfo':
                    subs = list(it.user_data)
                    it = pdu.UserInformationItem([], i[1])
                    for sub in subs:
                        it.user_data.append(sub)
                obj.variable_items.append(it)
            return obj
    if k == 'Assoc':
        cls = pdu.AAssociateRqPDU if p[1] == 'KRq' else pdu.AAssociateAcPDU
        return cls(s_(p[5]), s_(p[6]), [to_impl_item(i) for i in p[8]], p[3], p[2], p[4], tuple(p[7]))
    if k == 'AssocRj':
        return pdu.AAssociateRjPDU(p[3], p[4], p[5], p[1], p[2])
    if k == 'PData':
        return pdu.PDataTfPDU([pdu.PresentationDataValueItem(c, bytes(d)) for c, d in p[2]], p[1])
    if k == 'RelRq':
        return pdu.AReleaseRqPDU(p[1], p[2])
    if k == 'RelRp':
        return pdu.AReleaseRpPDU(p[1], p[2])
    if k == 'Abort':
        return pdu.AAbortPDU(p[4], p[5], p[1], p[2], p[3])
    raise ValueError(k)


def b_(s):
    if isinstance(s, bytes):
        return s
    return str(s).encode('utf-8')


def from_impl_sub(o):
    n = type(o).__name__
    if n == 'MaximumLengthSubItem':
        return ('MaxLen', o.reserved, o.item_length, o.maximum_length_received)
    if n == 'ImplementationClassUIDSubItem':
        return ('ImplClass', o.reserved, b_(o.implementation_class_uid))
    if n == 'AsynchronousOperationsWindowSubItem':
        return ('AsyncOps', o.reserved, o.item_length, o.max_num_ops_invoked, o.max_num_ops_performed)
    if n == 'ScpScuRoleSelectionSubItem':
        return ('RoleSel', o.reserved, b_(o.sop_class_uid), o.scu_role, o.scp_role)
    if n == 'ImplementationVersionNameSubItem':
        return ('ImplVersion', o.reserved, b_(o.implementation_version_name))
    if n == 'SOPClassExtendedNegotiationSubItem':
        return ('ExtNeg', o.reserved, b_(o.sop_class_uid), bytes(o.app_info))
    if n == 'UserIdentityNegotiationSubItem':
        return ('UserId', o.reserved, o.user_identity_type, o.positive_response_req,
                b_(o.primary_field), b_(o.secondary_field))
    if n == 'UserIdentityNegotiationSubItemAc':
        return ('UserIdAc', o.reserved, b_(o.server_response))
    if n == 'GenericUserDataSubItem':
        return ('Generic', o.item_type, o.reserved, bytes(o.user_data))
    raise ValueError(n)


def from_impl_item(o):
    n = type(o).__name__
    if n == 'ApplicationContextItem':
        return ('AppCtx', o.reserved, b_(o.context_name))
    if n == 'PresentationContextItemRQ':
        return ('PcRq', o.context_id, o.reserved1, o.reserved2, o.reserved3, o.reserved4,
                (o.abs_sub_item.reserved, b_(o.abs_sub_item.name)),
                [(t.reserved, b_(t.name)) for t in o.ts_sub_items])
    if n == 'PresentationContextItemAC':
        return ('PcAc', o.context_id, o.reserved1, o.reserved2, o.result_reason, o.reserved3,
                (o.ts_sub_item.reserved, b_(o.ts_sub_item.name)))
    if n == 'UserInformationItem':
        return ('UserInfo', o.reserved, [from_impl_sub(s) for s in o.user_data])
    raise ValueError(n)


def from_impl(o):
    n = type(o).__name__
    if n in ('AAssociateRqPDU', 'AAssociateAcPDU'):
        return ('Assoc', 'KRq' if n == 'AAssociateRqPDU' else 'KAc', o.reserved1, o.protocol_version,
                o.reserved2, b_(o.called_ae_title), b_(o.calling_ae_title), list(o.reserved3),
                [from_impl_item(i) for i in o.variable_items])
    if n == 'AAssociateRjPDU':
        return ('AssocRj', o.reserved1, o.reserved2, o.result, o.source, o.reason_diag)
    if n == 'PDataTfPDU':
        return ('PData', o.reserved, [(v.context_id, bytes(v.data_value)) for v in o.data_value_items])
    if n == 'AReleaseRqPDU':
        return ('RelRq', o.reserved1, o.reserved2)
    if n == 'AReleaseRpPDU':
        return ('RelRp', o.reserved1, o.reserved2)
    if n == 'AAbortPDU':
        return ('Abort', o.reserved1, o.reserved2, o.reserved3, o.source, o.reason_diag)
    raise ValueError(n)


PDU_CLASS_BY_TYPE = {1: 'AAssociateRqPDU', 2: 'AAssociateAcPDU', 3: 'AAssociateRjPDU', 4: 'PDataTfPDU',
                     5: 'AReleaseRqPDU', 6: 'AReleasePpPDU', 7: 'AAbortPDU'}


def type_of(p):
    return {'Assoc': 1 if p[1] == 'KRq' else 2, 'AssocRj': 3, 'PData': 4, 'RelRq': 5, 'RelRp': 6,
            'Abort': 7}[p[0]] if p[0] != 'Assoc' else (1 if p[1] == 'KRq' else 2)


# ---------------------------------------------------------------- Coq printer
def c_sub(x):
    k = x[0]
    args = []
    for a in x[1:]:
        args.append(cbytes(a) if isinstance(a, (bytes, bytearray)) else str(a))
    return '(%s %s)' % (k, ' '.join(args))


def c_syntax(t):
    return '{| sy_reserved := %d; sy_name := %s |}' % (t[0], cbytes(t[1]))


def c_item(x):
    k = x[0]
    if k == 'AppCtx':
        return '(AppCtx %d %s)' % (x[1], cbytes(x[2]))
    if k == 'PcRq':
        return '(PcRq %d %d %d %d %d %s %s)' % (x[1], x[2], x[3], x[4], x[5], c_syntax(x[6]),
                                                clist([c_syntax(t) for t in x[7]]))
    if k == 'PcAc':
        return '(PcAc %d %d %d %d %d %s)' % (x[1], x[2], x[3], x[4], x[5], c_syntax(x[6]))
    if k == 'UserInfo':
        return '(UserInfo %d %s)' % (x[1], clist([c_sub(s) for s in x[2]]))
    raise ValueError(k)


def c_pdv(v):
    c, d = v
    if isinstance(d, tuple):          # ('pat', ctl-prefix bytes, seed, len): generated inside Coq
        return '{| pdv_ctx := %d; pdv_data := %s ++ pat %d %d |}' % (c, cbytes(d[1]), d[2], d[3])
    return '{| pdv_ctx := %d; pdv_data := %s |}' % (c, cb(d))


def c_pdu(p):
    k = p[0]
    if k == 'Assoc':
        return '(Assoc %s %d %d %d %s %s %s %s)' % (p[1], p[2], p[3], p[4], cbytes(p[5]), cbytes(p[6]),
                                                   clist([str(v) for v in p[7]]),
                                                   clist([c_item(i) for i in p[8]]))
    if k == 'PData':
        return '(PData %d %s)' % (p[1], clist([c_pdv(v) for v in p[2]]))
    return '(%s %s)' % (k, ' '.join(str(a) for a in p[1:]))


EXN = {'error': 'StructError', 'UnicodeDecodeError': 'UnicodeError', 'UnicodeEncodeError': 'UnicodeError',
       'KeyError': 'KeyError', 'IndexError': 'IndexError', 'AttributeError': 'AttributeError',
       'ValueError': 'ValueError', 'TypeError': 'TypeError', 'PDUProcessingError': 'PduError',
       'DIMSEProcessingError': 'DimseError', 'OSError': 'OsError'}


def c_exn(e):
    return EXN.get(type(e).__name__, 'OtherError')


def c_result_pdu(r):
    """r = ('ok', model value) | ('err', exception)"""
    if r[0] == 'ok':
        return '(Ok %s)' % c_pdu(r[1])
    return '(Err %s)' % c_exn(r[1])


# the payloads generated inside Coq (`pat seed len`) of the case being printed: where the observed bytes contain one of
# them, the term says `pat seed len` instead of spelling the bytes out (the term denotes the same byte string: a
# megabyte literal costs minutes to parse, and every observed byte outside the payloads is still spelled out)
PATS = []


def cb(b):
    b = bytes(b)
    for seed, n, pb in PATS:
        if n >= 2048:
            i = b.find(pb)
            if i >= 0:
                return '(%s ++ pat %d %d ++ %s)' % (cb(b[:i]), seed, n, cb(b[i + n:]))
    return cbytes(b)


def c_obytes(b):
    return 'None' if b is None else '(Some %s)' % cb(b)


# ---------------------------------------------------------------- generators (structured, valid)
UID_CH = '0123456789.'


def g_uid(rng, n=None):
    if n is None:
        n = rng.choice([0, 1, 2, 17, 18, 63, 64, rng.randint(1, 64)])
    if n == 0:
        return b''
    s = ''.join(rng.choice('123456789') if i % 3 == 0 else rng.choice(UID_CH) for i in range(n))
    if s[-1] == '.':
        s = s[:-1] + '1'
    return s.encode()


def g_name(rng, n=None, lo=0, hi=16):
    if n is None:
        n = rng.choice([lo, hi, rng.randint(lo, hi)])
    name = ''.join(rng.choice('ABCDEFGHIJKLMNOPQRSTUVWXYZ_0123456789') for _ in range(n))
    r = rng.random()
    if n >= 2 and r < 0.3:
        # spaces: trailing (AE titles padded with 20H as PS3.8 prescribes), leading, inner
        k = rng.randint(1, n - 1)
        name = {0: name[:n - k] + ' ' * k, 1: ' ' * k + name[k:], 2: name[:k] + ' ' + name[k + 1:]}[int(r * 10) % 3]
    return name.encode()


def g_utf8(rng, n=None):
    if n is None:
        n = rng.choice([0, 1, 5, 20] * 30 + [32767, 32768, 40000])
    alphabet = ['a', 'b', 'Z', '0', '-', 'é', 'ß', 'Ж', '中', '😀', ' ', '\ufeff']
    text = ''.join(rng.choice(alphabet) for _ in range(n))
    if n >= 1 and rng.random() < 0.08:
        # text saved by a tool that writes the UTF-8 signature first (U+FEFF): it is part of the field
        text = '\ufeff' + text[1:]
    return text.encode('utf-8')


def g_int(rng, bits):
    hi = 2 ** bits - 1
    return rng.choice([0, 0, 1, hi // 2, hi, rng.randint(0, hi)])


def g_res(rng):
    """reserved byte: mostly 0"""
    return rng.choice([0, 0, 0, 1, 255, rng.randint(0, 255)])


SUB_KINDS = ['MaxLen', 'ImplClass', 'AsyncOps', 'RoleSel', 'ImplVersion', 'ExtNeg', 'UserId', 'UserIdAc',
             'Generic']
KNOWN_SUB_TYPES = (0x51, 0x52, 0x53, 0x54, 0x55, 0x56, 0x58, 0x59)


def g_sub(rng, kind=None):
    k = kind or rng.choice(SUB_KINDS)
    if k == 'MaxLen':
        return ('MaxLen', g_res(rng), 4, g_int(rng, 32))
    if k == 'ImplClass':
        return ('ImplClass', g_res(rng), g_uid(rng))
    if k == 'AsyncOps':
        return ('AsyncOps', g_res(rng), 4, g_int(rng, 16), g_int(rng, 16))
    if k == 'RoleSel':
        return ('RoleSel', g_res(rng), g_uid(rng), g_int(rng, 8), g_int(rng, 8))
    if k == 'ImplVersion':
        return ('ImplVersion', g_res(rng), g_name(rng))
    if k == 'ExtNeg':
        return ('ExtNeg', g_res(rng), g_uid(rng), bytes(rng.randint(0, 255) for _ in range(rng.choice([0, 1, 2, 3, 9]))))
    if k == 'UserId':
        return ('UserId', g_res(rng), rng.choice([1, 2, 3, 4, 5, 0, 255]), rng.choice([0, 1, 255]),
                g_utf8(rng), g_utf8(rng))
    if k == 'UserIdAc':
        return ('UserIdAc', g_res(rng), g_utf8(rng))
    if k == 'Generic':
        t = rng.choice([x for x in (1, 0x10, 0x50, 0x57, 0x5A, 0x40, 0xFF, rng.randint(1, 255))
                        if x not in KNOWN_SUB_TYPES])
        return ('Generic', t, g_res(rng), bytes(rng.randint(0, 255) for _ in range(rng.choice([0, 1, 4, 11]))))
    raise ValueError(k)


def g_syntax(rng):
    return (g_res(rng), g_uid(rng))


def g_item(rng, kind):
    if kind == 'AppCtx':
        return ('AppCtx', g_res(rng), g_uid(rng))
    if kind == 'PcRq':
        return ('PcRq', g_int(rng, 8), g_res(rng), g_res(rng), g_res(rng), g_res(rng), g_syntax(rng),
                [g_syntax(rng) for _ in range(rng.choice([0, 1, 1, 2, 3]))])
    if kind == 'PcAc':
        return ('PcAc', g_int(rng, 8), g_res(rng), g_res(rng), rng.choice([0, 1, 2, 3, 4, 255]), g_res(rng),
                g_syntax(rng))
    if kind == 'UserInfo':
        return ('UserInfo', g_res(rng), [g_sub(rng) for _ in range(rng.choice([0, 1, 2, 3, 5]))])
    raise ValueError(kind)


def g_assoc(rng, items=None, kind=None):
    kind = kind or rng.choice(['KRq', 'KAc'])
    if items is None:
        items = []
        if rng.random() < 0.8:
            items.append(g_item(rng, 'AppCtx'))
        for _ in range(rng.choice([0, 1, 2, 4])):
            items.append(g_item(rng, rng.choice(['PcRq', 'PcAc']) if rng.random() < 0.2 else
                                ('PcRq' if kind == 'KRq' else 'PcAc')))
        if rng.random() < 0.85:
            items.append(g_item(rng, 'UserInfo'))
    r3 = [0] * 8 if rng.random() < 0.7 else [g_int(rng, 32) for _ in range(8)]
    return ('Assoc', kind, g_res(rng), rng.choice([1, 1, 0, 65535]), g_int(rng, 16) if rng.random() < 0.2 else 0,
            g_name(rng), g_name(rng), r3, items)


def g_pdata(rng, sizes=None):
    if sizes is None:
        sizes = [rng.choice([0, 1, 2, 7, 100]) for _ in range(rng.choice([0, 1, 1, 2, 5]))]
    return ('PData', g_res(rng), [(g_int(rng, 8), bytes(rng.randint(0, 255) for _ in range(n))) for n in sizes])


def g_fixed(rng, k):
    if k in ('RelRq', 'RelRp'):
        return (k, g_res(rng), g_int(rng, 32) if rng.random() < 0.5 else 0)
    return (k, g_int(rng, 8), g_int(rng, 8), g_int(rng, 8), g_int(rng, 8), g_int(rng, 8))


def realize(p):
    """Replace ('pat', prefix, seed, len) payloads by real bytes (for building the implementation object)."""
    if p[0] != 'PData':
        return p
    from common import pat
    return ('PData', p[1], [(c, (d[1] + pat(d[2], d[3])) if isinstance(d, tuple) else d) for c, d in p[2]])
