import json, os, sys
sys.path.insert(0, os.path.dirname(os.path.abspath(__file__)))
import registry

def main():
    checks = []
    for pid in registry.ALL:
        c = registry.CHECKS.get(pid)
        if not c:
            continue
        checks.append(dict(
            property_id=pid,
            quick_cmd='bin/check %s quick' % pid,
            thorough_cmd='bin/check %s thorough' % pid,
            evidence_file='/verif/evidence/%s.json' % pid,
            replay_cmd_template='bin/check --replay {path}',
            engine='coq-correspondence',
            level_claimed=dict(category='proof', text=c['text'], design_ref=c['design_ref']),
            level_note=c['note'],
            technique=c['technique']))
    na = [dict(property_id=p, reason=registry.NA.get(p, registry.NOT_YET) if hasattr(registry, 'NA') else registry.NOT_YET)
          for p in registry.ALL if p not in registry.CHECKS]
    man = dict(
        version=1,
        setup_cmd='bin/setup',
        hooks=dict(guard='PYNETDICOM2_VERIF', enable='no hooks are needed: the provider is driven from outside '
                   '(monkeypatched select/time/socket in the harness process only)',
                   baseline_off_cmd='cd /repo && /venv/bin/python -m pytest -ra -q -p no:cacheprovider --timeout=900 '
                                    '--continue-on-collection-errors',
                   source_commits=[], add_only=True),
        engines=[dict(name='coq-correspondence', path='/verif/bin/check',
                      serves_properties=[c['property_id'] for c in checks],
                      kind_free_text='Rocq/Coq 8.16 theorems over hand-written executable models + exhaustive '
                                     'behavioural tables, tied to /repo by correspondence obligations evaluated '
                                     'with vm_compute in generated case files')],
        checks=checks,
        not_applicable=na,
        notes='See DESIGN.md. KNOWN_FINDINGS.txt lists recorded findings and fixed defects.')
    with open(os.path.join(os.path.dirname(os.path.dirname(os.path.abspath(__file__))), 'MANIFEST.json'), 'w') as f:
        json.dump(man, f, indent=1)
        f.write('\n')

main()
