"""Shared driver for C01 / C02 (and the malformed-stream part of C12): builds real PDU objects from
generated model values, observes encode / decode / re-encode, emits Coq cases."""
import itertools
import random

import common
import pdumodel as pm
from common import clist

IMPORTS = 'From PND Require Import Lib.Text Model.Pdu Model.PduWf Corr.CorrPdu.\n'


def classes_by_type():
    from pynetdicom2 import dulprovider
    return dict((t, cls) for t, (cls, _evt) in dulprovider.PDU_TYPES.items())


def second_use(real):
    """The object for `real` obtained the way a retry or an incremental builder obtains it: a smaller PDU is built,
    measured and encoded once (first use), then the missing last element is appended to the live object.  Lengths
    cached at the first use would now be stale.  None when the value has nothing to take away."""
    from pynetdicom2 import pdu
    k = real[0]
    try:
        if k == 'PData' and len(real[2]) >= 2:
            obj = pm.to_impl((real[0], real[1], real[2][:-1]))
            obj.total_length(), obj.encode(), repr(obj)
            c, d = real[2][-1]
            obj.data_value_items.append(pdu.PresentationDataValueItem(c, bytes(d)))
            return obj
        if k == 'Assoc':
            items = list(real[8])
            for idx, it in enumerate(items):
                if it[0] == 'PcRq' and len(it[7]) >= 2:
                    small = list(it)
                    small[7] = it[7][:-1]
                    obj = pm.to_impl(real[:8] + (items[:idx] + [tuple(small)] + items[idx + 1:],))
                    obj.total_length(), obj.encode(), repr(obj)
                    r, n = it[7][-1]
                    obj.variable_items[idx].ts_sub_items.append(pdu.TransferSyntaxSubItem(pm.s_(n), r))
                    return obj
                if it[0] == 'UserInfo' and len(it[2]) >= 2:
                    small = (it[0], it[1], it[2][:-1])
                    obj = pm.to_impl(real[:8] + (items[:idx] + [small] + items[idx + 1:],))
                    obj.total_length(), obj.encode(), repr(obj)
                    obj.variable_items[idx].user_data.append(pm.to_impl_sub(it[2][-1]))
                    return obj
    except Exception:  # noqa  (the reduced value may itself be unencodable: fall back to the plain construction)
        return None
    return None


def observe_rt(p):
    try:
        return _observe_rt(p)
    finally:
        common.note_case(None)


def _observe_rt(p):
    """(enc bytes|None, total_length, decode result, re-encode bytes|None, notes)"""
    real = pm.realize(p)
    import zlib
    common.note_case(dict(kind='round-trip', value=repr(real)[:20000], what='encode(), decode(encode()), encode() again'))
    # every third value is built by filling its containers after construction (PDV items / variable items / user
    # data appended one by one), as application code that assembles a PDU step by step does
    h = zlib.crc32(repr(real).encode())
    pm.BUILD_BY_APPENDING[0] = h % 3 == 0
    try:
        obj = second_use(real) if h % 5 == 1 else None
        if obj is None:
            obj = pm.to_impl(real)
    finally:
        pm.BUILD_BY_APPENDING[0] = False
    notes = {}
    try:
        tot = obj.total_length()
    except Exception as e:  # noqa
        tot = 0
        notes['total_length_exc'] = repr(e)
    try:
        enc = obj.encode()
    except Exception as e:  # noqa
        notes['encode_exc'] = type(e).__name__
        return None, tot, ('err', e), None, notes
    cls = classes_by_type()[pm.type_of(p)]
    try:
        dec = cls.decode(enc)
        decm = ('ok', pm.from_impl(dec))
    except Exception as e:  # noqa
        return enc, tot, ('err', e), None, notes
    try:
        re = dec.encode()
    except Exception as e:  # noqa
        re = None
        notes['reencode_exc'] = type(e).__name__
    return enc, tot, decm, re, notes


def rt_term(p, obs):
    enc, tot, dec, re, _n = obs
    pm.PATS[:] = []
    if p[0] == 'PData':
        seen = set()
        for _c, d in p[2]:
            if isinstance(d, tuple) and d[3] >= 2048 and (d[2], d[3]) not in seen:
                seen.add((d[2], d[3]))
                pm.PATS.append((d[2], d[3], common.pat(d[2], d[3])))
    try:
        return '(mkrt %s %s %d %s %s)' % (pm.c_pdu(p), pm.c_obytes(enc), tot, pm.c_result_pdu(dec), pm.c_obytes(re))
    finally:
        pm.PATS[:] = []


def observe_dec(t, raw):
    cls = classes_by_type().get(t)
    if cls is None:
        return ('err', KeyError(t))
    common.note_case(dict(kind='decode', pdu_type=t, raw=bytes(raw).hex(), what='%s.decode(raw)' % cls.__name__))
    try:
        return ('ok', pm.from_impl(cls.decode(raw)))
    except Exception as e:  # noqa
        return ('err', e)
    finally:
        common.note_case(None)


def dec_term(t, raw, obs):
    return '(mkdec %d %s %s)' % (t, common.cbytes(raw), pm.c_result_pdu(obs))


# ------------------------------------------------------------------ generators
PATHOLOGICAL_NAMES = [b'1.2.840.' + b'9' * 48 + b'A', b'1.' * 31 + b'x', b'1' * 63 + b'!', b'A' * 63 + b'1', b'1.2.3' + b' ' * 58 + b'x',
                      b'.' * 63 + b'1', b'1.2.840.10008.1.1' + b' ' * 40 + b'.', b'9' * 40 + b'.' + b'9' * 20 + b'..', b'a1' * 31 + b'.']


def gen_structured(tier, rng):
    """Mostly valid PDU values, enumerations first, then seeded random."""
    out = []
    K = pm.SUB_KINDS
    # every ordered adjacency of sub-item kinds: alone, followed by a third, preceded by a first
    for a, b in itertools.product(K, K):
        subs = [pm.g_sub(rng, a), pm.g_sub(rng, b)]
        out.append(('pair', pm.g_assoc(rng, [pm.g_item(rng, 'AppCtx'), ('UserInfo', 0, subs)])))
        third = pm.g_sub(rng)
        out.append(('pair+1', pm.g_assoc(rng, [('UserInfo', 0, subs + [third])])))
        out.append(('1+pair', pm.g_assoc(rng, [pm.g_item(rng, 'PcRq'), ('UserInfo', pm.g_res(rng), [third] + subs)])))
    for a in K:   # each kind alone / last
        out.append(('single', pm.g_assoc(rng, [('UserInfo', 0, [pm.g_sub(rng, a)])])))
    if tier != 'quick':
        for a, b, c in itertools.product(K, K, K):
            out.append(('triple', pm.g_assoc(rng, [('UserInfo', 0, [pm.g_sub(rng, a), pm.g_sub(rng, b), pm.g_sub(rng, c)])])))
    # item lists 0..n, item orders
    out.append(('noitems', pm.g_assoc(rng, [])))
    kinds = ['AppCtx', 'PcRq', 'PcAc']
    for n in range(1, 4):
        for combo in itertools.product(kinds, repeat=n):
            out.append(('items', pm.g_assoc(rng, [pm.g_item(rng, k) for k in combo] +
                                            ([pm.g_item(rng, 'UserInfo')] if rng.random() < 0.5 else []))))
    # user identity with a primary field in the upper half of its 16-bit length (a SAML assertion, a Kerberos ticket)
    for n in (32767, 32768, 40000, 65000):
        out.append(('userid-long', pm.g_assoc(rng, [pm.g_item(rng, 'AppCtx'),
                                                   ('UserInfo', 0, [('MaxLen', 0, 4, 16384),
                                                                    ('UserId', 0, 3 + n % 3, n % 2, b'k' * n, b''),
                                                                    ('ImplVersion', 0, b'V1')])])))
    # AE titles of 0..16 characters, UIDs of 0..64 characters
    for n in range(0, 17):
        p = list(pm.g_assoc(rng, [pm.g_item(rng, 'AppCtx')]))
        p[5] = pm.g_name(rng, n)
        p[6] = pm.g_name(rng, 16 - n)
        out.append(('aet', tuple(p)))
    for n in range(0, 65):
        it = ('PcRq', 1 + 2 * (n % 128), 0, 0, 0, 0, (0, pm.g_uid(rng, n)), [(0, pm.g_uid(rng, 64 - n)), (0, pm.g_uid(rng, n))])
        sub = [('ImplClass', 0, pm.g_uid(rng, n)), ('RoleSel', 0, pm.g_uid(rng, n), 1, 0), ('ExtNeg', 0, pm.g_uid(rng, n), b'\1\2'),
               ('ImplVersion', 0, pm.g_name(rng, n % 17))]
        out.append(('uidlen', pm.g_assoc(rng, [('AppCtx', 0, pm.g_uid(rng, n)), it, ('PcAc', 3, 0, 0, 0, 0, (0, pm.g_uid(rng, n))),
                                              ('UserInfo', 0, sub)])))
    # text on which a pattern-based "tidying" of names degenerates: long runs of one class of character with the one
    # character that does not fit at the very end (digits, dotted digits, padding, letters)
    for k, name in enumerate(PATHOLOGICAL_NAMES):
        it = ('PcRq', 1 + 2 * k, 0, 0, 0, 0, (0, name), [(0, name), (0, b'1.2.840.10008.1.2')])
        sub = [('MaxLen', 0, 4, 16384), ('ImplClass', 0, name), ('RoleSel', 0, name, 1, 0), ('ExtNeg', 0, name, b'\1\2'),
               ('ImplVersion', 0, name[:16])]
        p = list(pm.g_assoc(rng, [('AppCtx', 0, name), it, ('PcAc', 3, 0, 0, 0, 0, (0, name)), ('UserInfo', 0, sub)]))
        out.append(('pathological-text', tuple(p)))
        p2 = list(pm.g_assoc(rng, [pm.g_item(rng, 'AppCtx')]))
        p2[5] = name[-16:]
        p2[6] = name[:16]
        out.append(('pathological-text', tuple(p2)))
    # P-DATA: payload sizes around the boundaries, several PDVs
    for n in [0, 1, 2, 255, 256, 65529, 65530, 65531, 65535, 65536, 65537, 70000]:
        out.append(('pdata', ('PData', 0, [(1, ('pat', b'\x02', 7 + n, n))])))
    # (the last two: P-DATA-TF PDUs beyond 1 MiB, as a peer without limit may be sent, with one and with several PDVs)
    for sizes in [[0, 0], [1, 0, 2], [5, 5, 5, 5, 5], [300, 1], [70000, 3, 66000], [600000, 2, 500000]] + ([[1100000]] if tier != 'quick' else []):
        out.append(('pdata', ('PData', pm.g_res(rng), [(pm.g_int(rng, 8), ('pat', b'', 11 + s, s)) for s in sizes])))
    for _ in range(20 if tier == 'quick' else 200):
        out.append(('pdata', pm.g_pdata(rng)))
    # fixed-size PDUs: every field at its boundaries
    for k in ('AssocRj', 'Abort'):
        for vals in itertools.product([0, 1, 127, 255], repeat=5):
            if tier == 'quick' and rng.random() < 0.8:
                continue
            out.append(('fixed', (k,) + vals))
    for k in ('RelRq', 'RelRp'):
        for r1 in (0, 1, 255):
            for r2 in (0, 1, 2 ** 31, 2 ** 32 - 1, 0x01020304):
                out.append(('fixed', (k, r1, r2)))
    # out-of-range values: struct.error expected
    out.append(('range', ('AssocRj', 0, 0, 256, 0, 0)))
    out.append(('range', ('RelRq', 0, 2 ** 32)))
    out.append(('range', ('PData', 0, [(256, b'\x03a')])))
    out.append(('range', pm.g_assoc(rng, [('PcRq', 257, 0, 0, 0, 0, (0, b'1.2'), [(0, b'1.2.840.10008.1.2')])])))
    out.append(('range', pm.g_assoc(rng, [('UserInfo', 0, [('MaxLen', 0, 4, 2 ** 32)])])))
    out.append(('range', pm.g_assoc(rng, [('UserInfo', 0, [('Generic', 0x57, 0, bytes(65536))])])))
    out.append(('range', pm.g_assoc(rng, [('UserInfo', 0, [('Generic', 0x57, 0, bytes(40000)), ('Generic', 0x5A, 0, bytes(30000))])])))
    n_rand = 400 if tier == 'quick' else 6000
    for _ in range(n_rand):
        r = rng.random()
        if r < 0.75:
            out.append(('random', pm.g_assoc(rng)))
        elif r < 0.9:
            out.append(('random', pm.g_pdata(rng)))
        else:
            out.append(('random', pm.g_fixed(rng, rng.choice(['AssocRj', 'Abort', 'RelRq', 'RelRp']))))
    return out


def mutate_streams(tier, rng, seeds):
    """Malformed / unusual inputs for <type>.decode: structure-aware mutations of valid encodings."""
    out = []
    for t, raw in seeds:
        n = len(raw)
        cuts = range(0, n) if n <= 120 else sorted(set(rng.randint(0, n - 1) for _ in range(40)))
        for c in cuts:                                   # truncation
            out.append((t, raw[:c]))
        for _ in range(30 if tier == 'quick' else 200):  # byte edits
            b = bytearray(raw)
            for _k in range(rng.choice([1, 1, 2, 3])):
                i = rng.randrange(n)
                b[i] = rng.choice([0, 1, 0x40, 0x50, 0x51, 0x56, 0x7F, 0x80, 0xC3, 0xFF, rng.randint(0, 255)])
            out.append((t, bytes(b)))
        for _ in range(10):                               # splice / duplicate / append
            i = rng.randrange(n)
            j = rng.randrange(n)
            out.append((t, raw[:i] + raw[j:]))
            out.append((t, raw + raw[j:]))
        out.append((t, raw + b'\0' + raw[6:]))
        for wrong in (1, 2, 3, 4, 5, 6, 7):                # decoded as another PDU type
            if rng.random() < 0.3:
                out.append((wrong, raw))
    for _ in range(60 if tier == 'quick' else 600):        # random bytes
        out.append((rng.randint(1, 7), bytes(rng.randint(0, 255) for _ in range(rng.choice([0, 3, 6, 10, 12, 80])))))
    return out


def run(prop, tier, seed, dec, checks_rt, with_malformed=True):
    rng = random.Random(seed)
    structured = gen_structured(tier, rng)
    rt_obs = []
    for tag, p in structured:
        rt_obs.append((tag, p, observe_rt(p)))
    terms = [rt_term(p, o) for _t, p, o in rt_obs]
    runner = common.CoqRun(prop)
    failing, broken, n_obl, n_ok = common.run_sharded(runner, 'Rt', IMPORTS, 'rt_case', terms, checks_rt, size=60)
    dec.obligations(n_obl, n_ok)
    mal = []
    mfailing = {'corr': []}
    if with_malformed:
        seeds = []
        for _tag, p, o in rt_obs:
            if o[0] is not None and len(o[0]) < 400 and rng.random() < (0.05 if tier == 'quick' else 0.2):
                seeds.append((pm.type_of(p), o[0]))
        streams = mutate_streams(tier, rng, seeds)
        mal = [(t, raw, observe_dec(t, raw)) for t, raw in streams]
        mterms = [dec_term(t, raw, o) for t, raw, o in mal]
        mfailing, mbroken, m_obl, m_ok = common.run_sharded(runner, 'Dec', IMPORTS, 'dec_case', mterms,
                                                            [('corr', 'dec_corr')], size=150)
        dec.obligations(m_obl, m_ok)
        broken += mbroken
    return runner, rt_obs, failing, mal, mfailing, broken
