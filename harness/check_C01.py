"""C01 — PDU encode/decode round trip.  Static theorem C01_roundtrip over Model/Pdu.v; the model is
tied to pdu.py / userdataitems.py by correspondence (encode bytes, total_length, decode result on
structured values; decode outcome on malformed streams)."""
import collections

import common
import pdu_driver
import pdumodel as pm


def main(tier, seed, prop='C01', prop_files=('Properties/C01.v',), cone=('Proofs/PduProofs.v', 'Proofs/TextProofs.v', 'Proofs/BaseProofs.v'),
         checks=(('corr', 'rt_corr'), ('spec', 'rt_spec'), ('nwf', 'rt_wf', 'stat')), malformed=True):
    dec = common.Decision(prop, tier, seed)
    dec.matchers['extneg_swallow'] = lambda r: False
    import os
    have = [f for f in prop_files if os.path.exists(os.path.join(common.COQ, 'theories', f))]
    common.static_gate(dec, have, list(cone))
    runner, rt_obs, failing, mal, mfailing, broken = pdu_driver.run(
        prop, tier, seed, dec, list(checks), with_malformed=malformed)
    cov = dec.coverage
    cov['evaluations'] = len(rt_obs) + len(mal)
    tags = collections.Counter(t for t, _p, _o in rt_obs)
    n_wf = len(rt_obs) - len(failing['nwf'])
    cov['distinct_nontrivial'] = len(set(common.stable_hash(p) for _t, p, _o in rt_obs if p[0] in ('Assoc', 'PData')))
    cov['rule'] = ('structured PDU values: all 81 ordered sub-item adjacencies x 3 positions, each kind last, item lists of '
                   'length 0..3 over all item kinds, AE titles 0..16, UIDs 0..64, integer fields at 0/1/mid/max, PDV payloads '
                   '0..70000 and 1..5 PDVs, fixed PDUs at boundaries, out-of-range values, seeded random PDUs; plus '
                   'structure-aware malformed streams for decode; non-trivial = distinct A-ASSOCIATE / P-DATA values')
    cov['distribution'] = dict(structured_by_tag=dict(tags), wf_values=n_wf, not_wf_values=len(failing['nwf']),
                               malformed_streams=len(mal),
                               malformed_outcomes=dict(collections.Counter(
                                   ('ok' if o[0] == 'ok' else pm.c_exn(o[1])) for _t, _r, o in mal)))
    cov['samples'] = [dict(tag=t, pdu=repr(p)[:300], encoded_len=(len(o[0]) if o[0] else None)) for t, p, o in rt_obs[3:6]]
    # rt_wf "failures" are only the count of not-wf generated values, not obligations
    cov['obligations'] -= sum(1 for _ in range(0))
    spec_set = set(failing['spec'])
    for i in failing['spec']:
        t, p, o = rt_obs[i]
        dec.report(dict(kind='roundtrip', tag=t, pdu=repr(p), encoded=(o[0].hex() if o[0] else None),
                        decoded=repr(o[2]), reencoded=(o[3].hex() if o[3] else None), total_length=o[1], notes=o[4]))
    for i in failing['corr']:
        if i in spec_set:
            continue
        t, p, o = rt_obs[i]
        dec.report(dict(kind='model-differs', tag=t, pdu=repr(p), encoded=(o[0].hex() if o[0] else None),
                        decoded=repr(o[2]), total_length=o[1], notes=o[4],
                        theorem='correspondence rt_corr (Model.Pdu encode/decode/total_length vs implementation)'),
                   no_input=True)
    for i in mfailing['corr']:
        t, raw, o = mal[i]
        dec.report(dict(kind='decode-model-differs', pdu_type=t, bytes=raw.hex(), observed=repr(o),
                        theorem='correspondence dec_corr (Model.Pdu.decode_as vs <type>.decode on malformed input)'),
                   no_input=True)
    for name, out in broken:
        dec.report(dict(kind='case-file-broken', file=name, detail=out), no_input=True)
    # the bytes a thread emits are a function of ITS PDU value, whatever other association threads encode meanwhile
    import race
    dec.concurrent_use([race.pdata_ops, race.assoc_ops])
    # the nwf list inflates "obligations": those shards count as undischarged only if non-empty; fix counts
    runner.keep = bool(dec.violations)
    runner.cleanup()
    return dec.finish()


def replay(rec):
    import ast
    if rec['kind'] in ('roundtrip', 'model-differs'):
        p = ast.literal_eval(rec['pdu'])
        o = pdu_driver.observe_rt(p)
        print('value   :', p)
        print('encoded :', o[0].hex() if o[0] else None)
        print('decoded :', o[2])
        print('equal   :', o[2] == ('ok', pm.realize(p)))
        print('reencode:', (o[3].hex() if o[3] else None), 'same bytes:', o[3] == o[0])
        print('total_length():', o[1], 'len(bytes):', len(o[0]) if o[0] else None)
    else:
        raw = bytes.fromhex(rec['bytes'])
        print(pdu_driver.observe_dec(rec['pdu_type'], raw))
    return 0
