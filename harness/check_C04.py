"""C04 — every cell of PS3.8 Table 9-10.  Mechanism A: the real StateMachine is exercised on every
(state, event, role, primitive kind) with a recording transport / queue / timer; the complete table
of observations is checked against Spec/Ps38Table.v inside Coq (check_cells by vm_compute) and
theorem C04_every_cell lifts it to "for every state, event and role"."""
import common
import world
from common import cbool, clist

NOW = 105.0
EARLIER = 100.0


def echo_pdata(complete=True):
    """A P-DATA-TF carrying a whole C-ECHO-RQ command (complete) or only its first fragment."""
    from pynetdicom2 import dimsemessages, pdu
    msg = dimsemessages.CEchoRQMessage()
    msg.message_id = 7
    msg.sop_class_uid = '1.2.840.10008.1.1'
    msg.set_length()
    frs = list(msg.encode(1, 16384 if complete else 30))
    return frs[0]


def primitives_for(evt, state, with_variants=True):
    """(primkind term, builder) list for an event."""
    from pynetdicom2 import pdu, userdataitems
    def rq(version=1, subs=None):
        p = pdu.AAssociateRqPDU('CALLED', 'CALLING', [pdu.ApplicationContextItem('1.2.840.10008.3.1.1.1'),
                                pdu.UserInformationItem(subs or [userdataitems.MaximumLengthSubItem(16384)])],
                                protocol_version=version)
        p.called_presentation_address = ('127.0.0.1', 104)
        return p
    def ac(version=1):
        return pdu.AAssociateAcPDU('CALLED', 'CALLING', [pdu.ApplicationContextItem('1.2.840.10008.3.1.1.1'),
                                   pdu.UserInformationItem([userdataitems.MaximumLengthSubItem(16384)])],
                                   protocol_version=version)
    kinds = {
        'PkRq': rq, 'PkAc': ac, 'PkRj': lambda: pdu.AAssociateRjPDU(1, 1, 3),
        'PkDataComplete': lambda: echo_pdata(True), 'PkDataPartial': lambda: echo_pdata(False),
        'PkRelRq': pdu.AReleaseRqPDU, 'PkRelRp': pdu.AReleaseRpPDU,
        '(PkAbort 0)': lambda: pdu.AAbortPDU(0, 0), '(PkAbort 2)': lambda: pdu.AAbortPDU(2, 6),
        'PkNone': lambda: None,
    }
    by_event = {
        1: ['PkRq'], 2: ['PkRq'], 3: ['PkAc'], 4: ['PkRj'], 5: ['PkNone', 'PkRelRp'], 6: ['PkRq'], 7: ['PkAc'],
        8: ['PkRj'], 9: ['PkDataComplete', 'PkDataPartial'], 10: ['PkDataComplete', 'PkDataPartial'],
        11: ['PkRelRq'], 12: ['PkRelRq'], 13: ['PkRelRp'], 14: ['PkRelRp'], 15: ['(PkAbort 0)', '(PkAbort 2)'],
        16: ['(PkAbort 0)', '(PkAbort 2)'], 17: ['PkNone', 'PkDataComplete'], 18: ['PkNone', 'PkRelRq'],
        19: ['PkNone', 'PkAc'],
    }
    # the cell is the same whatever the VALUES in the PDU: further values of one primitive kind (other protocol-version
    # bit masks - a receiver tests bit 0 only -, other sub-items and orders, other refusal / abort values); rows of
    # the same cell, told apart by `variant`
    variants = {
        'PkRq': [lambda: rq(3), lambda: rq(0x8001), lambda: rq(0xFFFF),
                 lambda: rq(1, [userdataitems.ImplementationClassUIDSubItem('1.2.3'), userdataitems.MaximumLengthSubItem(0)])],
        'PkAc': [lambda: ac(3), lambda: ac(0x8001)],
        'PkRj': [lambda: pdu.AAssociateRjPDU(2, 3, 2), lambda: pdu.AAssociateRjPDU(1, 2, 2)],
        '(PkAbort 0)': [lambda: pdu.AAbortPDU(0, 5)],
        '(PkAbort 2)': [lambda: pdu.AAbortPDU(2, 0), lambda: pdu.AAbortPDU(2, 2)],
    }
    out = []
    for k in by_event[evt]:
        out.append((k, kinds[k]))
        if with_variants:
            out.extend((k, b) for b in variants.get(k, []))
    return out


def abstract_sent(raw, prim):
    t = raw[0] if raw else 0
    a = b = 0
    if t == 7 and len(raw) >= 10:
        a, b = raw[8], raw[9]
    is_prim = False
    try:
        is_prim = prim is not None and prim.encode() == raw
    except Exception:
        pass
    return '(mksent %d %d %d %s)' % (t, a, b, cbool(is_prim))


def abstract_given(obj, prim):
    if isinstance(obj, tuple):
        return '(mkgiven 100 %d false)' % (obj[1] if isinstance(obj[1], int) else 0)
    t = getattr(obj, 'pdu_type', 0) or 0
    a = getattr(obj, 'source', 0) if t == 7 else 0
    return '(mkgiven %d %d %s)' % (t, a, cbool(obj is prim))


def observe_cell(s, e, requestor, pk, build):
    from pynetdicom2 import fsm, dulprovider
    import queue
    fake_mod = world.FakeSocketModule()
    clock = world.FakeClock(NOW)
    saved = (fsm.socket, dulprovider.time)
    fsm.socket = fake_mod
    dulprovider.time = clock
    try:
        sock0 = None if requestor else world.FakeSocket()
        prov = world.make_provider(sock0)
        if requestor and s != 1:
            prov.dul_socket = world.FakeSocket()
        if (not requestor) and s == 1:
            prov.dul_socket = sock0        # transport indication pending
        sock = prov.dul_socket
        prov.event.clear()
        sm = prov.state_machine
        sm.accepted_contexts = {}
        sm.current_state = getattr(fsm.States, 'STA_%d' % s)
        before = s in (2, 13)
        prov.timer._start_time = EARLIER if before else None
        prim = build()
        prov.primitive = prim
        raised = False
        try:
            sm.action(getattr(fsm.Events, 'EVT_%d' % e))
        except Exception as ex:  # noqa
            raised = type(ex).__name__
        nxt = sm.current_state
        names = dict((getattr(fsm.States, 'STA_%d' % k), k) for k in range(1, 14))
        nxt = names.get(nxt, 0)
        socks = [x for x in [sock] + fake_mod.created if x is not None]
        wire = [abstract_sent(raw, prim) for x in socks for raw in x.sent]
        given = []
        while True:
            try:
                given.append(abstract_given(prov.to_service_user.get(False), prim))
            except queue.Empty:
                break
        closed = any(x.closed for x in socks)
        opened = any(x.connected_to is not None for x in fake_mod.created)
        after = prov.timer._start_time is not None
        reset = prov.timer._start_time == NOW
        term = ('(mkcell %d %d %s %s %s %d %s %s %s %s %s %s %s)' %
                (s, e, cbool(requestor), pk, cbool(bool(raised)), nxt, clist(wire), clist(given),
                 cbool(closed), cbool(opened), cbool(before), cbool(after), cbool(reset)))
        human = dict(state=s, event=e, requestor=requestor, primitive=pk, raised=raised, next_state=nxt,
                     wire=wire, user=given, closed=closed, opened=opened, timer=(before, after, reset))
        return term, human
    finally:
        fsm.socket, dulprovider.time = saved


def tabulate():
    cells = []
    for s in range(1, 14):
        for e in range(1, 20):
            for requestor in (True, False):
                for v, (pk, build) in enumerate(primitives_for(e, s)):
                    t, h = observe_cell(s, e, requestor, pk, build)
                    h['variant'] = v
                    cells.append((t, h))
    return cells


FILE = '''From PND Require Import Lib.Base Spec.Ps38Table Model.FsmCell Properties.C04 Model.Fsm Corr.CorrFsm.
Open Scope N_scope.
Definition cells : list cell :=
  [ %s ].
Definition bad_cells := Eval vm_compute in failing conforms cells.
Print bad_cells.
Definition is_complete := Eval vm_compute in (if complete cells then [] else [0]).
Print is_complete.
(* the control model of C05 / C12 / C13 reproduces every observed cell *)
Definition bad_model := Eval vm_compute in failing model_matches cells.
Print bad_model.
Example model_ok : bad_model = []. Proof. vm_compute. reflexivity. Qed.
Theorem observed_ok : check_cells cells = true.
Proof. vm_compute. reflexivity. Qed.
Theorem C04_now :
  (forall s e rq, In s states -> In e events ->
     exists c, In c cells /\\ c_state c = s /\\ c_event c = e /\\ c_requestor c = rq)
  /\\ (forall c, In c cells -> conforms c = true).
Proof. exact (C04_every_cell cells observed_ok). Qed.
Print Assumptions C04_now.
'''


def main(tier, seed):
    dec = common.Decision('C04', tier, seed)
    common.static_gate(dec, ['Properties/C04.v'], ['Proofs/FsmCellProofs.v'])
    cells = tabulate()
    run = common.CoqRun('C04')
    run.add('Cells', FILE % '\n  ; '.join(t for t, _h in cells))
    rc, out, _dt = run.compile_all()['Cells']
    bad = common.parse_printed_list(out, 'bad_cells')
    comp = common.parse_printed_list(out, 'is_complete')
    badm = common.parse_printed_list(out, 'bad_model')
    cov = dec.coverage
    cov['evaluations'] = len(cells)
    cov['exhaustive'] = True
    cov['distinct_nontrivial'] = len(set((h['state'], h['event'], h['requestor']) for _t, h in cells))
    cov['rule'] = ('exhaustive: 13 states x 19 events x 2 roles x each applicable primitive kind (and, for the association / abort PDUs, further values: protocol-version bit masks, sub-item orders, refusal and abort codes) on the real '
                   'StateMachine with recording transport/queue/timer; distinct = (state,event,role) triples')
    cov['samples'] = [h for _t, h in cells[100:103]]
    dec.obligations(3, 0)
    if badm:
        for i in badm[:20]:
            dec.report(dict(cells[i][1], kind='control-model-differs-from-cell', theorem='Corr.CorrFsm.model_matches (tie of Model.Fsm to the code)'), no_input=True)
    elif badm == []:
        cov['discharged'] += 1
    if bad is None or comp is None:
        dec.report(dict(kind='cells-file-broken', detail=out[-2000:], theorem='Cells.v (generated)'), no_input=True)
    else:
        for i in bad:
            dec.report(dict(cells[i][1], kind='cell'))
        if comp:
            dec.report(dict(kind='table-incomplete', theorem='complete cells'), no_input=True)
        if not bad and not comp:
            if rc == 0 and 'Closed under the global context' in out:
                cov['discharged'] += 2
            else:
                dec.report(dict(kind='cells-theorem-broken', detail=out[-2000:], theorem='observed_ok / C04_now'),
                           no_input=True)
    run.keep = bool(dec.violations)
    run.cleanup()
    return dec.finish()


def replay(rec):
    pk = rec['primitive']
    build = primitives_for(rec['event'], rec['state'])[rec.get('variant', 0)][1]
    _t, h = observe_cell(rec['state'], rec['event'], rec['requestor'], pk, build)
    for k, v in h.items():
        print('%-10s %s' % (k, v))
    return 0
