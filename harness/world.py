"""Deterministic stand-ins for the provider's environment (transport, clock, thread start)."""
import collections
import socket as real_socket


class FakeSocket(object):
    """Records what the provider does with its transport connection."""

    def __init__(self, world=None):
        self.world = world
        self.sent = []
        self.closed = False
        self.connected_to = None
        self.broken = False

    def sendall(self, data):
        if self.broken:
            raise real_socket.error('broken pipe (simulated)')
        self.sent.append(bytes(data))
        if self.world is not None:
            self.world.wire.append(bytes(data))

    def close(self):
        self.closed = True
        if self.world is not None:
            self.world.log.append('close')

    def connect(self, addr):
        self.connected_to = addr
        if self.world is not None:
            self.world.log.append('connect')

    def recv(self, n):
        if self.world is None:
            raise real_socket.error('no world')
        return self.world.recv(n)

    def fileno(self):
        return -1

    def __bool__(self):
        return True
    __nonzero__ = __bool__


class FakeSocketModule(object):
    """Replacement for the `socket` module object inside pynetdicom2.fsm / dulprovider."""
    AF_INET = real_socket.AF_INET
    SOCK_STREAM = real_socket.SOCK_STREAM
    error = real_socket.error

    def __init__(self, world=None):
        self.world = world
        self.created = []

    def socket(self, *a, **k):
        s = FakeSocket(self.world)
        self.created.append(s)
        return s


class FakeClock(object):
    def __init__(self, now=1000.0):
        self.now = now

    def time(self):
        return self.now

    def sleep(self, s):
        self.now += s


def make_provider(dul_socket=None, max_pdu_length=65536, store_in_file=frozenset(), get_file_cb=None):
    """A real DULServiceProvider whose thread is never started (run() is called by the harness)."""
    from pynetdicom2 import dulprovider

    class NoStartProvider(dulprovider.DULServiceProvider):
        def start(self):
            pass

    return NoStartProvider(store_in_file, get_file_cb, dul_socket, max_pdu_length)
