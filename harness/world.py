"""Deterministic stand-ins for the provider's environment (transport, clock, thread start)."""
import collections
import socket as real_socket


class FakeSocket(object):
    """Records what the provider does with its transport connection."""

    def __init__(self, world=None):
        self.world = world
        self.sent = []
        self.closed = False
        self.connected_to = None
        self.broken = False

    def sendall(self, data):
        if self.broken:
            raise real_socket.error('broken pipe (simulated)')
        if self.world is not None and self.world.fail_sends and (self.world.reset or self.world.eof or
                                                                 self.world.write_reset):
            # the peer has reset / closed the connection: the kernel refuses the write (and later reads)
            self.world.reset = True
            self.world.refused_writes += 1
            raise ConnectionResetError('connection reset by peer (simulated)')
        self.sent.append(bytes(data))
        if self.world is not None:
            self.world.wire.append(bytes(data))

    def close(self):
        self.closed = True
        if self.world is not None:
            self.world.log.append('close')

    def connect(self, addr):
        self.connected_to = addr
        if self.world is not None:
            self.world.log.append('connect')

    def recv(self, n):
        if self.world is None:
            raise real_socket.error('no world')
        return self.world.recv(n)

    def fileno(self):
        return -1

    def __bool__(self):
        return True
    __nonzero__ = __bool__


class FakeSocketModule(object):
    """Replacement for the `socket` module object inside pynetdicom2.fsm / dulprovider."""
    AF_INET = real_socket.AF_INET
    SOCK_STREAM = real_socket.SOCK_STREAM
    error = real_socket.error

    def __init__(self, world=None):
        self.world = world
        self.created = []

    def socket(self, *a, **k):
        s = FakeSocket(self.world)
        self.created.append(s)
        return s


class FakeClock(object):
    def __init__(self, now=1000.0):
        self.now = now

    def time(self):
        return self.now

    def sleep(self, s):
        self.now += s


def make_provider(dul_socket=None, max_pdu_length=65536, store_in_file=frozenset(), get_file_cb=None):
    """A real DULServiceProvider whose thread is never started (run() is called by the harness)."""
    from pynetdicom2 import dulprovider

    class NoStartProvider(dulprovider.DULServiceProvider):
        def start(self):
            pass

    return NoStartProvider(store_in_file, get_file_cb, dul_socket, max_pdu_length)


# ======================================================================================
# Scripted world: exactly one script operation is applied at the head of every loop iteration
# (the `while not self.is_killed` test is the scheduling point), so a run is deterministic.
#   ('seg', bytes)  bytes arrive from the peer          ('close',) peer closes (EOF)
#   ('reset',)      connection reset (recv raises)      ('user', obj) local user calls send(obj)
#   ('tick', secs)  the clock advances                  ('idle',)  nothing happens
#   ('kill',)       stop requested
# When the script is exhausted the loop is asked to stop.
# ======================================================================================
class Blocked(Exception):
    """The provider made a blocking call that the world cannot satisfy."""


class Diverged(Exception):
    pass


class World(object):
    def __init__(self, script, budget=20000):
        self.script = collections.deque(script)
        self.pending = bytearray()
        self.eof = False
        self.reset = False
        self.wire = []
        self.log = []
        self.clock = FakeClock(1000.0)
        self.budget = budget
        self.iterations = 0
        self.prov = None
        self.refused_writes = 0
        self.fail_sends = False   # sendall raises once the peer has reset / closed the connection
        self.write_reset = False  # the peer's reset has arrived but was not yet noticed by a read
        self.snapshots = []       # per-iteration observations
        self.frames = []          # byte strings handed to the PDU decoders

    # ---- transport -----------------------------------------------------
    def readable(self):
        return bool(self.pending) or self.eof or self.reset or self.write_reset

    def recv(self, n):
        self._spend()
        if self.pending:
            n = max(int(n), 0)
            data = bytes(self.pending[:n])
            del self.pending[:n]
            if n == 0:
                raise Blocked('recv(0) with data pending')
            return data
        if self.reset or self.write_reset:
            self.reset = False
            self.write_reset = False
            self.eof = True
            raise real_socket.error('connection reset (simulated)')
        if self.eof:
            return b''
        raise Blocked('blocking recv with a silent peer')

    def select(self, rl, wl, xl, timeout=None):
        self._spend()
        return ([s for s in rl if self.readable()], [], [])

    def _spend(self):
        self.budget -= 1
        if self.budget < 0:
            raise Diverged('step budget exhausted')

    # ---- the per-iteration scheduling point --------------------------------
    def iteration_head(self, prov):
        """Returns True when the loop must stop."""
        self._spend()
        self.snapshot(prov)
        self.iterations += 1
        if not self.script:
            return True
        op = self.script.popleft()
        k = op[0]
        if k == 'seg':
            if prov.dul_socket is not None:
                self.pending += op[1]
        elif k == 'segreset':       # bytes, and right behind them the peer's reset: reads still get the bytes
            if prov.dul_socket is not None:
                self.pending += op[1]
            self.write_reset = True
        elif k == 'close':
            self.eof = True
        elif k == 'reset':
            self.reset = True
        elif k == 'user':
            prov.from_service_user.put(op[1]() if callable(op[1]) else op[1])
        elif k == 'tick':
            self.clock.now += op[1]
        elif k == 'idle':
            pass
        elif k == 'kill':
            return True
        else:
            raise ValueError(op)
        return False

    def snapshot(self, prov):
        self.snapshots.append(observe_state(prov, self))


def state_number(prov):
    from pynetdicom2 import fsm
    names = dict((getattr(fsm.States, 'STA_%d' % k), k) for k in range(1, 14))
    return names.get(prov.state_machine.current_state, 0)


def observe_state(prov, w):
    return dict(st=state_number(prov), sock=prov.dul_socket is not None,
                timer=prov.timer._start_time is not None, raw=len(prov.raw_pdu),
                evq=len(prov.event), wire=len(w.wire), gen=prov.dimse_gen is not None,
                ngiven=prov.to_service_user.qsize())


def run_provider(script, acceptor=True, max_pdu_length=65536, store_in_file=frozenset(), get_file_cb=None,
                 accepted_contexts=None, budget=20000, fail_sends=False):
    """Run the real provider loop over a script.  Returns a dict describing the run."""
    from pynetdicom2 import dulprovider, fsm
    import queue
    import common
    common.note_case(dict(kind='provider-run', acceptor=acceptor, max_pdu_length=max_pdu_length, fail_sends=fail_sends,
                          script=[[((x.hex() if len(x) <= 4096 else '%s...(%d bytes)' % (x[:64].hex(), len(x)))
                                    if isinstance(x, (bytes, bytearray)) else repr(x)[:300]) for x in
                                   (op if isinstance(op, (tuple, list)) else (op,))] for op in script][:400]))
    w = World(script, budget)
    w.fail_sends = fail_sends
    fake_mod = FakeSocketModule(w)
    saved = (fsm.socket, dulprovider.time, dulprovider.select)

    class SelectModule(object):
        select = staticmethod(w.select)

    fsm.socket = fake_mod
    dulprovider.time = w.clock
    dulprovider.select = SelectModule
    try:
        killed_flag = [False]

        class ScriptedProvider(dulprovider.DULServiceProvider):
            def start(self):
                pass

            @property
            def is_killed(self):
                if killed_flag[0]:
                    return True
                if getattr(self, '_in_loop', False):
                    if w.iteration_head(self):
                        killed_flag[0] = True
                        return True
                return False

            @is_killed.setter
            def is_killed(self, v):
                killed_flag[0] = bool(v)

            def _process_incoming(self):
                # observation only: the byte string taken off the buffer and handed to the PDU decoders
                before = self.raw_pdu
                r = dulprovider.DULServiceProvider._process_incoming(self)
                if len(self.raw_pdu) < len(before):
                    w.frames.append(bytes(before[:len(before) - len(self.raw_pdu)]))
                return r

        sock = FakeSocket(w) if acceptor else None
        prov = ScriptedProvider(store_in_file, get_file_cb, sock, max_pdu_length)
        if accepted_contexts is not None:
            prov.accepted_contexts = accepted_contexts

        class IndicationQueue(queue.Queue):
            # nobody reads the indications while the script runs (a slow application): a put that would wait for a
            # reader waits for ever - the world reports it like any other blocking call
            def put(self, item, block=True, timeout=None):
                if self.maxsize > 0 and self.qsize() >= self.maxsize:
                    raise Blocked('put on a full indication queue (%d unread indications)' % self.qsize())
                return queue.Queue.put(self, item, block, timeout)
        prov.to_service_user = IndicationQueue(getattr(prov.to_service_user, 'maxsize', 0))
        w.prov = prov
        prov._in_loop = True
        outcome = 'returned'
        exc = None
        try:
            prov.run()
        except Blocked as e:
            outcome, exc = 'blocked', repr(e)
        except Diverged as e:
            outcome, exc = 'diverged', repr(e)
        except Exception as e:  # noqa
            outcome, exc = 'crashed', e
        prov._in_loop = False
        given = []
        while True:
            try:
                given.append(prov.to_service_user.get(False))
            except queue.Empty:
                break
        return dict(outcome=outcome, exc=exc, wire=list(w.wire), log=list(w.log), given=given,
                    final=observe_state(prov, w), snapshots=w.snapshots, iterations=w.iterations, frames=list(w.frames),
                    unread=len(w.pending), script_left=len(w.script), loop_exited=prov._is_killed.is_set(),
                    refused_writes=w.refused_writes)
    finally:
        fsm.socket, dulprovider.time, dulprovider.select = saved
        common.note_case(None)


# ======================================================================================
# Several providers at once (C20): every provider runs in its own real thread with its own World;
# a baton lets exactly one of them execute one loop iteration at a time, in a seeded order, so the
# interleaving of their iterations is controlled.  The module-level replacements dispatch on the
# calling thread.
# ======================================================================================
import threading


class Baton(object):
    def __init__(self, order):
        self.order = list(order)
        self.pos = 0
        self.holder = None
        self.done = set()
        self.cond = threading.Condition()

    def turn(self, me):
        """Called at every iteration head of provider `me`: give the baton back, wait for the next turn."""
        with self.cond:
            if self.holder == me:
                self.holder = None
                self.cond.notify_all()
            while True:
                while self.pos < len(self.order) and self.order[self.pos] in self.done:
                    self.pos += 1
                if self.pos >= len(self.order):
                    return                      # schedule exhausted: run freely
                if self.holder is None and self.order[self.pos] == me:
                    self.pos += 1
                    self.holder = me
                    return
                self.cond.wait(0.5)

    def finished(self, me):
        with self.cond:
            self.done.add(me)
            if self.holder == me:
                self.holder = None
            self.cond.notify_all()


def run_providers_interleaved(scripts, order, acceptor=True, max_pdu_length=65536):
    """scripts: list of scripts (one provider each); order: list of provider indices (the schedule)."""
    from pynetdicom2 import dulprovider, fsm
    import queue
    tls = threading.local()
    worlds = [World(s) for s in scripts]
    baton = Baton(order)

    class SelectModule(object):
        @staticmethod
        def select(rl, wl, xl, timeout=None):
            return tls.world.select(rl, wl, xl, timeout)

    class ClockModule(object):
        @staticmethod
        def time():
            return tls.world.clock.now

    class SocketModule(object):
        AF_INET = real_socket.AF_INET
        SOCK_STREAM = real_socket.SOCK_STREAM
        error = real_socket.error

        @staticmethod
        def socket(*a, **k):
            return FakeSocket(tls.world)
    saved = (fsm.socket, dulprovider.time, dulprovider.select)
    fsm.socket, dulprovider.time, dulprovider.select = SocketModule, ClockModule, SelectModule
    results = [None] * len(scripts)
    try:
        def worker(k):
            w = worlds[k]
            tls.world = w
            killed_flag = [False]

            class ScriptedProvider(dulprovider.DULServiceProvider):
                def start(self):
                    pass

                @property
                def is_killed(self):
                    if killed_flag[0]:
                        return True
                    if getattr(self, '_in_loop', False):
                        baton.turn(k)
                        if w.iteration_head(self):
                            killed_flag[0] = True
                            return True
                    return False

                @is_killed.setter
                def is_killed(self, v):
                    killed_flag[0] = bool(v)

                def _process_incoming(self):
                    before = self.raw_pdu
                    r = dulprovider.DULServiceProvider._process_incoming(self)
                    if len(self.raw_pdu) < len(before):
                        w.frames.append(bytes(before[:len(before) - len(self.raw_pdu)]))
                    return r
            sock = FakeSocket(w) if acceptor else None
            prov = ScriptedProvider(frozenset(), None, sock, max_pdu_length)
            prov._in_loop = True
            outcome, exc = 'returned', None
            try:
                prov.run()
            except Blocked as e:
                outcome, exc = 'blocked', repr(e)
            except Diverged as e:
                outcome, exc = 'diverged', repr(e)
            except Exception as e:  # noqa
                outcome, exc = 'crashed', e
            prov._in_loop = False
            baton.finished(k)
            given = []
            while True:
                try:
                    given.append(prov.to_service_user.get(False))
                except queue.Empty:
                    break
            results[k] = dict(outcome=outcome, exc=exc, wire=list(w.wire), log=list(w.log), given=given,
                              final=observe_state(prov, w), snapshots=w.snapshots, iterations=w.iterations, frames=list(w.frames),
                              unread=len(w.pending), script_left=len(w.script), loop_exited=prov._is_killed.is_set())
        threads = [threading.Thread(target=worker, args=(k,)) for k in range(len(scripts))]
        for t in threads:
            t.daemon = True
            t.start()
        for t in threads:
            t.join(60)
    finally:
        fsm.socket, dulprovider.time, dulprovider.select = saved
    return results
