"""Driving the real DULServiceProvider.run under the scripted world and rendering runs as Coq
cases for Corr/CorrProvider.v (C03, C05, C12, C13)."""
import common
import pdumodel as pm
import world
from common import cbytes, cbool, clist

IMPORTS = ('From PND Require Import Lib.Text Model.CmdSet Model.Decoder Spec.Ps38Table Model.Fsm Model.Provider '
           'Corr.CorrProvider Model.PduWf Model.Pdu.\n')

VERIFICATION = '1.2.840.10008.1.1'
CT_STORAGE = '1.2.840.10008.5.1.4.1.1.2'
IMPLICIT = '1.2.840.10008.1.2'


# ---------------------------------------------------------------------------- building blocks
def mk_rq(max_len=16384, contexts=((1, VERIFICATION), (3, CT_STORAGE))):
    from pynetdicom2 import pdu, userdataitems
    items = [pdu.ApplicationContextItem('1.2.840.10008.3.1.1.1')]
    for cid, sop in contexts:
        items.append(pdu.PresentationContextItemRQ(cid, pdu.AbstractSyntaxSubItem(sop), [pdu.TransferSyntaxSubItem(IMPLICIT)]))
    items.append(pdu.UserInformationItem([userdataitems.MaximumLengthSubItem(max_len),
                                          userdataitems.ImplementationClassUIDSubItem('1.2.3.4')]))
    p = pdu.AAssociateRqPDU('CALLED', 'CALLING', items)
    p.called_presentation_address = ('127.0.0.1', 11112)
    return p


def mk_ac(max_len=16384, contexts=((1, 0), (3, 0))):
    from pynetdicom2 import pdu, userdataitems
    items = [pdu.ApplicationContextItem('1.2.840.10008.3.1.1.1')]
    for cid, res in contexts:
        items.append(pdu.PresentationContextItemAC(cid, res, pdu.TransferSyntaxSubItem(IMPLICIT if res == 0 else '')))
    items.append(pdu.UserInformationItem([userdataitems.MaximumLengthSubItem(max_len)]))
    return pdu.AAssociateAcPDU('CALLED', 'CALLING', items)


def mk_rj(result=1, source=1, reason=1):
    from pynetdicom2 import pdu
    return pdu.AAssociateRjPDU(result, source, reason)


def mk_abort(source=0, reason=0):
    from pynetdicom2 import pdu
    return pdu.AAbortPDU(source, reason)


def mk_rel_rq():
    from pynetdicom2 import pdu
    return pdu.AReleaseRqPDU()


def mk_rel_rp():
    from pynetdicom2 import pdu
    return pdu.AReleaseRpPDU()


def mk_message(kind, msg_id=1, data_len=0, seed=3):
    """A DIMSE message object ready to be fragmented."""
    from pynetdicom2 import dimsemessages as dm
    if kind == 'echo_rq':
        m = dm.CEchoRQMessage()
        m.message_id = msg_id
        m.sop_class_uid = VERIFICATION
    elif kind == 'echo_rsp':
        m = dm.CEchoRSPMessage()
        m.message_id_being_responded_to = msg_id
        m.sop_class_uid = VERIFICATION
        m.status = 0
    elif kind == 'store_rq':
        m = dm.CStoreRQMessage()
        m.message_id = msg_id
        m.sop_class_uid = CT_STORAGE
        m.affected_sop_instance_uid = '1.2.3.4.5.6.%d' % msg_id
        m.priority = 0
        m.move_originator_aet = 'MOVER'
        m.move_originator_message_id = 0
        m.data_set = common.pat(seed, data_len) if data_len else None
    elif kind == 'store_rsp':
        m = dm.CStoreRSPMessage()
        m.message_id_being_responded_to = msg_id
        m.sop_class_uid = CT_STORAGE
        m.affected_sop_instance_uid = '1.2.3.4.5.6.%d' % msg_id
        m.status = 0
    else:
        raise ValueError(kind)
    m.set_length()
    return m


def fragments(msg, pc, max_len):
    return list(msg.encode(pc, max_len))


# ---------------------------------------------------------------------------- conversations
# a conversation is a list of blocks:
#   ('peer', [pdu objects or raw bytes])   bytes the peer sends, one PDU per element
#   ('user', pdu object) / ('usermsg', [P-DATA pdus])   a primitive of the local user
#   ('tick', seconds) ('close',) ('reset',) ('idle', n) ('kill',)
def conv_acceptor_echo(max_len=16384, n_echo=1):
    c = [('peer', [mk_rq(max_len)]), ('user', mk_ac(max_len))]
    for k in range(n_echo):
        c.append(('peer', fragments(mk_message('echo_rq', k + 1), 1, max_len)))
        c.append(('usermsg', fragments(mk_message('echo_rsp', k + 1), 1, max_len)))
    c += [('peer', [mk_rel_rq()]), ('user', mk_rel_rp()), ('close',)]
    return c


def conv_acceptor_store(max_len=200, data_len=700, both_in_one=False):
    frs = fragments(mk_message('store_rq', 1, data_len), 3, max_len)
    c = [('peer', [mk_rq(max_len)]), ('user', mk_ac(max_len)), ('peer', frs),
         ('usermsg', fragments(mk_message('store_rsp', 1), 3, max_len)),
         ('peer', [mk_rel_rq()]), ('user', mk_rel_rp()), ('close',)]
    return c


def conv_acceptor_pipelined(max_len=16384):
    """Everything the peer has to say arrives back to back."""
    return [('peer', [mk_rq(max_len)]), ('user', mk_ac(max_len)),
            ('peer', fragments(mk_message('echo_rq', 1), 1, max_len) + fragments(mk_message('echo_rq', 2), 1, max_len)),
            ('usermsg', fragments(mk_message('echo_rsp', 1), 1, max_len)),
            ('usermsg', fragments(mk_message('echo_rsp', 2), 1, max_len)),
            ('peer', [mk_rel_rq()]), ('user', mk_rel_rp()), ('close',)]


def conv_acceptor_rq_then_abort():
    return [('peer', [mk_rq(), mk_abort(0, 0)]), ('idle', 3)]


def conv_acceptor_peer_abort(max_len=16384):
    return [('peer', [mk_rq(max_len)]), ('user', mk_ac(max_len)),
            ('peer', fragments(mk_message('echo_rq', 1), 1, max_len)), ('peer', [mk_abort(2, 6)]), ('idle', 2)]


def conv_acceptor_reject():
    return [('peer', [mk_rq()]), ('user', mk_rj(1, 1, 7)), ('close',)]


def conv_acceptor_user_abort(max_len=16384):
    return [('peer', [mk_rq(max_len)]), ('user', mk_ac(max_len)), ('user', mk_abort(2, 0)), ('close',)]


def conv_acceptor_release_by_acceptor(max_len=16384):
    return [('peer', [mk_rq(max_len)]), ('user', mk_ac(max_len)), ('user', mk_rel_rq()),
            ('peer', [mk_rel_rp()]), ('idle', 2)]


def conv_acceptor_collision(max_len=16384):
    # acceptor side of a release collision: Sta7 + A-RELEASE-RQ -> Sta10; A-RELEASE-RP -> Sta12; response -> Sta13
    return [('peer', [mk_rq(max_len)]), ('user', mk_ac(max_len)), ('user', mk_rel_rq()),
            ('peer', [mk_rel_rq()]), ('peer', [mk_rel_rp()]), ('user', mk_rel_rp()), ('close',)]


def conv_acceptor_unexpected(max_len=16384):
    return [('peer', [mk_rq(max_len)]), ('user', mk_ac(max_len)), ('peer', [mk_ac(max_len)]), ('close',)]


def conv_acceptor_unknown_type():
    return [('peer', [mk_rq()]), ('user', mk_ac()), ('peer', [b'\x09\x00\x00\x00\x00\x02ab']), ('close',)]


def conv_requestor_echo(max_len=16384):
    return [('user', mk_rq(max_len)), ('peer', [mk_ac(max_len)]),
            ('usermsg', fragments(mk_message('echo_rq', 1), 1, max_len)),
            ('peer', fragments(mk_message('echo_rsp', 1), 1, max_len)),
            ('user', mk_rel_rq()), ('peer', [mk_rel_rp()]), ('idle', 2)]


def conv_requestor_store(max_len=150, data_len=500):
    return [('user', mk_rq(max_len)), ('peer', [mk_ac(max_len)]),
            ('usermsg', fragments(mk_message('store_rq', 1, data_len), 3, max_len)),
            ('peer', fragments(mk_message('store_rsp', 1), 3, max_len)),
            ('user', mk_rel_rq()), ('peer', [mk_rel_rp()]), ('idle', 2)]


def conv_requestor_rejected():
    return [('user', mk_rq()), ('peer', [mk_rj(1, 1, 3)]), ('idle', 2)]


def conv_requestor_peer_abort(max_len=16384):
    return [('user', mk_rq(max_len)), ('peer', [mk_ac(max_len)]), ('peer', [mk_abort(2, 0)]), ('idle', 2)]


def conv_requestor_peer_release(max_len=16384):
    return [('user', mk_rq(max_len)), ('peer', [mk_ac(max_len)]), ('peer', [mk_rel_rq()]), ('user', mk_rel_rp()),
            ('close',)]


def conv_requestor_collision(max_len=16384):
    # requestor side: Sta7 + A-RELEASE-RQ -> Sta9; response -> Sta11; A-RELEASE-RP -> Sta1
    return [('user', mk_rq(max_len)), ('peer', [mk_ac(max_len)]), ('user', mk_rel_rq()), ('peer', [mk_rel_rq()]),
            ('user', mk_rel_rp()), ('peer', [mk_rel_rp()]), ('idle', 2)]


def conv_requestor_user_abort(max_len=16384):
    return [('user', mk_rq(max_len)), ('peer', [mk_ac(max_len)]), ('user', mk_abort(0, 0)), ('close',)]


ACCEPTOR_CORPUS = [
    ('a_echo', conv_acceptor_echo), ('a_store', conv_acceptor_store), ('a_pipelined', conv_acceptor_pipelined),
    ('a_rq_abort', conv_acceptor_rq_then_abort), ('a_peer_abort', conv_acceptor_peer_abort),
    ('a_reject', conv_acceptor_reject), ('a_user_abort', conv_acceptor_user_abort),
    ('a_release_by_acceptor', conv_acceptor_release_by_acceptor), ('a_collision', conv_acceptor_collision),
    ('a_unexpected', conv_acceptor_unexpected), ('a_unknown_type', conv_acceptor_unknown_type),
]
REQUESTOR_CORPUS = [
    ('r_echo', conv_requestor_echo), ('r_store', conv_requestor_store), ('r_rejected', conv_requestor_rejected),
    ('r_peer_abort', conv_requestor_peer_abort), ('r_peer_release', conv_requestor_peer_release),
    ('r_collision', conv_requestor_collision), ('r_user_abort', conv_requestor_user_abort),
]


def raw_of(x):
    return x if isinstance(x, (bytes, bytearray)) else x.encode()


# ---------------------------------------------------------------------------- conversation -> script
def to_script(conv, cutter=None, lead_idle=False):
    """cutter(block_index, bytes) -> list of segments; None = one PDU per segment."""
    ops = []
    if lead_idle:
        ops.append(('idle',))
    for bi, blk in enumerate(conv):
        k = blk[0]
        if k == 'peer':
            raws = [raw_of(x) for x in blk[1]]
            segs = raws if cutter is None else cutter(bi, b''.join(raws))
            for s in segs:
                ops.append(('seg', bytes(s)))
            for _ in range(len(raws) + 2):
                ops.append(('idle',))
        elif k == 'user':
            ops.append(('user', blk[1]))
            ops += [('idle',), ('idle',)]
        elif k == 'usermsg':
            ops.append(('usermsg', list(blk[1])))
            for _ in range(len(blk[1]) + 2):
                ops.append(('idle',))
        elif k == 'idle':
            ops += [('idle',)] * blk[1]
        elif k == 'tick':
            ops.append(('tick', blk[1]))
            ops.append(('idle',))
        elif k in ('close', 'reset'):
            ops.append((k,))
            ops += [('idle',), ('idle',), ('idle',)]
        elif k == 'kill':
            ops.append(('kill',))
        else:
            raise ValueError(blk)
    return ops


def world_script(ops):
    out = []
    for op in ops:
        if op[0] == 'usermsg':
            frs = op[1]
            out.append(('user', (lambda f: (lambda: iter(list(f))))(frs)))
        else:
            out.append(op)
    return out


# ---------------------------------------------------------------------------- observation -> Coq
def message_table():
    """MESSAGE_TYPE as (command field, element number of the tag read by the class's sop_class_uid)."""
    from pynetdicom2 import dimsemessages as dm
    from pydicom.dataset import Dataset
    rows = []
    for cf in sorted(dm.MESSAGE_TYPE):
        cls = dm.MESSAGE_TYPE[cf]
        ds = Dataset()
        ds.AffectedSOPClassUID = '1.1'
        ds.RequestedSOPClassUID = '2.2'
        ds.CommandField = cf
        got = cls(ds).sop_class_uid
        rows.append((cf, 2 if got == '1.1' else 3 if got == '2.2' else 0))
    return rows


def c_env(mt, store_in_file=(), contexts=(), prefix=b''):
    return '(mkdenv %s %s %s %s)' % (clist(['(%d, %d)' % r for r in mt]),
                                     clist([cbytes(s.encode()) for s in store_in_file]),
                                     clist([str(c) for c in contexts]), cbytes(prefix))


def c_op(op):
    k = op[0]
    if k in ('seg', 'segreset'):
        return '(Seg %s)' % cbytes(op[1])
    if k == 'close':
        return 'PeerClose'
    if k == 'reset':
        return 'PeerReset'
    if k == 'user':
        return '(User (UP %s))' % pm.c_pdu(pm.from_impl(op[1]))
    if k == 'usermsg':
        return '(User (UM %s))' % clist([pm.c_pdu(pm.from_impl(p)) for p in op[1]])
    if k == 'tick':
        return '(Tick %d)' % op[1]
    if k == 'idle':
        return 'Idle'
    if k == 'kill':
        return 'Kill'
    raise ValueError(op)


def c_wop(op):
    """An operation of the world whose transport refuses writes (Model.ProviderW.wop)."""
    if op[0] == 'segreset':
        return '(SegReset %s)' % cbytes(op[1])
    return '(Plain %s)' % c_op(op)


IMPORTS_W = IMPORTS + 'From PND Require Import Model.ProviderW Corr.CorrProviderW.\n'


def run_cases_w(prop, dec, cases, checks, size=40, runner=None, prefix='RunsW'):
    """Like run_cases, for the transport that refuses writes once the peer has reset / closed the connection
    (fail_sends): the cases are `wcase` terms compared with Model.ProviderW."""
    env = c_env(message_table())
    results = []
    terms = []
    for c in cases:
        strict = bool(c.get('fail_sends'))
        r = run(c['ops'], c['acceptor'], c.get('max_len', 65536), **(dict(fail_sends=True) if strict else {}))
        results.append(r)
        terms.append('(mkwc %s %s %d %s %s %s)' % (env, cbool(not c['acceptor']), c.get('max_len', 65536), cbool(strict),
                                                   clist([c_wop(op) for op in c['ops']]), obs_term(r)))
    runner = runner or common.CoqRun(prop)
    failing, broken, n_obl, n_ok = common.run_sharded(runner, prefix, IMPORTS_W, 'wcase', terms, checks, size=size)
    dec.obligations(n_obl, n_ok)
    return runner, results, failing, broken


def run_pairs_w(prop, dec, pairs, checks, runner=None, prefix='PairsW', size=4):
    """pairs of cases (two deliveries of the same stream) on the transport of Model.ProviderW: `wpair` terms."""
    env = c_env(message_table())
    results = []
    terms = []
    for a, b in pairs:
        sub = []
        rr = []
        for c in (a, b):
            strict = bool(c.get('fail_sends'))
            r = run(c['ops'], c['acceptor'], c.get('max_len', 65536), **(dict(fail_sends=True) if strict else {}))
            rr.append(r)
            sub.append('(mkwc %s %s %d %s %s %s)' % (env, cbool(not c['acceptor']), c.get('max_len', 65536), cbool(strict),
                                                     clist([c_wop(op) for op in c['ops']]), obs_term(r)))
        results.append(tuple(rr))
        terms.append('(mkwp %s %s)' % tuple(sub))
    runner = runner or common.CoqRun(prop)
    failing, broken, n_obl, n_ok = common.run_sharded(runner, prefix, IMPORTS_W, 'wpair', terms, checks, size=size)
    dec.obligations(n_obl, n_ok)
    return runner, results, failing, broken


def reset_scenarios(prefixes, rng, per_state):
    """The peer RESETS the connection (its reset right behind its last bytes) while the provider still has something
    to write: its A-ABORT in answer to an unrecognised / unexpected / unusable PDU, or the local user's PDUs while an
    incomplete PDU of the peer is still being read (small receive size).  The kernel refuses those writes."""
    junk = b'\xff\x00\x00\x00\x00\x04junk'
    bad_data = b'\x04\x00\x00\x00\x00\x0a\x00\x00\x00\x06\x01\x07abcd'
    long_partial = b'\x04\x00\x00\x00\x03\xe8' + bytes(range(40))
    peer = [('junk', junk), ('unusable-pdata', bad_data), ('unexpected-ac', mk_ac().encode()),
            ('unexpected-rq', mk_rq().encode()), ('release-rq', mk_rel_rq().encode()),
            ('release-rp', mk_rel_rp().encode()), ('abort', mk_abort(2, 0).encode()),
            ('partial-long-pdu', long_partial), ('nothing', b''), ('two-pdus', mk_rel_rq().encode() + junk)]
    local = [('idle', lambda: [('idle',)]), ('user-abort', lambda: [('user', mk_abort(0, 0))]),
             ('user-release-rq', lambda: [('user', mk_rel_rq())]), ('user-release-rp', lambda: [('user', mk_rel_rp())]),
             ('user-message', lambda: [('usermsg', fragments(mk_message('echo_rq', 3), 1, 16384))]),
             ('user-long-message', lambda: [('usermsg', fragments(mk_message('store_rq', 5, 300), 3, 128))]),
             ('user-ac', lambda: [('user', mk_ac())]), ('user-rj', lambda: [('user', mk_rj())]),
             ('tick', lambda: [('tick', 11)])]
    cases = []
    for plabel, acceptor, pre in prefixes:
        for name, b in peer[:2]:      # the two scenarios of the first version, in every state
            cases.append(dict(label=[plabel, name + '-then-reset'], acceptor=acceptor, fail_sends=True,
                              ops=list(pre) + [('segreset', b)] + [('idle',)] * 4))
        for _ in range(per_state):
            name, b = rng.choice(peer)
            max_len = rng.choice([65536, 65536, 16, 16, 7])
            before = [f() for _n, f in [rng.choice(local) for _k in range(rng.choice([0, 0, 1]))]]
            after = [(n, f()) for n, f in [rng.choice(local) for _k in range(rng.choice([0, 1, 2, 3]))]]
            ops = list(pre) + [op for l in before for op in l] + [('segreset', b)] + \
                [op for _n, l in after for op in l]
            # enough iterations to read everything the peer sent through the receive size, and to drain a generator
            n_bytes = sum(len(op[1]) for op in ops if op[0] in ('seg', 'segreset'))
            ops = ops + [('idle',)] * (n_bytes // max_len + 12)
            cases.append(dict(label=[plabel, name + '-then-reset', 'recv=%d' % max_len] + [n for n, _l in after],
                              acceptor=acceptor, fail_sends=True, max_len=max_len, ops=ops))
    return cases


def given_term(x):
    from pynetdicom2 import dsutils
    if isinstance(x, tuple):
        msg, pc = x
        ds = msg.data_set
        in_file = False
        if ds is None:
            data = b''
        elif isinstance(ds, (bytes, bytearray)):
            data = bytes(ds)
        else:
            in_file = True
            pos = ds.tell()
            ds.seek(0)
            data = ds.read()
            ds.seek(pos)
        cmd = dsutils.encode(msg.command_set, True, True)
        return '(IMsg (DMsg %d %s %s %s %d))' % (type(msg).command_field, cbytes(cmd), cbytes(data), cbool(in_file), pc)
    return '(IPdu %s)' % pm.c_pdu(pm.from_impl(x))


OUTCOME = {'returned': 0, 'crashed': 1, 'blocked': 2, 'diverged': 3}


def obs_term(r):
    snaps = list(r['snapshots'][1:])
    if len(snaps) < r['consumed']:
        snaps.append(r['final'])
    # given counts are not in the implementation's snapshots; reconstruct from the queue order is not
    # possible, so the harness records them: see run()
    parts = []
    for s in snaps:
        parts.append('(%d, %s, %s, %d, %d, %d)' % (s['st'], cbool(s['sock']), cbool(s['timer']), s['raw'], s['wire'], s['ngiven']))
    return '(mkobs %d %s %s %s %s)' % (OUTCOME[r['outcome']], clist([cbytes(w) for w in r['wire']]),
                                       clist([given_term(g) for g in r['given']]), clist(parts),
                                       clist([cbytes(x) for x in r['frames']]))


def run(ops, acceptor, max_len=65536, **kw):
    r = world.run_provider(world_script(ops), acceptor=acceptor, max_pdu_length=max_len, **kw)
    r['final']['ngiven'] = len(r['given'])
    r['consumed'] = len(ops) - r['script_left']
    return r


def case_term(env_term, acceptor, max_len, ops, r, ref=None):
    o = obs_term(r)
    return '(mkpc %s %s %d %s %s %s)' % (env_term, cbool(not acceptor), max_len, clist([c_op(op) for op in ops]),
                                         o, obs_term(ref) if ref is not None else o)


def summary(r):
    return dict(outcome=r['outcome'], exc=repr(r['exc']), final=r['final'], wire=[w[:12].hex() for w in r['wire']],
                given=[repr(g)[:80] for g in r['given']], iterations=r['iterations'])


# ---------------------------------------------------------------------------- generic case runner
def run_cases(prop, dec, cases, checks, size=40, refs=None, runner=None, prefix='Runs'):
    """cases: list of dict(label=..., acceptor=bool, ops=[...], ref=<name or None>, max_len=int).
    refs: dict name -> ops (reference deliveries, C03).  Returns (results, failing, broken)."""
    mt = message_table()
    env = c_env(mt)
    preamble = ''
    ref_runs = {}
    if refs:
        defs = []
        for name, (acceptor, ops, max_len) in sorted(refs.items()):
            r = run(ops, acceptor, max_len)
            ref_runs[name] = r
            defs.append('Definition %s : obs := %s.\n' % (name, obs_term(r)))
        preamble = ''.join(defs)
    results = []
    terms = []
    for c in cases:
        r = run(c['ops'], c['acceptor'], c.get('max_len', 65536), **(dict(fail_sends=True) if c.get('fail_sends') else {}))
        results.append(r)
        o = obs_term(r)
        terms.append('(mkpc %s %s %d %s %s %s)' % (env, cbool(not c['acceptor']), c.get('max_len', 65536),
                                                   clist([c_op(op) for op in c['ops']]), o,
                                                   c['ref'] if c.get('ref') else o))
    runner = runner or common.CoqRun(prop)
    failing, broken, n_obl, n_ok = common.run_sharded(runner, prefix, IMPORTS, 'pcase', terms, checks, size=size,
                                                      preamble=preamble)
    dec.obligations(n_obl, n_ok)
    return runner, results, failing, broken, ref_runs


# ---------------------------------------------------------------------------- shrinking a failing history
_minimised = [0]


def minimise(prop, case, check, max_rounds=60, budget_s=240):
    """Delta debugging over the operation list of a failing case: a sub-history (operations removed, order
    kept) on which the REAL loop still fails the same obligation.  Every round evaluates all its candidates
    on the implementation and in one Coq file.  Used only after a violation was found."""
    import time as _time
    name, coqname = check[0], check[1]
    ops = list(case['ops'])
    acceptor = case['acceptor']
    max_len = case.get('max_len', 65536)
    env = c_env(message_table())
    t0 = _time.time()

    def failing_of(cands):
        terms = []
        for ops_c in cands:
            r = run(ops_c, acceptor, max_len)
            o = obs_term(r)
            terms.append('(mkpc %s %s %d %s %s %s)' % (env, cbool(not acceptor), max_len,
                                                       clist([c_op(op) for op in ops_c]), o, o))
        # a candidate counts when the implementation fails the obligation on it AND the model's own run of the same
        # operations satisfies it: the oracles are written for the scenarios of the checks (e.g. "ends at rest" after
        # the peer closed), and a sub-history may simply not be such a scenario
        preamble = ('Definition model_case (c : pcase) : pcase :=\n'
                    '  let o := model_obs (pc_env c) (pc_req c) (pc_max c) (pc_ops c) in\n'
                    '  mkpc (pc_env c) (pc_req c) (pc_max c) (pc_ops c) o o.\n'
                    'Definition shrink_chk (c : pcase) : bool := negb (negb (%s c) && %s (model_case c)).\n'
                    % (coqname, coqname))
        runner = common.CoqRun(prop + '-min')
        failing, broken, _a, _b = common.run_sharded(runner, 'Min', IMPORTS, 'pcase', terms, [(name, 'shrink_chk')],
                                                     size=max(1, len(terms)), preamble=preamble)
        runner.cleanup()
        return [] if broken else failing[name]
    n = 2
    rounds = 0
    while len(ops) >= 2 and rounds < max_rounds and _time.time() - t0 < budget_s:
        rounds += 1
        size = max(1, len(ops) // n)
        chunks = [ops[i:i + size] for i in range(0, len(ops), size)]
        cands = [sum(chunks[:i] + chunks[i + 1:], []) for i in range(len(chunks))]
        bad = failing_of(cands)
        if bad:
            ops = cands[bad[0]]
            n = max(n - 1, 2)
        elif size == 1:
            break
        else:
            n = min(len(ops), n * 2)
    return ops, rounds


def with_minimal(prop, record, case, check, limit=2):
    """Adds a shrunk history to the first `limit` violation records of a run (cases with a reference run, C03,
    are compared with another run and are left as they are)."""
    if _minimised[0] >= limit or case.get('ref'):
        return record
    _minimised[0] += 1
    try:
        ops, rounds = minimise(prop, case, check)
        record = dict(record, minimal_history=short_ops(ops), minimal_history_length=len(ops),
                      original_history_length=len(case['ops']), shrinking_rounds=rounds)
    except Exception as e:  # noqa  (shrinking is a convenience: never lose the violation over it)
        record = dict(record, shrinking_failed=repr(e))
    return record


# ---------------------------------------------------------------------------- replayable histories
def ops_to_json(ops):
    out = []
    for op in ops:
        k = op[0]
        if k in ('seg', 'segreset'):
            out.append([k, bytes(op[1]).hex()])
        elif k == 'user':
            out.append(['user', bytes(op[1].encode()).hex()])
        elif k == 'usermsg':
            out.append(['usermsg', [bytes(x.encode()).hex() for x in op[1]]])
        elif k == 'tick':
            out.append(['tick', op[1]])
        else:
            out.append([k])
    return out


def ops_from_json(js):
    from pynetdicom2 import dulprovider

    def pdu_of(hexs):
        raw = bytes.fromhex(hexs)
        x = dulprovider.PDU_TYPES[raw[0]][0].decode(raw)
        if raw[0] == 1:
            x.called_presentation_address = ('127.0.0.1', 11112)      # as mk_rq: AE-1 connects the (fake) transport
        return x
    out = []
    for op in js:
        k = op[0]
        if k in ('seg', 'segreset'):
            out.append((k, bytes.fromhex(op[1])))
        elif k == 'user':
            out.append(('user', pdu_of(op[1])))
        elif k == 'usermsg':
            out.append(('usermsg', [pdu_of(x) for x in op[1]]))
        elif k == 'tick':
            out.append(('tick', op[1]))
        else:
            out.append((k,))
    return out


def replayable(record, case, ref=None, oracle=None):
    """Adds the history in a form `bin/check --replay` can run again (ref: (acceptor, ops, max_len) of the
    reference delivery a C03 case is compared with)."""
    try:
        out = dict(record, replay_case=dict(acceptor=case['acceptor'], max_len=case.get('max_len', 65536),
                                            ops=ops_to_json(case['ops']), fail_sends=bool(case.get('fail_sends'))))
        if ref is not None:
            out['replay_ref'] = dict(acceptor=ref[0], ops=ops_to_json(ref[1]), max_len=ref[2])
        if oracle is not None:
            out['replay_oracle'] = oracle
        return out
    except Exception as e:  # noqa
        return dict(record, replay_case=None, replay_case_error=repr(e))


def replay_case(prop, rec, checks):
    """Runs the recorded history (the shrunk one too, if any) on the CURRENT tree and evaluates the obligations."""
    rc = rec.get('replay_case')
    print('property:', rec.get('property'), ' kind:', rec.get('kind'), ' label:', rec.get('label') or rec.get('history'))
    if not rc:
        print('this record carries no replayable history (recorded result follows)')
        print(rec.get('result'))
        return 0
    env = c_env(message_table())
    status = 0
    variants = [('recorded history', ops_from_json(rc['ops']))]
    for title, ops in variants:
        strict = bool(rc.get('fail_sends'))
        r = run(ops, rc['acceptor'], rc['max_len'], **(dict(fail_sends=True) if strict else {}))
        o = obs_term(r)
        oref = o
        if rec.get('replay_ref'):
            rr = rec['replay_ref']
            oref = obs_term(run(ops_from_json(rr['ops']), rr['acceptor'], rr['max_len']))
        term = '(mkpc %s %s %d %s %s %s)' % (env, cbool(not rc['acceptor']), rc['max_len'],
                                             clist([c_op(op) for op in ops]), o, oref)
        runner = common.CoqRun(prop + '-replay')
        if strict:       # the transport refuses writes once the peer has reset the connection: Model.ProviderW
            term = '(mkwc %s %s %d true %s %s)' % (env, cbool(not rc['acceptor']), rc['max_len'],
                                                   clist([c_wop(op) for op in ops]), o)
            checks = [(c[0], c[1] if c[1].endswith('_w') else c[1] + '_w') + tuple(c[2:]) for c in checks]
            failing, broken, _a, _b = common.run_sharded(runner, 'Replay', IMPORTS_W, 'wcase', [term], checks, size=1)
        else:
            failing, broken, _a, _b = common.run_sharded(runner, 'Replay', IMPORTS, 'pcase', [term], checks, size=1)
        runner.cleanup()
        print('%s (%d operations): %s' % (title, len(ops), short_ops(ops)))
        print('  implementation now:', summary(r))
        for chk in checks:
            bad = bool(failing[chk[0]])
            print('  obligation %-12s %s' % (chk[1], 'FAILS' if bad else 'holds'))
            if bad and not (len(chk) > 2 and chk[2] == 'stat'):
                status = 1
        if broken:
            print('  case file did not compile:', broken[0][1][-600:])
            status = 1
    if rec.get('minimal_history'):
        print('shrunk history recorded with the violation:', rec['minimal_history'])
    return status


def short_ops(ops):
    out = []
    for op in ops:
        if op[0] in ('seg', 'segreset'):
            out.append('%s:%s' % (op[0], bytes(op[1]).hex()))
        elif op[0] == 'user':
            out.append('user:%s' % type(op[1]).__name__)
        elif op[0] == 'usermsg':
            out.append('usermsg:%d' % len(op[1]))
        elif op[0] == 'tick':
            out.append('tick:%d' % op[1])
        else:
            out.append(op[0])
    return out
