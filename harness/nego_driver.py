"""Drivers for the negotiation code (C09, C10, C11): real AssociationAcceptor / AssociationRequester /
AEBase objects with a stub provider."""
import itertools

import common
import impl
import pdumodel as pm
from common import cbytes, cbool, clist

IMPORTS = ('From PND Require Import Lib.Text Model.Negotiation Model.NegoPdu Model.Dimse Corr.CorrNego '
           'Model.PduWf Model.Pdu.\n')

TS_UNIVERSE = ['1.2.840.10008.1.2', '1.2.840.10008.1.2.1', '1.2.840.10008.1.2.2', '1.2.840.10008.1.2.4.50',
               '1.2.840.10008.1.2.4.201', '1.3.46.670589.33.1.4.1']     # HTJ2K (newer than pydicom's dictionary), a private one
ABS_UNIVERSE = ['1.2.840.10008.1.1', '1.2.840.10008.5.1.4.1.1.2', '1.2.840.10008.5.1.4.1.2.1.1', '1.2.3.999']


class StubAE(object):
    def __init__(self, supported_scp, supported_ts):
        self.supported_scp = supported_scp
        self.supported_ts = frozenset(supported_ts)
        self.timeout = 1


def served_service(asce, ctx, msg):
    asce._served.append((ctx.id, str(ctx.sop_class), str(ctx.supported_ts)))


def place_maxlen(subs, maxlen, pos):
    """The peer's Maximum Length sub-item among its other user-information sub-items: PS3.7 Annex D fixes no order.
    pos: 'first' | 'second' | 'last' | 'absent' (a peer that announces nothing: no limit)"""
    subs = list(subs)
    if pos == 'first':
        return [maxlen] + subs
    if pos == 'second' and subs:
        return subs[:1] + [maxlen] + subs[1:]
    if pos == 'absent':
        return subs
    return subs + [maxlen]


MAXLEN_POS = ['first', 'second', 'last', 'first', 'absent', 'last', 'second']


def new_acceptor(ae, dul, max_len):
    """An AssociationAcceptor built by its own __init__ (so that it has whatever attributes the class gives its
    instances), with the provider replaced by the given stub and without the socketserver machinery."""
    from pynetdicom2 import asceprovider, dulprovider
    base = asceprovider.socketserver.StreamRequestHandler
    saved = (dulprovider.DULServiceProvider, base.__init__)
    if not hasattr(ae, 'get_file'):
        ae.get_file = None
    dulprovider.DULServiceProvider = lambda *a, **k: dul
    base.__init__ = lambda self, *a, **k: None
    try:
        acc = asceprovider.AssociationAcceptor(None, ('127.0.0.1', 0), ae, max_len)
    except Exception:  # noqa  (a constructor with another signature: build the object as the other drivers do)
        acc = object.__new__(asceprovider.AssociationAcceptor)
        acc.ae = ae
        acc.max_pdu_length = max_len
        acc.sop_classes_as_scp = {}
        acc.accepted_contexts = {}
        acc.remote_ae = b''
        acc.is_killed = False
        acc.association_established = False
    finally:
        dulprovider.DULServiceProvider, base.__init__ = saved
    acc.dul = dul
    return acc


def make_rq(proposals, peer_max, called='CALLED', calling='CALLING', extra_subs=(), maxlen_pos='first'):
    from pynetdicom2 import pdu, userdataitems
    items = [pdu.ApplicationContextItem('1.2.840.10008.3.1.1.1')]
    for cid, abs_, tss in proposals:
        items.append(pdu.PresentationContextItemRQ(cid, pdu.AbstractSyntaxSubItem(abs_),
                                                   [pdu.TransferSyntaxSubItem(t) for t in tss]))
    subs = [userdataitems.ImplementationClassUIDSubItem('1.2.3.4')] + list(extra_subs)
    if maxlen_pos != 'first':
        subs.append(userdataitems.ImplementationVersionNameSubItem('OTHER_TK_1'))
    items.append(pdu.UserInformationItem(place_maxlen(subs, userdataitems.MaximumLengthSubItem(peer_max), maxlen_pos)))
    return pdu.AAssociateRqPDU(called, calling, items)


def c_cfg(served, ts):
    return '(mkacfg %s %s)' % (clist([cbytes(s.encode()) for s in served]), clist([cbytes(t.encode()) for t in ts]))


def c_table(rows):
    return clist(['(%d, %s, %s)' % (i, cbytes(str(c).encode()), cbytes(str(t).encode())) for i, c, t in rows])


TITLES = [('CALLED', 'CALLING'), ('ARCHIVE         ', 'WORKSTATION 1   '), (' LEAD', 'TRAIL '), ('A', 'SIXTEEN_CHARS_AE'),
          ('IN NER', 'X' * 16)]


def observe_accept(served, ts, own, proposals, peer_max, variant=0):
    """Run the real accept(); returns the Coq case term and a human summary.  variant > 0: AE titles padded with
    spaces (as PS3.8 prescribes and most toolkits send) / with leading or inner spaces / of full length, and SCP/SCU
    role selection sub-items for some of the proposed abstract syntaxes (what an AE that is also an SCP sends)."""
    from pynetdicom2 import asceprovider, exceptions, dimsemessages, userdataitems
    acc = object.__new__(asceprovider.AssociationAcceptor)
    acc.ae = StubAE(dict((s, served_service) for s in served), ts)
    if variant in (2, 4, 6) and served:
        scu_first = list(served[:1 + variant // 3]) + [p[1] for p in proposals[:1] if p[1] not in served]
        mutable = list(ts)
        real = make_entity([('scu', scu_first), ('scp', list(served)), ('scu', [])], mutable, own)   # 3 calls: supported_ts given explicitly
        for extra_ts in TS_UNIVERSE:                      # the caller goes on using ITS list: no business of the entity's
            if extra_ts not in mutable:
                mutable.append(extra_ts)
        for c in list(real.supported_scp):
            real.supported_scp[c] = served_service
        real.timeout = 1
        acc.ae = real
    acc.dul = impl.StubDul()
    acc.max_pdu_length = own
    acc.sop_classes_as_scp = {}
    acc.accepted_contexts = {}
    acc.remote_ae = b''
    acc.is_killed = False
    acc._served = []
    called, calling = TITLES[variant % len(TITLES)]
    extra = []
    if variant:
        seen_abs = []
        for k, (_cid, abs_, _tss) in enumerate(proposals):
            if abs_ not in seen_abs and (k + variant) % 2 == 0:
                seen_abs.append(abs_)
                extra.append(userdataitems.ScpScuRoleSelectionSubItem(abs_, (variant + k) % 2, 1 - (variant // 2) % 2))
    rq = make_rq(proposals, peer_max, called, calling, extra, MAXLEN_POS[variant % 7] if variant else 'first')
    rq_model = pm.from_impl(rq)
    err = None
    # through _establish(): the request comes from the provider, the application hook sees it, accept() answers
    acc.dul.receive = lambda timeout=None: rq
    acc.ae.on_association_request = lambda asce, assoc_rq: None
    acc.association_established = False
    try:
        acc._establish()
    except Exception as e:  # noqa
        err = type(e).__name__
    ac = acc.dul.sent[0] if acc.dul.sent else None
    table = [(v[0], v[1], v[2]) for _k, v in acc.sop_classes_as_scp.items()]
    ctx_same = (acc.dul.accepted_contexts is acc.accepted_contexts or
                dict(acc.dul.accepted_contexts) == dict(acc.accepted_contexts)) and \
        [(c.id, str(c.sop_class), str(c.supported_ts)) for c in acc.accepted_contexts.values()] == \
        [(i, str(c), str(t)) for i, c, t in table]
    # _loop dispatch: a message arriving on context id is served iff id is in the table (with its entry)
    dispatch_ok = True
    ids = sorted(set([p[0] for p in proposals] + [199]))
    for cid in ids:
        entry = acc.sop_classes_as_scp.get(cid)
        msg = dimsemessages.CEchoRQMessage()
        msg.sop_class_uid = entry[1] if entry else (proposals[0][1] if proposals else '1.2')
        msg.message_id = 1
        queue = [(msg, cid)]

        def receive(q=queue):
            if q:
                return q.pop(0)
            acc.is_killed = True
            raise exceptions.DCMTimeoutError()
        acc.receive = receive
        acc.is_killed = False
        acc._served = []
        try:
            acc._loop()
        except exceptions.ClassNotSupportedError:
            served_now = False
        except exceptions.DCMTimeoutError:
            served_now = bool(acc._served)
        else:
            served_now = bool(acc._served)
        if entry:
            ok = acc._served == [(entry[0], str(entry[1]), str(entry[2]))]
        else:
            ok = not served_now
        dispatch_ok = dispatch_ok and ok
    # one _loop() serving a whole sequence of requests: every accepted id several times, in a mixed order (the
    # same abstract syntax may have been accepted on several ids; each request is served on the id it arrived on)
    accepted_ids = sorted(acc.sop_classes_as_scp)
    if accepted_ids:
        order = (accepted_ids + accepted_ids[::-1] + accepted_ids[::2] + accepted_ids)[:40]
        queue = []
        for cid in order:
            msg = dimsemessages.CEchoRQMessage()
            msg.sop_class_uid = acc.sop_classes_as_scp[cid][1]
            msg.message_id = 1
            queue.append((msg, cid))

        def receive_all(q=queue):
            if q:
                return q.pop(0)
            acc.is_killed = True
            raise exceptions.DCMTimeoutError()
        acc.receive = receive_all
        acc.is_killed = False
        acc._served = []
        try:
            acc._loop()
        except (exceptions.DCMTimeoutError, exceptions.ClassNotSupportedError):
            pass
        want = [(acc.sop_classes_as_scp[cid][0], str(acc.sop_classes_as_scp[cid][1]), str(acc.sop_classes_as_scp[cid][2]))
                for cid in order]
        dispatch_ok = dispatch_ok and acc._served == want
    term = '(mkac %s %d %s %s %s %s %d %s %s)' % (
        c_cfg(served, ts), own, pm.c_pdu(rq_model),
        'None' if ac is None else '(Some %s)' % pm.c_pdu(pm.from_impl(ac)),
        c_table(table), cbool(ctx_same), acc.max_pdu_length if isinstance(acc.max_pdu_length, int) else 0,
        cbytes(pm.b_(acc.remote_ae)), cbool(dispatch_ok))
    human = dict(served=served, ts=ts, own_max=own, peer_max=peer_max, proposals=proposals, error=err, variant=variant,
                 titles=(called, calling), role_selection=[(str(x.sop_class_uid), x.scu_role, x.scp_role) for x in extra],
                 answers=[(i.context_id, i.result_reason, str(i.ts_sub_item.name)) for i in (ac.variable_items[1:-1] if ac else [])],
                 table=[(i, str(c), str(t)) for i, c, t in table], new_max=acc.max_pdu_length, dispatch_ok=dispatch_ok)
    return term, human


# ---------------------------------------------------------------------------- requester side
class ReplyDul(impl.StubDul):
    def __init__(self, reply_fn):
        impl.StubDul.__init__(self)
        self.reply_fn = reply_fn

    def receive(self, timeout):
        return self.reply_fn(self.sent[-1])


def scu_service(asce, ctx, *a):
    return (ctx.id, str(ctx.sop_class), str(ctx.supported_ts))


def make_entity(calls, ts, own):
    """calls: list of ('scu'|'scp', [classes]).  Returns a real AE (not listening)."""
    from pynetdicom2 import applicationentity

    class Svc(object):
        def __init__(self, classes):
            self.sop_classes = list(classes)

        def __call__(self, *a):
            return scu_service(*a)
    if len(calls) % 2 == 0 and ts:
        # transfer syntaxes configured the other documented way: a subclass overriding the class attribute default_ts
        from pydicom import uid as _uid
        sub = type('AEWithDefaults', (applicationentity.AE,), dict(default_ts=[_uid.UID(t) for t in ts]))
        ae = sub('LOCAL', 0, max_pdu_length=own, bind_and_activate=False)
    else:
        ae = applicationentity.AE('LOCAL', 0, supported_ts=ts, max_pdu_length=own, bind_and_activate=False)
    try:
        for kind, classes in calls:
            if kind == 'scu':
                ae.add_scu(Svc(classes), list(classes))
            else:
                ae.add_scp(Svc(classes))
    finally:
        ae.server_close()
    return ae


def make_ac(rq, answers, peer_max, first_sub=None):
    """answers: dict id -> (result, ts)"""
    from pynetdicom2 import pdu, userdataitems
    items = [pdu.ApplicationContextItem('1.2.840.10008.3.1.1.1')]
    for cid, (res, ts) in answers:
        items.append(pdu.PresentationContextItemAC(cid, res, pdu.TransferSyntaxSubItem(ts)))
    pos = ['first', 'second', 'first', 'last', 'first', 'absent'][(peer_max + len(items)) % 6]
    others = [] if pos == 'first' else [userdataitems.ImplementationClassUIDSubItem('1.2.3.4.5'),
                                        userdataitems.ImplementationVersionNameSubItem('OTHER_TK_1')]
    items.append(pdu.UserInformationItem(place_maxlen(others, userdataitems.MaximumLengthSubItem(peer_max), pos)))
    return pdu.AAssociateAcPDU(rq.called_ae_title, rq.calling_ae_title, items)


def observe_request(calls, ts, own, answer_fn, peer_max, lookups_extra=()):
    from pynetdicom2 import asceprovider, exceptions
    ae = make_entity(calls, ts, own)
    ctxs = [(k, str(v.sop_class)) for k, v in ae.context_def_list.items()]
    ts_order = [str(t) for t in ae.supported_ts]
    if set(ts_order) != set(str(t) for t in ts):
        ts_order = [str(t) for t in ts]          # the entity does not hold what was configured: the oracle goes by the configuration
    assoc = object.__new__(asceprovider.AssociationRequester)
    assoc.ae = ae
    assoc.max_pdu_length = own
    assoc.accepted_contexts = {}
    assoc.association_established = False
    assoc.context_def_list = ae.copy_context_def_list()
    assoc.remote_ae = dict(address='127.0.0.1', port=104, aet='REMOTE')
    assoc.sop_classes_as_scu = {}
    holder = {}

    def reply(rq):
        holder['ac'] = make_ac(rq, answer_fn(ctxs, ts_order), peer_max)
        return holder['ac']
    assoc.dul = ReplyDul(reply)
    err = None
    try:
        assoc.request()
    except Exception as e:  # noqa
        err = type(e).__name__
    rq = assoc.dul.sent[0] if assoc.dul.sent else None
    encodes = False
    if rq is not None:
        try:
            rq.encode()
            encodes = True
        except Exception:
            encodes = False
    usable = sorted([(k, str(v.sop_class), str(v.supported_ts)) for k, v in assoc.accepted_contexts.items()])
    scu_classes = [str(c) for c in ae.supported_scu.keys()]
    lookups = []
    for cls in sorted(set([c for _k, c in ctxs] + list(lookups_extra))):
        try:
            f = assoc.get_scu(cls)
            r = f()
            lookups.append((cls, (r[0], r[2])))
        except exceptions.ClassNotSupportedError:
            lookups.append((cls, None))
    user_info = [('MaxLen', 0, 4, own), ('ImplClass', 0, str(asceprovider.IMPLEMENTATION_UID).encode())]
    for c in ae.supported_scp.keys():
        user_info.append(('RoleSel', 0, str(c).encode(), 0, 1))
    ac = holder.get('ac')
    term = '(mkrc %s %s %s %s %s %d %s %s %s %s %s %s %d %s)' % (
        clist([clist([cbytes(c.encode()) for c in classes]) for _k, classes in calls]),
        clist([cbytes(c.encode()) for c in scu_classes]),
        clist([cbytes(t.encode()) for t in ts_order]),
        cbytes(b'REMOTE'), cbytes(b'LOCAL'), own,
        clist([pm.c_sub(s) for s in user_info]),
        clist(['(%d, %s)' % (k, cbytes(c.encode())) for k, c in ctxs]),
        'None' if rq is None else '(Some %s)' % pm.c_pdu(pm.from_impl(rq)),
        cbool(encodes),
        pm.c_pdu(pm.from_impl(ac)) if ac is not None else '(RelRq 0 0)',
        c_table(usable), assoc.max_pdu_length if isinstance(assoc.max_pdu_length, int) else 0,
        clist(['(%s, %s)' % (cbytes(c.encode()), 'None' if r is None else '(Some (%d, %s))' % (r[0], cbytes(r[1].encode())))
               for c, r in lookups]))
    human = dict(calls=[(k, len(c)) for k, c in calls], n_contexts=len(ctxs), ts=ts, own=own, peer_max=peer_max,
                 ids=[k for k, _c in ctxs][:8] + (['...', ctxs[-1][0]] if len(ctxs) > 8 else []),
                 rq_encodes=encodes, error=err, usable=usable[:6],
                 answers=[(i, r, t) for i, (r, t) in (answer_fn(ctxs, ts_order))][:8], lookups=lookups[:6],
                 new_max=assoc.max_pdu_length)
    return term, human
