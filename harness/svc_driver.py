"""A laboratory for the service classes (sopclass.py): real service callables run against a real
Association object (created without __init__) whose provider is a stub that captures what
Association.send hands over and whose receive() is scripted.  Used by C16, C17, C19 (and C15)."""
import collections
import contextlib

import common
import impl
from common import cbytes, cbool, clist

IMPLICIT = '1.2.840.10008.1.2'


class Outcome(object):
    """What an application handler does: return a status or raise EventHandlingError."""

    def __init__(self, status=None, error=False):
        self.status = status
        self.error = error


class SubAssoc(object):
    """The association qr_move_scp / n_action open towards the destination."""

    def __init__(self, lab, remote_ae):
        self.lab = lab
        self.remote_ae = remote_ae
        self.association_established = True
        self.sent = []

    def get_scu(self, sop_class):
        """The library's own storage_scu on this sub-association: the C-STORE request is really built and
        encoded (so that values that cannot be encoded surface), the response is the scripted one."""
        import functools
        from pynetdicom2 import sopclass
        from pydicom import uid
        self.ae = self.lab.ae
        ctx = self.lab.ctx(1, str(sop_class), IMPLICIT)
        return functools.partial(sopclass.storage_scu, self, ctx)

    def send(self, msg, pc):
        from pynetdicom2 import dsutils
        msg.set_length()
        for _p in msg.encode(pc, 16384):      # encode as Association.send would hand it to the provider
            pass
        cs = msg.command_set
        self.lab.sub_sent.append((msg, pc))
        self.lab.sub_ops.append(dict(dest=self.remote_ae, sop_class=str(cs.AffectedSOPClassUID),
                                     instance=str(cs.AffectedSOPInstanceUID), msg_id=int(cs.MessageID)))

    def receive(self):
        from pynetdicom2 import dimsemessages
        k = len(self.lab.sub_ops) - 1
        code = self.lab.sub_outcomes[k] if 0 <= k < len(self.lab.sub_outcomes) else 0
        rsp = dimsemessages.CStoreRSPMessage()
        rsp.status = code
        return rsp, 1

    def release(self):
        self.lab.sub_log.append('release')
        if getattr(self.lab, 'release_raises', False):
            # a destination that confirms the release later than the time-out: the real release() raises
            from pynetdicom2 import exceptions
            raise exceptions.DCMTimeoutError()

    def abort(self):
        self.lab.sub_log.append('abort')

    def kill(self):
        self.lab.sub_log.append('kill')


def reusing_one_object(matches):
    """A handler written as a generator that fills ONE Dataset object again and again (a common way to write it)."""
    from pydicom.dataset import Dataset
    one = Dataset()
    for ds, status in matches:
        one.clear()
        one.update(ds)
        yield one, status


class LabAE(object):
    def __init__(self, lab):
        self.lab = lab
        self.timeout = 1
        self.store_in_file = set()
        self.context_def_list = {}
        self.local_ae = {'aet': 'LAB', 'address': 'localhost'}
        self.supported_scp = {}
        self.supported_scu = {}

    # handlers -------------------------------------------------------------
    def _act(self, name, *args):
        from pynetdicom2 import exceptions
        self.lab.handler_calls.append((name, args))
        out = self.lab.outcomes.get(name)
        if isinstance(out, list):
            out = out.pop(0) if out else Outcome(0)
        if out is None:
            out = Outcome(0)
        if out.error:
            raise exceptions.EventHandlingError('lab')
        return out

    def on_receive_echo(self, context):
        from pynetdicom2 import statuses
        return statuses.Status(self._act('echo', context).status)

    def on_receive_store(self, context, ds):
        from pynetdicom2 import statuses, dimsemessages
        data = ds.read() if hasattr(ds, 'read') else ds
        if hasattr(ds, 'close') and getattr(self.lab, 'store_handler_closes', False):
            # an application that is done with the file closes it (the documentation of get_file makes the service
            # implementation / application responsible for closing)
            self.lab.closed_files[id(ds)] = data
            ds.close()
        elif hasattr(ds, 'seek'):
            ds.seek(0)                      # leave the file as it was handed over
        return statuses.Status(self._act('store', context, data).status, dimsemessages.CStoreRSPMessage)

    def on_receive_find(self, context, ds):
        self.lab.handler_calls.append(('find', (context, ds)))
        if getattr(self.lab, 'reuse_match_object', False):
            return reusing_one_object(self.lab.matches)
        return iter(self.lab.matches)

    def on_receive_move(self, context, ds, destination):
        self.lab.handler_calls.append(('move', (context, ds, destination)))
        return self.lab.move_plan

    def on_commitment_request(self, remote_ae, uids):
        self._act('commit_request', remote_ae, list(uids))
        return self.lab.commit_plan

    def on_commitment_response(self, transaction_uid, success, failure):
        self._act('commit_response', str(transaction_uid), list(success), list(failure))

    @contextlib.contextmanager
    def request_association(self, remote_ae):
        sub = SubAssoc(self.lab, remote_ae)
        self.lab.sub_assocs.append(sub)
        try:
            yield sub
            sub.release()
        except Exception:
            sub.abort()
            raise


class Lab(object):
    """One experiment: an association with scripted incoming messages and application handlers."""

    def __init__(self, max_pdu_length=16384):
        from pynetdicom2 import asceprovider
        self.outcomes = {}
        self.matches = []
        self.move_plan = (None, 0, iter([]))
        self.commit_plan = (None, None, None)
        self.sub_outcomes = []
        self.handler_calls = []
        self.sub_ops = []
        self.sub_sent = []
        self.sub_log = []
        self.sub_assocs = []
        self.closed_files = {}
        self.incoming = collections.deque()
        self.ae = LabAE(self)
        a = object.__new__(asceprovider.Association)
        a.ae = self.ae
        a.dul = impl.StubDul()
        a.max_pdu_length = max_pdu_length
        a.accepted_contexts = {}
        a.association_established = True
        a.remote_ae = 'PEER'
        lab = self

        def receive():
            from pynetdicom2 import exceptions
            if not lab.incoming:
                raise exceptions.DCMTimeoutError()
            return lab.incoming.popleft()
        a.receive = receive
        self.assoc = a

    def ctx(self, pc, sop_class, ts=IMPLICIT):
        from pynetdicom2 import asceprovider
        from pydicom import uid
        return asceprovider.PContextDef(pc, uid.UID(sop_class), uid.UID(ts))

    def sent(self):
        """Decode everything handed to the provider, in order (consumed now, as the provider thread would)."""
        from pynetdicom2 import dsutils
        out = []
        for g in self.assoc.dul.sent:
            if hasattr(g, 'pdu_type'):
                out.append(dict(pdu=type(g).__name__))
                continue
            cmd = b''
            data = b''
            pcs = set()
            for p in g:
                for it in p.data_value_items:
                    pcs.add(it.context_id)
                    if it.data_value[0] in (1, 3):
                        cmd += it.data_value[1:]
                    else:
                        data += it.data_value[1:]
            ds = dsutils.decode(cmd, True, True)

            def val(tag):
                e = ds.get(tag)
                if e is None or e.value in ('', None):
                    return None
                return e.value
            out.append(dict(cf=val((0, 0x0100)), pc=(sorted(pcs)[0] if len(pcs) == 1 else -1),
                            mid_resp=val((0, 0x0120)), mid=val((0, 0x0110)),
                            sop=(str(val((0, 2))) if val((0, 2)) is not None else None),
                            inst=(str(val((0, 0x1000))) if val((0, 0x1000)) is not None else None),
                            status=val((0, 0x0900)), rem=val((0, 0x1020)), comp=val((0, 0x1021)),
                            fail=val((0, 0x1022)), warn=val((0, 0x1023)), dst=val((0, 0x0800)), data=data,
                            event_type=val((0, 0x1002)), action_type=val((0, 0x1008))))
        return out


def encode_ds(ds):
    from pynetdicom2 import dsutils
    return dsutils.encode(ds, True, True)


def small_dataset(k, size=0):
    from pydicom.dataset import Dataset
    ds = Dataset()
    ds.PatientName = 'Match^%d' % k
    ds.PatientID = 'ID%d' % k
    if size:
        ds.StudyDescription = 'x' * size
    return ds


# ---- Coq rendering of requests / responses ---------------------------------------------------------
def c_opt_n(v):
    return 'None' if v is None else '(Some %d)' % int(v)


def c_opt_b(v):
    return 'None' if v is None else '(Some %s)' % cbytes(str(v).encode())


def c_rsp(r):
    return ('(mkrsp %d %d %s %s %s %s %s %s %s %s %s)' %
            (int(r['cf'] or 0), r['pc'], c_opt_n(r['mid_resp']), c_opt_b(r['sop']), c_opt_b(r['inst']),
             c_opt_n(r['status']), c_opt_n(r['rem']), c_opt_n(r['comp']), c_opt_n(r['fail']), c_opt_n(r['warn']),
             cbytes(r['data']) if r['data'] else '[]'))


def c_rq(cf, pc, mid, sop, inst, data=b''):
    return '(mkrq %d %d %d %s %s %s)' % (cf, pc, mid, cbytes(sop.encode()), c_opt_b(inst), cbytes(data) if data else '[]')
