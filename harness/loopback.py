"""Real loopback TCP with real threads: an AE listening on an ephemeral port and clients."""
import contextlib
import socket
import threading
import time


@contextlib.contextmanager
def serving(ae):
    """`ae` was constructed with port 0; yields the port it listens on."""
    port = ae.server_address[1]
    ae.local_ae['port'] = port
    t = threading.Thread(target=ae.serve_forever, kwargs=dict(poll_interval=0.05))
    t.daemon = True
    t.start()
    try:
        yield port
    finally:
        ae.shutdown()
        ae.server_close()
        t.join(5)


def remote(port, aet='SERVER', **kw):
    d = dict(address='127.0.0.1', port=port, aet=aet)
    d.update(kw)
    return d
