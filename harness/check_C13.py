"""C13 — every association ending terminates the provider and releases the connection.
Static: Properties/C13.v.  Per run (real provider, scripted world): every conversation of the corpus
for both roles x the peer disconnecting after every byte prefix of its stream and between any two
local steps x the peer falling silent at each point (ARTIM expiry must end it) x a stop request at
every quiescent point; obligations: model = implementation, the run returns (never blocks or
crashes), ends at rest, the user is told iff an association had been indicated."""
import random

import common
import provider_driver as pd


def flatten(conv):
    """conversation -> list of steps: ('bytes', raw) per peer PDU, other blocks unchanged"""
    steps = []
    for blk in conv:
        if blk[0] == 'peer':
            for x in blk[1]:
                steps.append(('bytes', pd.raw_of(x)))
        else:
            steps.append(blk)
    return steps


def ops_of_steps(steps):
    ops = []
    for st in steps:
        k = st[0]
        if k == 'bytes':
            ops += [('seg', st[1]), ('idle',), ('idle',)]
        elif k == 'user':
            ops += [('user', st[1]), ('idle',), ('idle',)]
        elif k == 'usermsg':
            ops += [('usermsg', list(st[1]))] + [('idle',)] * (len(st[1]) + 2)
        elif k == 'idle':
            ops += [('idle',)] * st[1]
        elif k == 'tick':
            ops += [('tick', st[1]), ('idle',)]
        elif k in ('close', 'reset', 'kill'):
            ops += [(k,), ('idle',), ('idle',), ('idle',)]
    return ops


CLOSE_TAIL = [('close',), ('idle',), ('idle',), ('idle',)]
SILENCE_TAIL = [('idle',), ('tick', 11), ('idle',), ('idle',), ('idle',)]


def main(tier, seed):
    dec = common.Decision('C13', tier, seed)
    common.static_gate(dec, ['Properties/C13.v'], ['Proofs/FsmProofs.v', 'Proofs/FsmProofs2.v', 'Proofs/FsmSpecProofs.v',
                                                   'Proofs/ProviderProofs.v', 'Proofs/ProviderTheorems.v',
                                                   'Proofs/FsmWProofs.v', 'Proofs/ProviderWProofs.v'])
    rng = random.Random(seed)
    rest_cases = []      # must end at rest
    stop_cases = []      # a stop request: must return
    silent_cases = []    # peer silent: at rest iff the provider was waiting on the peer alone (Sta2/Sta13) or idle
    corpus = [(True, n, b) for n, b in pd.ACCEPTOR_CORPUS] + [(False, n, b) for n, b in pd.REQUESTOR_CORPUS]
    for acceptor, name, build in corpus:
        steps = flatten(build())
        steps = [s for s in steps if s[0] not in ('close',)]
        for k in range(len(steps) + 1):
            head = steps[:k]
            base = ops_of_steps(head)
            # peer disconnects between two steps; the remaining local steps still happen (stale primitives)
            local_rest = [s for s in steps[k:] if s[0] in ('user', 'usermsg')]
            rest_cases.append(dict(label=[name, 'close_after_step', k], acceptor=acceptor, ops=base + CLOSE_TAIL))
            if local_rest:
                rest_cases.append(dict(label=[name, 'close_after_step', k, 'then_stale_local_steps'], acceptor=acceptor,
                                       ops=base + CLOSE_TAIL + ops_of_steps(local_rest)))
                rest_cases.append(dict(label=[name, 'stale_local_steps_then_close', k], acceptor=acceptor,
                                       ops=base + [('close',)] + ops_of_steps(local_rest) + [('idle',)] * 3))
            # peer silent from here on: ARTIM
            silent_cases.append(dict(label=[name, 'silence_after_step', k], acceptor=acceptor, ops=base + SILENCE_TAIL))
            # the peer trickles bytes instead of being silent: ARTIM must not be re-armed by them
            silent_cases.append(dict(label=[name, 'trickle_after_step', k], acceptor=acceptor,
                                     ops=base + [('idle',), ('tick', 6), ('seg', b'\x04\x00\x00'), ('idle',), ('tick', 6)] + [('idle',)] * 3))
            # the peer sends an unrecognisable PDU every 6 s: only the first one may (re)start ARTIM (AA-1 / AA-8);
            # in Sta13 AA-7 answers without touching the timer, so the peer cannot keep the connection open
            junk = b'\xff\x00\x00\x00\x00\x04junk'
            silent_cases.append(dict(label=[name, 'junk_every_6s_after_step', k], acceptor=acceptor,
                                     ops=base + [('idle',)] + [('tick', 6), ('seg', junk), ('idle',), ('idle',)] * 3 +
                                     [('tick', 1)] + [('idle',)] * 3))
            # the same with a well-framed P-DATA-TF that cannot be reassembled (message control header 7)
            bad = b'\x04\x00\x00\x00\x00\x0a\x00\x00\x00\x06\x01\x07abcd'
            silent_cases.append(dict(label=[name, 'unusable_pdata_every_6s_after_step', k], acceptor=acceptor,
                                     ops=base + [('idle',)] + [('tick', 6), ('seg', bad), ('idle',), ('idle',)] * 3 +
                                     [('tick', 1)] + [('idle',)] * 3))
            # a header announcing 2^31 bytes (top bit set), never completed: ARTIM / the disconnection ends it all the same
            if k <= 1:
                silent_cases.append(dict(label=[name, 'huge_length_header_then_silence', k], acceptor=acceptor,
                                         ops=base + [('seg', b'\x01\x00\x80\x00\x00\x00'), ('idle',)] + SILENCE_TAIL))
                rest_cases.append(dict(label=[name, 'huge_length_header_then_close', k], acceptor=acceptor,
                                       ops=base + [('seg', b'\x04\x00\xff\xff\xff\xfa' + b'zz'), ('idle',)] + CLOSE_TAIL))
            # stop requested at this quiescent point
            stop_cases.append(dict(label=[name, 'kill_after_step', k], acceptor=acceptor, ops=base + [('kill',)]))
            # peer disconnects after every byte prefix of its next PDU
            if k < len(steps) and steps[k][0] == 'bytes':
                raw = steps[k][1]
                cuts = range(1, len(raw)) if (tier != 'quick' or len(raw) <= 24) else \
                    sorted(set([1, 2, 5, 6, 7, len(raw) - 1] + [rng.randrange(1, len(raw)) for _ in range(6)]))
                for c in cuts:
                    rest_cases.append(dict(label=[name, 'close_in_pdu', k, c], acceptor=acceptor,
                                           ops=base + [('seg', raw[:c]), ('idle',)] + CLOSE_TAIL))
                    if rng.random() < 0.2:
                        silent_cases.append(dict(label=[name, 'silence_in_pdu', k, c], acceptor=acceptor,
                                                 ops=base + [('seg', raw[:c]), ('idle',)] + SILENCE_TAIL))
    # a peer faster than the application: 150 messages arrive and nobody reads the indications meanwhile; a stop request
    # and the peer's close must still be honoured (the provider must never wait for the application to read)
    import check_C12
    est = [p for p in check_C12.prefixes() if p[0] == 'sta6_established'][0][2]
    echo = b''.join(p.encode() for p in pd.fragments(pd.mk_message('echo_rq', 1), 1, 16384))
    flood = [('seg', echo * 150)] + [('idle',)] * 155
    stop_cases.append(dict(label=['flood-of-150-unread-messages', 'kill'], acceptor=True, ops=list(est) + flood + [('kill',)]))
    rest_cases.append(dict(label=['flood-of-150-unread-messages', 'close'], acceptor=True, ops=list(est) + flood + CLOSE_TAIL))
    runner, res1, f1, broken, _r = pd.run_cases('C13', dec, rest_cases,
                                               [('corr', 'prov_corr'), ('spec', 'c05_spec'), ('rest', 'ends_at_rest')], size=50)
    _rn, res2, f2, b2, _r = pd.run_cases('C13', dec, stop_cases, [('corr', 'prov_corr'), ('spec', 'c05_spec')], size=50,
                                        runner=runner, prefix='Stop')
    _rn, res3, f3, b3, _r = pd.run_cases('C13', dec, silent_cases,
                                        [('corr', 'prov_corr'), ('spec', 'c05_spec'), ('silent', 'silence_ok')], size=50,
                                        runner=runner, prefix='Silent')
    broken += b2 + b3
    # an ending by RESET: the peer's reset arrives right behind its last bytes and the provider's next write is refused
    # by the kernel (Model.ProviderW; repair D23).  Model = implementation, and the provider ends at rest, user told
    import check_C12
    reset_cases = pd.reset_scenarios(check_C12.prefixes(), rng, 6 if tier == 'quick' else 60)
    _rn, res4, f4, b4 = pd.run_cases_w('C13', dec, reset_cases,
                                       [('corr', 'prov_corr_w'), ('spec', 'c05_spec_w'), ('rest', 'ends_at_rest_w')],
                                       size=50, runner=runner, prefix='Reset')
    broken += b4
    cov = dec.coverage
    cov['evaluations'] = len(rest_cases) + len(stop_cases) + len(silent_cases) + len(reset_cases)
    allc = rest_cases + stop_cases + silent_cases + reset_cases
    cov['distinct_nontrivial'] = len(set(tuple(pd.short_ops(c['ops'])) for c in allc))
    cov['rule'] = ('%d conversations (both roles) x {peer closes after every step, after every byte prefix of its next PDU '
                   '(sampled for long PDUs in quick), before/after the remaining local steps; peer silent + ARTIM expiry after '
                   'every step; stop request after every step}; 8 protocol states x the peer resets the connection behind its last bytes '
                   '(unrecognised / unusable / unexpected / partial PDUs, receive sizes 65536 / 16 / 7, local requests before and '
                   'after) with a transport that refuses writes; distinct = distinct op sequences' % len(corpus))
    import collections
    cov['distribution'] = dict(close=len(rest_cases), stop=len(stop_cases), silence=len(silent_cases),
                               reset=len(reset_cases),
                               reset_with_a_refused_write=sum(1 for r in res4 if r.get('refused_writes')),
                               outcomes=dict(collections.Counter(r['outcome'] for r in res1 + res2 + res3)),
                               final_states=dict(collections.Counter(str(r['final']['st']) for r in res1 + res3)))
    cov['samples'] = [dict(label=c['label'], ops=pd.short_ops(c['ops'])[-8:], result=pd.summary(r))
                      for c, r in list(zip(rest_cases, res1))[30:32]]

    def rec(c, r, kind):
        return pd.replayable(dict(kind=kind, label=c['label'], acceptor=c['acceptor'], ops=pd.short_ops(c['ops']),
                                  result=pd.summary(r)), c, oracle=current_oracle[0])
    current_oracle = [None]
    for i in sorted(set(f4['spec']) | set(f4['rest'])):
        current_oracle[0] = 'rest'
        dec.report(rec(reset_cases[i], res4[i], 'not-terminated-or-not-released'))
    for i in f4['corr']:
        if i not in set(f4['spec']) | set(f4['rest']):
            current_oracle[0] = 'rest'
            dec.report(dict(rec(reset_cases[i], res4[i], 'model-differs'),
                            theorem='correspondence prov_corr_w (Corr/CorrProviderW.v)'), no_input=True)
    for cases, results, failing, oracle in ((rest_cases, res1, f1, 'rest'), (stop_cases, res2, f2, None),
                                            (silent_cases, res3, f3, 'silent')):
        bad = set(failing['spec']) | (set(failing[oracle]) if oracle else set())
        current_oracle[0] = oracle
        for i in sorted(bad):
            chk = ('spec', 'c05_spec') if i in set(failing['spec']) else \
                {'rest': ('rest', 'ends_at_rest'), 'silent': ('silent', 'silence_ok')}[oracle]
            dec.report(pd.with_minimal('C13', rec(cases[i], results[i], 'not-terminated-or-not-released'), cases[i], chk))
        for i in failing['corr']:
            if i not in bad:
                dec.report(dict(rec(cases[i], results[i], 'model-differs'), theorem='correspondence prov_corr'),
                           no_input=True)
    for name, out in broken:
        dec.report(dict(kind='case-file-broken', file=name, detail=out), no_input=True)
    runner.keep = bool(dec.violations)
    runner.cleanup()
    return dec.finish()


def replay(rec):
    checks = [('corr', 'prov_corr'), ('spec', 'c05_spec')]
    if rec.get('replay_oracle') == 'rest':
        checks.append(('rest', 'ends_at_rest'))
    elif rec.get('replay_oracle') == 'silent':
        checks.append(('silent', 'silence_ok'))
    return pd.replay_case('C13', rec, checks)
