"""C02 — wire format = PS3.8 / PS3.7 layout.  Static theorems C02_emitted / C02_accepted /
C02_layout_injective; per run: the implementation's bytes equal the independent layout, the strict
length-driven parser reads them back to the encoded value, total_length() = bytes emitted."""
import check_C01


def main(tier, seed):
    return check_C01.main(tier, seed, prop='C02', prop_files=('Properties/C02.v',),
                          cone=('Proofs/LayoutProofs.v', 'Proofs/PduProofs.v', 'Proofs/TextProofs.v',
                                'Proofs/BaseProofs.v'),
                          checks=(('corr', 'rt_corr'), ('spec', 'rt_layout'), ('nwf', 'rt_wf2', 'stat')),
                          malformed=False)


replay = check_C01.replay
