"""C11 — requester: well-formed proposal, accepted contexts and service lookup agree.
Static: Properties/C11.v.  Per run: real AE.add_scu/add_scp sequences, AssociationRequester.request with
a stub provider answering with enumerated / seeded replies, get_scu for every class: model =
implementation (request_corr) and the property's oracle on the observation (request_spec).
Known finding D17: more than 128 configured classes give context ids above 255."""
import itertools
import random

import common
import nego_driver as nd


def classes(k, n):
    return ['1.2.826.0.1.%d.%d' % (k, i) for i in range(n)]


def main(tier, seed):
    dec = common.Decision('C11', tier, seed)
    dec.matchers['more_than_128_contexts'] = lambda r: (r.get('kind') == 'bad-proposal-or-lookup' and
                                                        r.get('n_contexts', 0) > 128 and r.get('rq_encodes') is False)
    common.static_gate(dec, ['Properties/C11.v'], ['Proofs/NegotiationProofs.v', 'Proofs/NegoPduProofs.v'])
    rng = random.Random(seed)
    TS = nd.TS_UNIVERSE
    cases = []

    def all_accept(ctxs, ts_order):
        return [(i, (0, ts_order[0])) for i, _c in ctxs]

    # exhaustive replies for small proposals: every result pattern over {0,1,2,3,4} (n <= 2), {0,1,3} (n = 3),
    # every transfer-syntax choice among those proposed
    for n in (1, 2, 3):
        results = [0, 1, 2, 3, 4] if n <= 2 else [0, 3]
        ts_cfg = TS[:2]
        for pattern in itertools.product(results, repeat=n):
            for ts_choice in itertools.product(range(2), repeat=n):
                if tier == 'quick' and n == 3 and rng.random() < 0.5:
                    continue

                def fn(ctxs, ts_order, pattern=pattern, ts_choice=ts_choice):
                    return [(i, (pattern[k], ts_order[ts_choice[k]] if pattern[k] == 0 else ''))
                            for k, (i, _c) in enumerate(ctxs)]
                calls = [('scu', classes(1, n))] if n < 3 else [('scu', classes(1, 2)), ('scp', classes(2, 1))]
                cases.append((calls, ts_cfg, rng.choice([0, 16384, 65536]), fn, rng.choice([0, 7, 16384, 2 ** 32 - 1]), ['9.9.9']))
    # call sequences with list sizes around 1, 64, 127, 128, 129, 139
    for sizes in ([1], [64], [127], [128], [60, 68], [100, 27, 1], [129], [139], [128, 1], [64, 64, 11], [1, 1, 1, 1]):
        for kinds in (['scu'] * len(sizes), ['scp' if k % 2 else 'scu' for k in range(len(sizes))]):
            calls = [(kinds[k], classes(k + 1, s)) for k, s in enumerate(sizes)]

            def fn(ctxs, ts_order):
                return [(i, (0 if (i // 2) % 3 else 3, ts_order[(i // 2) % len(ts_order)] if (i // 2) % 3 else ''))
                        for i, _c in ctxs]
            cases.append((calls, TS[:3], 16384, fn, 16384, []))
    for n in (1, 2, 3):                                    # one class in two contexts (SCU and SCP), both answered
        shared = classes(7, n)
        for pat in ((0, 0), (0, 3), (3, 0)):
            def fn2(ctxs, ts_order, pat=pat, n=n):
                return [(i, (pat[0 if k < n else 1], ts_order[k % len(ts_order)] if pat[0 if k < n else 1] == 0 else ''))
                        for k, (i, _c) in enumerate(ctxs)]
            cases.append(([('scu', shared), ('scp', shared)], TS[:2], 16384, fn2, 16384, []))
            cases.append(([('scp', shared), ('scu', shared + classes(8, 1))], TS[:2], 16384, fn2, 16384, []))
    for _ in range(30 if tier == 'quick' else 300):       # seeded random
        n_calls = rng.randint(1, 4)
        calls = [(rng.choice(['scu', 'scp']), classes(k + 1, rng.randint(1, 30))) for k in range(n_calls)]
        ts_cfg = rng.sample(TS, rng.randint(1, 4))
        pat = [rng.choice([0, 0, 1, 2, 3, 4]) for _ in range(200)]
        tsc = [rng.randrange(4) for _ in range(200)]

        def fn(ctxs, ts_order, pat=pat, tsc=tsc):
            out = [(i, (pat[k], ts_order[tsc[k] % len(ts_order)] if pat[k] == 0 else '')) for k, (i, _c) in enumerate(ctxs)]
            return out
        cases.append((calls, ts_cfg, rng.choice([0, 7, 16384, 65536]), fn, rng.choice([0, 7, 100, 16384, 2 ** 32 - 1]), ['1.2.3']))
    # the peer's reply need not follow the order of the proposal, may leave contexts unanswered, and may (wrongly)
    # answer an id that was never proposed: every permutation for the small proposals, seeded shapes for the rest
    def reshaped(fn, shape, arg=None):
        def g(ctxs, ts_order):
            out = list(fn(ctxs, ts_order))
            if shape == 'perm':
                out = [out[k] for k in arg if k < len(out)]
            elif shape == 'reversed':
                out.reverse()
            elif shape == 'rotated':
                out = out[1:] + out[:1]
            elif shape == 'shuffled':
                random.Random(arg).shuffle(out)
            elif shape == 'omit':
                out = [x for k, x in enumerate(out) if (k + arg) % 3]
            elif shape == 'unknown_id':
                used = set(i for i, _x in out)
                free = [i for i in range(1, 256, 2) if i not in used] + [2, 4]
                out.insert(arg % (len(out) + 1), (free[0], (0, ts_order[0])))
            return out
        return g
    extra = []
    for calls, ts_cfg, own, fn, peer_max, look in cases:
        n = sum(len(c) for _k, c in calls)
        if n in (2, 3) and len(extra) < (120 if tier == 'quick' else 2000):
            for perm in itertools.permutations(range(n)):
                if list(perm) != list(range(n)) and (tier != 'quick' or rng.random() < 0.3):
                    extra.append((calls, ts_cfg, own, reshaped(fn, 'perm', perm), peer_max, look))
    for calls, ts_cfg, own, fn, peer_max, look in cases[-(30 if tier == 'quick' else 300):]:
        shape = rng.choice(['reversed', 'rotated', 'shuffled', 'omit', 'unknown_id'])
        extra.append((calls, ts_cfg, own, reshaped(fn, shape, rng.randrange(1000)), peer_max, look))
    for shape in ('reversed', 'rotated', 'omit', 'unknown_id'):
        calls = [('scu', classes(1, 3)), ('scp', classes(2, 2))]

        def fn5(ctxs, ts_order):
            return [(i, (0 if k != 1 else 3, ts_order[k % len(ts_order)] if k != 1 else '')) for k, (i, _c) in enumerate(ctxs)]
        extra.append((calls, TS[:2], 16384, reshaped(fn5, shape, 1), 16384, []))
    cases += extra
    obs = [nd.observe_request(*c) for c in cases]
    run = common.CoqRun('C11')
    failing, broken, n_obl, n_ok = common.run_sharded(run, 'Req', nd.IMPORTS, 'rcase', [t for t, _h in obs],
                                                      [('corr', 'request_corr'), ('spec', 'request_spec')], size=25)
    cov = dec.coverage
    cov['evaluations'] = len(obs)
    cov['distinct_nontrivial'] = len(set(repr((h['calls'], h['answers'], h['ts'])) for _t, h in obs if h['n_contexts'] >= 2))
    cov['rule'] = ('exhaustive reply patterns (results 0..4, every transfer-syntax choice) for 1..3 proposed contexts; '
                   'add_scu/add_scp call sequences with class-list sizes 1, 64, 127, 128, 60+68, 100+27+1, 129, 139, ...; '
                   'seeded random configurations and replies; replies in every other order (all permutations for 2..3 contexts, '
                   'reversed / rotated / shuffled), with unanswered contexts and with an id that was never proposed; '
                   'non-trivial = at least two contexts')
    import collections
    cov['distribution'] = dict(contexts=dict(collections.Counter(str(min(h['n_contexts'], 130)) for _t, h in obs).most_common(12)),
                               rq_not_encodable=sum(1 for _t, h in obs if not h['rq_encodes']),
                               errors=sum(1 for _t, h in obs if h['error']))
    cov['samples'] = [h for _t, h in obs[5:7]]
    spec_set = set(failing['spec'])
    known_idx = set()
    for i in failing['spec']:
        r = dec.report(dict(obs[i][1], kind='bad-proposal-or-lookup'))
        if r == 'known':
            known_idx.add(i)
    for i in failing['corr']:
        if i in spec_set:
            continue
        dec.report(dict(obs[i][1], kind='model-differs', theorem='correspondence request_corr'), no_input=True)
    # obligations: shards containing only known-finding cases count as discharged-with-finding
    size = 25
    extra_ok = 0
    for name in ('spec', 'corr'):
        bad_shards = set(i // size for i in failing[name])
        for sh in bad_shards:
            idx = [i for i in failing[name] if i // size == sh]
            if all(i in known_idx for i in idx):
                extra_ok += 1
    dec.obligations(n_obl, n_ok + extra_ok)
    for name, out in broken:
        dec.report(dict(kind='case-file-broken', file=name, detail=out), no_input=True)
    run.keep = bool(dec.violations)
    run.cleanup()
    return dec.finish()


def replay(rec):
    for k, v in rec.items():
        print(k, ':', v)
    return 0
