"""Several associations of one process run in several threads and use the library's encoding functions at the same
time.  Each operation below is a function of its arguments alone; a result that depends on what ANOTHER thread is doing
at that moment (a scratch buffer, a writer or a cache shared through the module or the class) breaks the isolation of
associations (C20) and, on the wire, whatever the operation was producing: a PDU (C02), a command set (C08), an
identifier (C16).

`race(ops, ...)`: every thread gets its own inputs, computes the expected results alone first, then all threads repeat
their operations at the same time under a very short thread switch interval; every result must equal the one computed
alone.  Returns a list of disagreements (thread, operation, expected and observed prefixes)."""
import sys
import threading


def pdata_ops(k):
    from pynetdicom2 import pdu
    p1 = pdu.PDataTfPDU([pdu.PresentationDataValueItem(1 + 2 * k, bytes([3]) + bytes([65 + k]) * (20 + 7 * k))])
    p2 = pdu.PDataTfPDU([pdu.PresentationDataValueItem(3 + 2 * k, bytes([0]) + bytes([97 + k]) * (300 + k)),
                         pdu.PresentationDataValueItem(5 + 2 * k, bytes([2]) + bytes([48 + k]) * (11 * k))], reserved=k)
    return [('PDataTfPDU.encode', p1.encode), ('PDataTfPDU.encode/2', p2.encode),
            ('PDataTfPDU.decode', (lambda raw=p2.encode(): repr(pdu.PDataTfPDU.decode(raw).__dict__.keys()) and
                                   pdu.PDataTfPDU.decode(raw).encode()))]


def assoc_ops(k):
    from pynetdicom2 import pdu, userdataitems
    def build():
        items = [pdu.ApplicationContextItem('1.2.840.10008.3.1.1.1')]
        for c in range(k + 1):
            items.append(pdu.PresentationContextItemRQ(1 + 2 * c, pdu.AbstractSyntaxSubItem('1.2.840.10008.1.%d' % (k + c)),
                                                       [pdu.TransferSyntaxSubItem('1.2.840.10008.1.2.%d' % t) for t in range(c + 1)]))
        items.append(pdu.UserInformationItem([userdataitems.MaximumLengthSubItem(1000 * (k + 1)),
                                              userdataitems.ImplementationClassUIDSubItem('1.2.3.%d' % k),
                                              userdataitems.UserIdentityNegotiationSubItem('user%d' % k, 'secret' * (k + 1), 2)]))
        return pdu.AAssociateRqPDU('CALLED%d' % k, 'CALLING%d' % k, items)
    raw = build().encode()
    return [('AAssociateRqPDU.encode', lambda: build().encode()),
            ('AAssociateRqPDU.decode+encode', lambda: pdu.AAssociateRqPDU.decode(raw).encode())]


def message_ops(k):
    from pynetdicom2 import dimsemessages as dm
    import pydicom
    def find_rsp():
        m = dm.CFindRSPMessage()
        m.message_id_being_responded_to = 100 + k
        m.sop_class_uid = '1.2.840.10008.5.1.4.1.2.%d.1' % (k + 1)
        m.status = 0xFF00
        m.data_set = bytes([k]) * (50 + 13 * k)
        m.set_length()
        return b'|'.join(p.encode() for p in m.encode(1 + 2 * k, 128 + 16 * k))
    def store_rq():
        m = dm.CStoreRQMessage()
        m.message_id = 7 + k
        m.sop_class_uid = '1.2.840.10008.5.1.4.1.1.%d' % (k + 2)
        m.affected_sop_instance_uid = '1.2.3.%s' % ('9' * (k + 1))
        m.priority = k % 3
        m.move_originator_aet = 'AE%d' % k
        m.move_originator_message_id = k
        m.data_set = bytes([200 + k]) * 2000
        m.set_length()
        return b'|'.join(p.encode() for p in m.encode(3, 0))
    return [('C-FIND-RSP set_length+encode', find_rsp), ('C-STORE-RQ set_length+encode', store_rq)]


def dataset_ops(k):
    from pynetdicom2 import dsutils
    import pydicom
    def ds():
        d = pydicom.Dataset()
        d.PatientName = 'Name^%d' % k * (k + 1)
        d.PatientID = 'ID%d' % k
        d.QueryRetrieveLevel = 'STUDY'
        d.StudyInstanceUID = '1.2.3.%d.%d' % (k, k * 1000)
        d.ReferencedSOPSequence = [pydicom.Dataset() for _ in range(k + 2)]
        for j, it in enumerate(d.ReferencedSOPSequence):
            it.ReferencedSOPInstanceUID = '1.2.%d.%d' % (k, j)
        return d
    raw = dsutils.encode(ds(), True, True)
    return [('dsutils.encode implicit', lambda: dsutils.encode(ds(), True, True)),
            ('dsutils.encode explicit', lambda: dsutils.encode(ds(), False, True)),
            ('dsutils.decode+encode', lambda: dsutils.encode(dsutils.decode(raw, True, True), True, True))]


def status_ops(k):
    from pynetdicom2 import statuses, dimsemessages as dm
    cls = [dm.CFindRSPMessage, dm.CStoreRSPMessage, dm.CGetRSPMessage, dm.CMoveRSPMessage][k % 4]
    codes = [0, 0xFF00, 0xFF01, 0xFE00, 0xB000, 0xA700 + k, 0xC000 + k, 0x0110]
    def classify():
        out = []
        for c in codes:
            s = statuses.Status(c, cls)
            out.append((int(s), s.is_success, s.is_pending, s.is_cancel, s.is_warning, s.is_failure))
        return repr(out)
    return [('Status classification', classify)]


ALL = [pdata_ops, assoc_ops, message_ops, dataset_ops, status_ops]


def race(op_makers, threads=4, rounds=150, switch=1e-6):
    per_thread = []
    for k in range(threads):
        ops = []
        for mk in op_makers:
            ops.extend(mk(k))
        expected = [(name, fn, fn()) for name, fn in ops]
        per_thread.append(expected)
    bad = []
    lock = threading.Lock()
    start = threading.Barrier(threads)

    def work(k):
        start.wait()
        for r in range(rounds):
            for name, fn, want in per_thread[k]:
                try:
                    got = fn()
                except Exception as e:  # noqa
                    got = '%s: %s' % (type(e).__name__, e)
                if got != want:
                    with lock:
                        if len(bad) < 20:
                            bad.append(dict(thread=k, operation=name, round=r,
                                            expected=(want.hex() if isinstance(want, bytes) else str(want))[:160],
                                            observed=(got.hex() if isinstance(got, bytes) else str(got))[:160]))
                    return
    old = sys.getswitchinterval()
    sys.setswitchinterval(switch)
    try:
        ts = [threading.Thread(target=work, args=(k,)) for k in range(threads)]
        for t in ts:
            t.start()
        for t in ts:
            t.join()
    finally:
        sys.setswitchinterval(old)
    n = sum(len(x) for x in per_thread) * rounds
    return bad, n
