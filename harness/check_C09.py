"""C09 — the acceptor answers every proposed presentation context correctly.
Static: Properties/C09.v.  Per run: the real AssociationAcceptor.accept (stub provider) and the _loop
dispatch on exhaustively enumerated small requests x entity configurations, plus seeded larger ones:
Model.NegoPdu.accept_pdu = implementation (accept_corr) and the property's oracle on the observed
reply (accept_spec)."""
import itertools
import random

import common
import nego_driver as nd


def main(tier, seed):
    dec = common.Decision('C09', tier, seed)
    common.static_gate(dec, ['Properties/C09.v'], ['Proofs/NegotiationProofs.v', 'Proofs/NegoPduProofs.v'])
    rng = random.Random(seed)
    TS, ABS = nd.TS_UNIVERSE, nd.ABS_UNIVERSE
    cases = []
    ts_lists = [list(p) for n in (1, 2, 3) for p in itertools.permutations(TS, n)]
    served_sets = [[a for k, a in enumerate(ABS[:3]) if m & (1 << k)] for m in range(8)]
    ts_sets = [[t for k, t in enumerate(TS) if m & (1 << k)] for m in range(16)]
    # exhaustive: one context
    for served in served_sets:
        for ts in ts_sets:
            for abs_ in (ABS[0], ABS[3]):
                lists = ts_lists if tier != 'quick' else rng.sample(ts_lists, 6)
                for tl in lists:
                    cases.append((served, ts, 16384, [(1, abs_, tl)], 16384))
    # 0..3 contexts, served/unserved, sampled configurations
    for n in range(0, 4):
        for combo in itertools.product(range(4), repeat=n):
            for _ in range(2 if tier == 'quick' else 12):
                served = rng.choice(served_sets)
                ts = rng.choice(ts_sets)
                props = [(1 + 2 * k, ABS[a], rng.choice(ts_lists)) for k, a in enumerate(combo)]
                cases.append((served, ts, rng.choice([0, 7, 16384, 65536]), props, rng.choice([0, 7, 100, 16384, 2 ** 32 - 1])))
    for _ in range(40 if tier == 'quick' else 400):          # larger random requests
        served = rng.choice(served_sets)
        ts = rng.choice(ts_sets)
        n = rng.randint(4, 40)
        ids = rng.sample(range(1, 256, 2), n)
        props = [(i, rng.choice(ABS), rng.choice(ts_lists)) for i in ids]
        cases.append((served, ts, rng.choice([0, 16384, 65536]), props, rng.choice([0, 16384, 131072])))
    # long lists of transfer syntaxes: a requestor that prefers compressed encodings lists every syntax it knows and the
    # mandatory default last; the only supported one stands at position n (n around every power of two up to 255)
    filler = ['1.2.840.10008.1.2.4.%d' % k for k in range(50, 310)]
    for n in [4, 5, 8, 9, 16, 17, 31, 32, 33, 34, 36, 54, 63, 64, 65, 100, 127, 128, 129, 200, 255]:
        for where in ('last', 'middle', 'none'):
            tl = filler[:n - 1]
            if where == 'last':
                tl = tl + [TS[0]]
            elif where == 'middle':
                tl = tl[:n // 2] + [TS[1]] + tl[n // 2:]
            else:
                tl = tl + [filler[-1]]
            if tier == 'quick' and where != 'last' and n not in (33, 65, 129, 255):
                continue
            cases.append(([ABS[0], ABS[1]], [TS[0], TS[1]], 16384, [(1, ABS[0], tl), (3, ABS[1], list(reversed(tl)))], 16384))
    obs = [nd.observe_accept(*c, variant=(k % 7 if k % 3 == 0 else 0)) for k, c in enumerate(cases)]
    run = common.CoqRun('C09')
    failing, broken, n_obl, n_ok = common.run_sharded(run, 'Acc', nd.IMPORTS, 'acase', [t for t, _h in obs],
                                                      [('corr', 'accept_corr'), ('spec', 'accept_spec')], size=60)
    dec.obligations(n_obl, n_ok)
    cov = dec.coverage
    cov['evaluations'] = len(obs)
    cov['distinct_nontrivial'] = len(set(repr((h['served'], h['ts'], h['proposals'])) for _t, h in obs if h['proposals']))
    cov['rule'] = ('exhaustive: 1 context x {served, unserved} x every ordered list of 1..3 transfer syntaxes out of 4 x every '
                   'subset of 3 served classes x every subset of 4 supported syntaxes (lists sampled in quick); 0..3 contexts '
                   'x all served/unserved patterns with sampled configurations; seeded requests of 4..40 contexts; lists of 4..255 '
                   'transfer syntaxes with the supported one last / in the middle / absent; '
                   'non-trivial = at least one proposed context')
    import collections
    cov['distribution'] = dict(contexts=dict(collections.Counter(str(min(len(h['proposals']), 5)) for _t, h in obs)),
                               accepted=sum(1 for _t, h in obs for a in h['answers'] if a[1] == 0),
                               rejected=sum(1 for _t, h in obs for a in h['answers'] if a[1] != 0),
                               errors=sum(1 for _t, h in obs if h['error']))
    cov['samples'] = [h for _t, h in obs[100:102]]
    spec_set = set(failing['spec'])
    for i in failing['spec']:
        dec.report(dict(obs[i][1], kind='wrong-answer'))
    for i in failing['corr']:
        if i not in spec_set:
            dec.report(dict(obs[i][1], kind='model-differs', theorem='correspondence accept_corr'), no_input=True)
    for name, out in broken:
        dec.report(dict(kind='case-file-broken', file=name, detail=out), no_input=True)
    run.keep = bool(dec.violations)
    run.cleanup()
    return dec.finish()


def replay(rec):
    _t, h = nd.observe_accept(rec['served'], rec['ts'], rec['own_max'], [tuple(p) for p in rec['proposals']], rec['peer_max'],
                              rec.get('variant', 0))
    for k, v in h.items():
        print(k, ':', v)
    return 0
