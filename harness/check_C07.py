"""C07 — DIMSE reassembly under any PDV grouping; completion detected exactly.
Static: Properties/C07.v.  Per run: real fsm.DIMSEDecoder fed with real PDataTfPDU objects built from
every composition of the fragment list of real messages (in memory and file-backed) vs
Model.Decoder.process (dec_corr) and the property's oracle (dec_spec); MESSAGE_TYPE tabulated and
checked against PS3.7's command fields (mechanism A)."""
import io
import itertools
import random

import common
import impl
from common import cbytes, cbool, clist

IMPORTS = ('From PND Require Import Lib.Text Model.CmdSet Model.Decoder Model.Dimse Spec.Ps37Command Corr.CorrDecoder '
           'Model.PduWf Model.Pdu.\n')
IMPLICIT = '1.2.840.10008.1.2'


def compositions(n, limit, rng):
    """Ways of grouping n fragments into consecutive PDUs, as lists of group sizes."""
    if n <= limit:
        for mask in range(2 ** (n - 1)):
            sizes = []
            cur = 1
            for i in range(n - 1):
                if mask & (1 << i):
                    sizes.append(cur)
                    cur = 1
                else:
                    cur += 1
            sizes.append(cur)
            yield sizes
    else:
        yield [1] * n
        yield [n]
        for _ in range(6):
            cuts = sorted(rng.sample(range(1, n), rng.randint(1, min(n - 1, 6))))
            sizes = [b - a for a, b in zip([0] + cuts, cuts + [n])]
            yield sizes


def sample_dataset(rng, size):
    from pydicom.dataset import Dataset
    from pynetdicom2 import dsutils
    ds = Dataset()
    ds.PatientName = 'Test^%d' % rng.randint(0, 999)
    ds.PatientID = 'ID%d' % rng.randint(0, 99999)
    ds.StudyDescription = 'x' * size
    return dsutils.encode(ds, True, True)


def mt_rows():
    from pynetdicom2 import dimsemessages as dm
    import provider_driver as pd
    uid = dict(pd.message_table())
    return [(k, dm.MESSAGE_TYPE[k].command_field, uid[k]) for k in sorted(dm.MESSAGE_TYPE)]


def observe(cls, data, pc, m, sizes, file_mode, rng, fill_seed, dst_value=None, empty_last=False):
    """Fragment a message with the implementation, regroup, feed the real decoder."""
    from pynetdicom2 import fsm, pdu, dsutils, asceprovider, applicationentity
    from pydicom import uid as pyuid
    import pydicom
    msg = impl.fill_message(cls(), random.Random(fill_seed))
    sop_kw = 'RequestedSOPClassUID' if 'RequestedSOPClassUID' in msg.command_fields else 'AffectedSOPClassUID'
    sop = None
    if sop_kw in msg.command_fields:
        sop = '1.2.840.10008.5.1.4.1.1.%d' % (2 + fill_seed % 5)
        setattr(msg.command_set, sop_kw, sop)
    if 'AffectedSOPInstanceUID' in msg.command_fields:
        msg.command_set.AffectedSOPInstanceUID = '1.2.3.%d' % fill_seed
    if data:
        msg.data_set = data
        if dst_value is not None:
            # PS3.7: only 0101H says "no data set"; a peer may announce its data set with another value
            msg.command_set.CommandDataSetType = dst_value
    cmd, pdus = impl.send_and_collect(msg, pc, m)
    frags = [p.data_value_items[0] for p in pdus]
    if empty_last and data and frags and frags[-1].data_value[:1] == b'\x02':
        last = frags[-1]
        frags[-1] = pdu.PresentationDataValueItem(last.context_id, b'\x00' + bytes(last.data_value[1:]))
        frags.append(pdu.PresentationDataValueItem(last.context_id, b'\x02'))
    groups = []
    i = 0
    for s in sizes:
        groups.append(frags[i:i + s])
        i += s
    store = frozenset([sop]) if (file_mode and sop) else frozenset()
    # the two get_file implementations of the library: a temporary file (AE / ClientAE) and a file in a storage
    # directory (StorageAE / ClientStorageAE)
    tmpdir = None
    if file_mode == 'dir':
        import tempfile
        import pynetdicom2
        tmpdir = tempfile.mkdtemp(prefix='c07-', dir=common.BUILD)
        ae = pynetdicom2.ClientStorageAE(tmpdir, 'VERIF')
    else:
        ae = applicationentity.ClientAE('VERIF')
    get_file = ae.get_file
    own_header = b''
    if file_mode == 'custom':
        own_header = b'REC!' + bytes(range(28))

        def get_file(context, command_set):
            import tempfile
            fp = tempfile.TemporaryFile(dir=common.BUILD)
            fp.write(own_header)                                   # the application's own record header
            start = fp.tell()
            applicationentity.write_meta(fp, command_set, context.supported_ts)
            return fp, start
    # a peer may propose one storage class once per transfer syntax (storescu does): the same abstract syntax is then
    # accepted on several contexts, and the file must announce the syntax of the context the message ARRIVED on
    ctxs = {}
    if fill_seed % 2 == 0:
        for o in [o for o in (pc - 2, pc + 2) if 1 <= o <= 255 and o != pc][:1 + (fill_seed // 2) % 2]:
            ctxs[o] = asceprovider.PContextDef(o, pyuid.UID(sop or '1.2'), pyuid.UID('1.2.840.10008.1.2.1'))
    ctxs[pc] = asceprovider.PContextDef(pc, pyuid.UID(sop or '1.2'), pyuid.UID(IMPLICIT))
    dec = fsm.DIMSEDecoder(ctxs, store, get_file)
    flags = []
    err = None
    for g in groups:
        try:
            dec.process(pdu.PDataTfPDU([pdu.PresentationDataValueItem(v.context_id, v.data_value) for v in g]))
            flags.append(bool(dec.receiving))
        except Exception as e:  # noqa
            err = type(e).__name__
            break
        if not dec.receiving:
            break
    flags += [False] * (len(groups) - len(flags)) if err is None else []
    final = None
    file_ok = True
    prefix = b''
    if err is None and dec.msg is not None and not dec.receiving:
        m_ = dec.msg
        dsv = m_.data_set
        in_file = False
        if dsv is None:
            dat = b''
        elif isinstance(dsv, (bytes, bytearray)):
            dat = bytes(dsv)
        else:
            in_file = True
            # as handed over: an application reads the DICOM file from the position it is given
            try:
                handed = pydicom.dcmread(dsv)
                handed_ok = (dsutils.encode(handed, True, True) == data)
            except Exception:
                handed_ok = False
            dsv.seek(0)
            dat = dsv.read()
            prefix = dat[:len(dat) - len(data)]
            if own_header:
                handed_ok = handed_ok and dat[:len(own_header)] == own_header     # the application's bytes are intact
            try:
                ds = pydicom.dcmread(io.BytesIO(dat[len(own_header):]))
                file_ok = (handed_ok and dsutils.encode(ds, True, True) == data and
                           str(ds.file_meta.TransferSyntaxUID) == IMPLICIT)
            except Exception:
                file_ok = False
            dsv.close()
        cs = m_.command_set
        if dst_value is not None and data and cs.CommandDataSetType == 0x0001:
            # observation O10: attaching the data set to the received message object rewrites a peer's other
            # "data set present" value to 0001H; same meaning, compared modulo that
            import copy
            cs = copy.deepcopy(cs)
            cs.CommandDataSetType = dst_value
        final = (type(m_).command_field, dsutils.encode(cs, True, True), dat, in_file, dec.pc_id)
    if tmpdir:
        import shutil
        shutil.rmtree(tmpdir, ignore_errors=True)
    return dict(cls=cls.__name__, cf=cls.command_field, cmd=cmd, data=data or b'', pc=pc, m=m, sizes=sizes,
                groups=[[(v.context_id, bytes(v.data_value)) for v in g] for g in groups], flags=flags, final=final,
                file_ok=file_ok, err=err, store=sorted(store), prefix=prefix, file_mode=file_mode)


def render(c, mt):
    env = '(mkdenv %s %s %s %s)' % (clist(['(%d, %d)' % (k, u) for k, _f, u in mt]),
                                    clist([cbytes(s.encode()) for s in c['store']]), clist([str(c['pc'])]),
                                    cbytes(c['prefix']))
    groups = clist([clist(['{| pdv_ctx := %d; pdv_data := %s |}' % (x, cbytes(d)) for x, d in g]) for g in c['groups']])
    if c['final'] is None:
        fin = 'None'
    else:
        cf, cmd, dat, in_file, pc = c['final']
        fin = '(Some (DMsg %d %s %s %s %d))' % (cf, cbytes(cmd), cbytes(dat), cbool(in_file), pc)
    return '(mkdc %s %s %s %d %d %d %s %s %s %s)' % (env, cbytes(c['cmd']), cbytes(c['data']) if c['data'] else '[]',
                                                    c['pc'], c['m'], c['cf'], groups,
                                                    clist([cbool(f) for f in c['flags']]), fin, cbool(c['file_ok']))


def main(tier, seed):
    dec = common.Decision('C07', tier, seed)
    common.static_gate(dec, ['Properties/C07.v'], ['Proofs/DecoderProofs.v', 'Proofs/DimseProofs.v'])
    rng = random.Random(seed)
    from pynetdicom2 import dimsemessages as dm
    classes = impl.message_classes()
    mt = mt_rows()
    obs = []
    limit = 6 if tier == 'quick' else 8
    k = 0
    for cls in classes:
        for data_size, m in ((0, 16384), (0, 40), (10, 16384), (60, 64), (200, 90)):
            data = sample_dataset(rng, data_size) if data_size else b''
            can_file = ('AffectedSOPInstanceUID' in cls.command_fields and 'AffectedSOPClassUID' in cls.command_fields)
            for file_mode in ((False, True, 'dir', 'custom') if (data_size and can_file) else (False,)):
                k += 1
                n = sum(1 for _ in impl.send_and_collect(_msg_like(cls, data, k), 1, m)[1])
                comps = list(compositions(n, limit, rng))
                if tier == 'quick' and len(comps) > 8:
                    comps = [comps[0], comps[-1]] + rng.sample(comps[1:-1], 6)
                for j, sizes in enumerate(comps):
                    dst = [None, None, 0x0000, 0x0102, 0x0100][(k + j) % 5] if data_size else None
                    obs.append(observe(cls, data, 1 + 2 * (k % 100), m, sizes, file_mode, rng, k, dst))
    terms = [render(c, mt) for c in obs]
    run = common.CoqRun('C07')
    run.add('Table', common.CASE_HEADER + IMPORTS + 'Open Scope N_scope.\n' +
            'Definition rows : list (N * N * N) := %s.\n' % clist(['(%d, %d, %d)' % r for r in mt]) +
            'Definition bad_table := Eval vm_compute in (if mt_ok rows then [] else [0]).\nPrint bad_table.\n'
            'Example table_ok : mt_ok rows = true. Proof. vm_compute. reflexivity. Qed.\n')
    trc, tout, _dt = run.compile_all()['Table']
    run.files = []
    tbad = common.parse_printed_list(tout, 'bad_table')
    failing, broken, n_obl, n_ok = common.run_sharded(run, 'Dec', IMPORTS, 'dcase', terms,
                                                      [('corr', 'dec_corr'), ('spec', 'dec_spec')], size=60)
    # a peer of another toolkit that ends its data set with an empty last fragment: not the fragmentation of C06
    # (the property's premise), so only model = implementation is demanded
    from pynetdicom2 import dimsemessages as dm2
    extra = []
    for j, (m_, n_) in enumerate([(16384, 10), (64, 60), (64, 200), (90, 200)]):
        data2 = sample_dataset(rng, n_)
        nfr = sum(1 for _ in impl.send_and_collect(_msg_like(dm2.CStoreRQMessage, data2, 900 + j), 1, m_)[1]) + 1
        for sizes in ([1] * nfr, [nfr], [nfr - 1, 1], [1, nfr - 1]):
            if all(x > 0 for x in sizes):
                for fm in (False, True):
                    extra.append(observe(dm2.CStoreRQMessage, data2, 3, m_, sizes, fm, rng, 900 + j, None, True))
    f2, b2, n2, k2 = common.run_sharded(run, 'EmptyLast', IMPORTS, 'dcase', [render(c, mt) for c in extra],
                                        [('corr', 'dec_corr'), ('spec', 'dec_spec', 'stat')], size=60)
    off = len(obs)
    obs = obs + extra
    failing = dict(corr=failing['corr'] + [off + i for i in f2['corr']], spec=failing['spec'])
    broken += b2
    n_obl += n2
    n_ok += k2
    dec.obligations(n_obl + 1, n_ok + (1 if (tbad == [] and trc == 0) else 0))
    if tbad is None:
        broken.append(('Table', tout[-1500:]))
    elif tbad:
        dec.report(dict(kind='message-type-table', table=mt))
    cov = dec.coverage
    cov['evaluations'] = len(obs)
    cov['distinct_nontrivial'] = len(set((c['cls'], c['m'], len(c['data']), tuple(c['sizes']), c['file_mode'])
                                         for c in obs if sum(c['sizes']) >= 2))
    cov['rule'] = ('all 23 message classes x {no data set, small/medium data set} x maximum lengths forcing 1..n fragments '
                   'x every composition of the fragment list into PDUs (n <= %d; sampled beyond, and sampled in quick) x '
                   'in-memory / file-backed reception; data sets of 20 and 80 MiB in 1 MiB fragments (direct comparison of length and digest); '
                   'non-trivial = at least two fragments' % limit)
    import collections
    cov['distribution'] = dict(fragments=dict(collections.Counter(str(sum(c['sizes'])) for c in obs)),
                               file_backed=sum(1 for c in obs if c['file_mode']), errors=sum(1 for c in obs if c['err']))
    cov['samples'] = [dict(cls=c['cls'], m=c['m'], data_len=len(c['data']), sizes=c['sizes'], flags=c['flags'],
                           file=c['file_mode']) for c in obs[20:23]]
    large = large_message_cases(tier)
    cov['distribution']['large_messages'] = ['%d MiB x %d per PDU%s: %s' % (r['data_set_MiB'], r['fragments_per_pdu'],
                                                                           ' (file)' if r['file_mode'] else '',
                                                                           'ok' if r['ok'] else 'FAILS') for r in large]
    for r in large:
        if not r['ok']:
            dec.report(dict(r, kind='large-message-not-reassembled'))
    return finish(dec, run, obs, failing, broken, mt)


def large_message_cases(tier):
    """Messages far beyond anything the Coq evaluation of the model can be given (the theorems hold for every length; the
    tie for THESE lengths is this direct comparison): a C-STORE request whose data set of 20 / 80 / (thorough) 300 MiB
    arrives in 1 MiB fragments, one per PDU and five per PDU, received in memory and in a file.  Reassembly must end
    exactly at the last fragment, with exactly the bytes sent (length and digest) and the command set sent."""
    import hashlib
    import io
    from pynetdicom2 import dimsemessages as dm, fsm, pdu
    out = []
    sizes = [20, 80] if tier == 'quick' else [20, 80, 300]
    chunk = bytes(range(256)) * 4096                      # 1 MiB
    for mib in sizes:
        for per_pdu in (1, 5):
            for file_mode in (False, True):
                if file_mode and mib > 80:
                    continue
                msg = _msg_like(dm.CStoreRQMessage, None, 4000 + mib)
                msg.command_set.CommandDataSetType = 1
                msg.set_length()
                cmd = b''.join(v.data_value[1:] for p_ in msg.encode(3, 0) for v in p_.data_value_items)
                want = hashlib.sha256()
                store = io.BytesIO() if file_mode else None
                sop = str(msg.command_set.AffectedSOPClassUID)
                d = fsm.DIMSEDecoder({3: _ctx(sop)}, frozenset([sop]) if file_mode else frozenset(),
                                     (lambda ctx, command_set, _s=store: (_s, 0)) if file_mode else None)
                err = None
                completed_at = None
                n_frag = mib
                try:
                    d.process(pdu.PDataTfPDU([pdu.PresentationDataValueItem(3, b'\x03' + cmd)]))
                    k = 0
                    while k < n_frag:
                        items = []
                        for _ in range(per_pdu):
                            if k >= n_frag:
                                break
                            tail = bytes([k % 251]) * 7
                            last = k == n_frag - 1
                            items.append(pdu.PresentationDataValueItem(3, (b'\x02' if last else b'\x00') + chunk + tail))
                            want.update(chunk)
                            want.update(tail)
                            k += 1
                        d.process(pdu.PDataTfPDU(items))
                        if completed_at is None and not d.receiving:
                            completed_at = k
                except Exception as e:  # noqa
                    err = '%s: %s' % (type(e).__name__, e)
                got_len, got_digest = -1, None
                if err is None and d.msg is not None and d.msg.data_set is not None:
                    ds = d.msg.data_set
                    if file_mode:
                        raw = store.getvalue()
                        got_len, got_digest = len(raw), hashlib.sha256(raw).hexdigest()
                    else:
                        got_len, got_digest = len(ds), hashlib.sha256(ds).hexdigest()
                ok = (err is None and completed_at == n_frag and got_len == n_frag * (len(chunk) + 7)
                      and got_digest == want.hexdigest())
                out.append(dict(data_set_MiB=mib, fragments=n_frag, fragments_per_pdu=per_pdu, file_mode=file_mode, error=err,
                                completed_after_fragment=completed_at, length=got_len, expected_length=n_frag * (len(chunk) + 7),
                                digest_ok=got_digest == want.hexdigest(), ok=ok))
                del d, store
    return out


def _ctx(sop):
    from pynetdicom2 import asceprovider
    from pydicom import uid
    return asceprovider.PContextDef(3, uid.UID(sop), uid.UID('1.2.840.10008.1.2'))


def _msg_like(cls, data, k):
    msg = impl.fill_message(cls(), random.Random(k))
    sop_kw = 'RequestedSOPClassUID' if 'RequestedSOPClassUID' in msg.command_fields else 'AffectedSOPClassUID'
    if sop_kw in msg.command_fields:
        setattr(msg.command_set, sop_kw, '1.2.840.10008.5.1.4.1.1.%d' % (2 + k % 5))
    if 'AffectedSOPInstanceUID' in msg.command_fields:
        msg.command_set.AffectedSOPInstanceUID = '1.2.3.%d' % k
    if data:
        msg.data_set = data
    return msg


def finish(dec, run, obs, failing, broken, mt):
    def rec(i, kind):
        c = obs[i]
        return dict(kind=kind, cls=c['cls'], m=c['m'], data_len=len(c['data']), pc=c['pc'], sizes=c['sizes'],
                    flags=c['flags'], file_mode=c['file_mode'], error=c['err'], file_ok=c['file_ok'],
                    final=(None if c['final'] is None else (c['final'][0], len(c['final'][1]), len(c['final'][2]),
                                                            c['final'][3], c['final'][4])))
    spec_set = set(failing['spec'])
    for i in failing['spec']:
        dec.report(rec(i, 'reassembly'))
    for i in failing['corr']:
        if i not in spec_set:
            dec.report(dict(rec(i, 'model-differs'), theorem='correspondence dec_corr'), no_input=True)
    for name, out in broken:
        dec.report(dict(kind='case-file-broken', file=name, detail=out), no_input=True)
    run.keep = bool(dec.violations)
    run.cleanup()
    return dec.finish()


def replay(rec):
    print(rec)
    return 0
