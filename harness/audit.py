"""Static audit for C20: writes to state shared between associations in the run-time code paths."""
import ast
import os

RUNTIME = ['asceprovider.py', 'sopclass.py', 'dulprovider.py', 'fsm.py', 'dimsemessages.py', 'dsutils.py', 'pdu.py',
           'userdataitems.py', '__init__.py', 'statuses.py']
MUTATORS = {'append', 'extend', 'update', 'add', 'pop', 'clear', 'setdefault', 'insert', 'remove', 'discard', 'popitem'}
# configuration-time API (not association run-time) and the documented per-thread counter
ALLOWED = {('__init__.py', '_new_msg_id', '_tls.msg_id'), ('statuses.py', 'add_status', '_general_status_dict[...]'),
           ('statuses.py', 'add_status', '_status_dict[...]'), ('sopclass.py', 'augment', 'service.sop_classes'),
           ('sopclass.py', 'augment', 'service.sop_classes.extend()'), ('sopclass.py', 'store_in_file', 'service.store_in_file')}


def chain(node):
    parts = []
    while True:
        if isinstance(node, ast.Attribute):
            parts.append(node.attr)
            node = node.value
        elif isinstance(node, ast.Subscript):
            parts.append('[...]')
            node = node.value
        elif isinstance(node, ast.Call):
            parts.append('()')
            node = node.func
        elif isinstance(node, ast.Name):
            parts.append(node.id)
            break
        else:
            parts.append('?')
            break
    return list(reversed(parts))


def render(parts):
    out = parts[0]
    for p in parts[1:]:
        out += p if p in ('[...]', '()') else '.' + p
    return out


MUTABLE_CALLS = {'dict', 'list', 'set', 'deque', 'defaultdict', 'OrderedDict', 'bytearray', 'Queue'}


def class_level_mutables(fn, cls):
    """A mutable object bound in a class body is shared by all instances (all associations); mutating it
    through `self` in a method is a write to shared state unless the method's class rebinds the name on the
    instance in __init__."""
    shared = {}
    for item in cls.body:
        if isinstance(item, (ast.Assign, ast.AnnAssign)) and item.value is not None:
            v = item.value
            mutable = isinstance(v, (ast.Dict, ast.List, ast.Set, ast.ListComp, ast.DictComp, ast.SetComp)) or (
                isinstance(v, ast.Call) and ((isinstance(v.func, ast.Name) and v.func.id in MUTABLE_CALLS) or
                                             (isinstance(v.func, ast.Attribute) and v.func.attr in MUTABLE_CALLS)))
            if mutable:
                for t in (item.targets if isinstance(item, ast.Assign) else [item.target]):
                    if isinstance(t, ast.Name):
                        shared[t.id] = item.lineno
    if not shared:
        return []
    rebound = set()
    for item in cls.body:
        if isinstance(item, ast.FunctionDef) and item.name == '__init__':
            for n in ast.walk(item):
                if isinstance(n, ast.Assign):
                    for t in n.targets:
                        if isinstance(t, ast.Attribute) and isinstance(t.value, ast.Name) and t.value.id == 'self':
                            rebound.add(t.attr)
    out = []
    for item in cls.body:
        if not isinstance(item, ast.FunctionDef):
            continue
        for n in ast.walk(item):
            hit = None
            if isinstance(n, (ast.Assign, ast.AugAssign, ast.Delete)):
                targets = n.targets if isinstance(n, (ast.Assign, ast.Delete)) else [n.target]
                for t in targets:
                    if isinstance(t, ast.Subscript):
                        parts = chain(t)
                        if len(parts) >= 3 and parts[0] == 'self' and parts[1] in shared and parts[1] not in rebound:
                            hit = render(parts)
            if isinstance(n, ast.Call) and isinstance(n.func, ast.Attribute) and n.func.attr in MUTATORS:
                parts = chain(n.func.value)
                if len(parts) >= 2 and parts[0] == 'self' and parts[1] in shared and parts[1] not in rebound:
                    hit = render(parts) + '.%s()' % n.func.attr
            if hit:
                out.append((fn, item.name, hit + ' (class-level mutable, line %d)' % shared[parts[1]], n.lineno))
    return out


def shared_writes(repo):
    found = []
    pkg = os.path.join(repo, 'pynetdicom2')
    for fn in RUNTIME:
        src = open(os.path.join(pkg, fn)).read()
        tree = ast.parse(src)
        module_names = set()
        for node in tree.body:
            if isinstance(node, (ast.Assign, ast.AnnAssign)):
                for t in (node.targets if isinstance(node, ast.Assign) else [node.target]):
                    if isinstance(t, ast.Name):
                        module_names.add(t.id)
            elif isinstance(node, (ast.Import, ast.ImportFrom)):
                for a in node.names:
                    module_names.add((a.asname or a.name).split('.')[0])
            elif isinstance(node, ast.ClassDef):
                module_names.add(node.name)

        def visit_func(func, cls):
            local = set(a.arg for a in func.args.args + func.args.kwonlyargs)
            if func.args.vararg:
                local.add(func.args.vararg.arg)
            if func.args.kwarg:
                local.add(func.args.kwarg.arg)
            globals_decl = set()
            for n in ast.walk(func):
                if isinstance(n, ast.Global):
                    globals_decl.update(n.names)
                if isinstance(n, (ast.Assign, ast.AugAssign, ast.AnnAssign, ast.For, ast.With, ast.comprehension)):
                    targets = []
                    if isinstance(n, ast.Assign):
                        targets = n.targets
                    elif isinstance(n, (ast.AugAssign, ast.AnnAssign)):
                        targets = [n.target]
                    elif isinstance(n, ast.For):
                        targets = [n.target]
                    elif isinstance(n, ast.comprehension):
                        targets = [n.target]
                    for t in targets:
                        for nm in ast.walk(t):
                            if isinstance(nm, ast.Name) and isinstance(nm.ctx, ast.Store) and nm.id not in globals_decl:
                                local.add(nm.id)
                if isinstance(n, ast.withitem) and n.optional_vars is not None:
                    for nm in ast.walk(n.optional_vars):
                        if isinstance(nm, ast.Name):
                            local.add(nm.id)
                if isinstance(n, ast.ExceptHandler) and n.name:
                    local.add(n.name)

            def is_shared(parts):
                base = parts[0]
                if base in globals_decl:
                    return True
                if base not in local and base in module_names and len(parts) > 1:
                    return True                      # attribute / item of a module-level object or class
                if base not in local and base in module_names and len(parts) == 1 and base in globals_decl:
                    return True
                if 'ae' in parts[1:-1] or (len(parts) > 1 and parts[-1] != 'ae' and 'ae' in parts[1:]):
                    # something reached through the shared application entity: x.ae.<...> = / x.ae.<...>.append()
                    idx = parts.index('ae', 1)
                    return idx < len(parts) - 1
                if cls and base == 'cls':
                    return True
                return False
            for n in ast.walk(func):
                targets = []
                if isinstance(n, ast.Assign):
                    targets = n.targets
                elif isinstance(n, (ast.AugAssign, ast.AnnAssign)):
                    targets = [n.target]
                elif isinstance(n, ast.Delete):
                    targets = n.targets
                for t in targets:
                    for el in (t.elts if isinstance(t, (ast.Tuple, ast.List)) else [t]):
                        if isinstance(el, (ast.Attribute, ast.Subscript)):
                            parts = chain(el)
                            if is_shared(parts):
                                found.append((fn, func.name, render(parts), n.lineno))
                        elif isinstance(el, ast.Name) and el.id in globals_decl:
                            found.append((fn, func.name, el.id, n.lineno))
                if isinstance(n, ast.Call) and isinstance(n.func, ast.Attribute) and n.func.attr in MUTATORS:
                    parts = chain(n.func.value)
                    if is_shared(parts + ['x']):
                        found.append((fn, func.name, render(parts) + '.%s()' % n.func.attr, n.lineno))

        for node in tree.body:
            if isinstance(node, ast.FunctionDef):
                visit_func(node, None)
                for sub in ast.walk(node):
                    if isinstance(sub, ast.FunctionDef) and sub is not node:
                        visit_func(sub, None)
            elif isinstance(node, ast.ClassDef):
                for item in node.body:
                    if isinstance(item, ast.FunctionDef):
                        visit_func(item, node.name)
                found.extend(class_level_mutables(fn, node))
    out = []
    for fn, func, target, line in found:
        if (fn, func, target) in ALLOWED:
            continue
        out.append(dict(file=fn, function=func, target=target, line=line))
    return out


if __name__ == '__main__':
    import sys
    for w in shared_writes(sys.argv[1] if len(sys.argv) > 1 else '/repo'):
        print(w)
