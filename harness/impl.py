"""Helpers around the implementation under test: stub associations, message builders."""
import io
import random


class StubDul(object):
    def __init__(self):
        self.sent = []
        self.accepted_contexts = {}

    def send(self, x):
        self.sent.append(x)


def stub_assoc(max_pdu_length, cls=None):
    from pynetdicom2 import asceprovider
    a = object.__new__(cls or asceprovider.Association)
    a.dul = StubDul()
    a.max_pdu_length = max_pdu_length
    a.accepted_contexts = {}
    a.association_established = True
    return a


def message_classes():
    from pynetdicom2 import dimsemessages
    return [dimsemessages.MESSAGE_TYPE[k] for k in sorted(dimsemessages.MESSAGE_TYPE)]


def rand_uid(rng, n=None):
    n = n if n is not None else rng.randint(1, 64)
    if n == 1:
        return rng.choice('123456789')
    s = '1.'
    while len(s) < n:
        s += rng.choice('0123456789.') if s[-1] != '.' else rng.choice('123456789')
    s = s[:n]
    if s[-1] == '.':
        s = s[:-1] + '7'
    return s


def fill_message(msg, rng, uid_len=None):
    """Give every command field of `msg` a valid value for its VR."""
    from pydicom.datadict import dictionary_VR, tag_for_keyword
    for kw in msg.command_fields:
        if kw == 'CommandGroupLength':
            continue
        vr = dictionary_VR(tag_for_keyword(kw))
        if vr == 'UI':
            v = rand_uid(rng, uid_len)
        elif vr == 'US':
            v = rng.choice([0, 1, 255, 256, 65535, rng.randint(0, 65535)])
        elif vr == 'AE':
            v = ''.join(rng.choice('ABCDEFGHIJ_0123') for _ in range(rng.randint(1, 16)))
        elif vr == 'AT':
            v = [0x00100010, 0x00100020][:rng.randint(1, 2)]
        else:
            v = ''
        setattr(msg.command_set, kw, v)
    return msg


def send_and_collect(msg, pc, m):
    """Association.send through a stub provider; returns (cmd bytes, list of PDUs)."""
    from pynetdicom2 import dsutils
    a = stub_assoc(m)
    a.send(msg, pc)
    cmd = dsutils.encode(msg.command_set, True, True)
    gen = a.dul.sent[0]
    pdus = list(gen)
    return cmd, pdus
