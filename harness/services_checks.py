"""Checks for the service classes: C17 (response correlation), C16 (C-FIND end to end), C19 (C-GET user
and C-MOVE provider).  Real service callables on a real Association object with a stub provider
(harness/svc_driver.py); everything they hand to Association.send is encoded by the real path and
decoded again; Coq compares with Model/Services.v and evaluates the properties' oracles."""
import collections
import random

import common
import svc_driver as sd
from common import cbytes, cbool, clist

IMPORTS = 'From PND Require Import Lib.Text Model.Services Spec.Ps37Command Corr.CorrSvc.\n'

VERIF = '1.2.840.10008.1.1'
MR = '1.2.840.10008.5.1.4.1.1.4'
CT = '1.2.840.10008.5.1.4.1.1.2'
FIND = '1.2.840.10008.5.1.4.1.2.1.1'
MOVE = '1.2.840.10008.5.1.4.1.2.1.2'
GET = '1.2.840.10008.5.1.4.1.2.1.3'
MWL = '1.2.840.10008.5.1.4.31'
COMMIT = '1.2.840.10008.1.20.1'
# what a destination may answer to a C-STORE sub-operation: success, the three warnings, the service's failure ranges at
# both ends, and the general failure codes of PS3.7 Annex C (processing failure, class not supported, not authorized,
# duplicate invocation, unrecognized / mistyped operation, invalid instance): all of them just count as failed
SUBCLS = {0: 'SubSuccess', 0xB000: 'SubWarning', 0xB006: 'SubWarning', 0xB007: 'SubWarning',
          0xA700: 'SubFailure', 0xA7FF: 'SubFailure', 0xA900: 'SubFailure', 0xA9FF: 'SubFailure', 0xC000: 'SubFailure',
          0xC123: 'SubFailure', 0xCFFF: 'SubFailure', 0x0110: 'SubFailure', 0x0122: 'SubFailure', 0x0124: 'SubFailure',
          0x0210: 'SubFailure', 0x0211: 'SubFailure', 0x0212: 'SubFailure', 0x0117: 'SubFailure'}


def sub_code(rng):
    cls = rng.choice(['SubSuccess', 'SubSuccess', 'SubWarning', 'SubFailure', 'SubFailure'])
    return rng.choice([c for c, k in SUBCLS.items() if k == cls])


def reassemble(gen):
    """Pass a fragment generator through the real DIMSEDecoder, as the receiving provider would."""
    from pynetdicom2 import fsm
    dec = fsm.DIMSEDecoder({}, frozenset(), None)
    for p in gen:
        dec.process(p)
    assert not dec.receiving
    return dec.msg, dec.pc_id


def c_outcome(o):
    return 'HError' if o.error else '(HStatus %d)' % o.status


def ids(rng):
    return rng.choice([0, 1, 255, 256, 65535, rng.randint(0, 65535)])


def uid(rng, base):
    import impl
    return impl.rand_uid(rng, rng.choice([None, 1, 2, 63, 64]))


# ------------------------------------------------------------------------------------------------ C17
def empty_dataset_():
    from pydicom.dataset import Dataset
    return Dataset()


def run_provider(kind, rng):
    from pynetdicom2 import sopclass, dimsemessages as dm
    import pydicom
    lab = sd.Lab(rng.choice([60, 200, 16384]))
    pc = rng.choice([1, 3, 127, 255])
    mid = ids(rng)
    out = rng.choice([sd.Outcome(0), sd.Outcome(0xB000), sd.Outcome(0xA700), sd.Outcome(0xC001), sd.Outcome(0x0110),
                      sd.Outcome(error=True)])
    matches, nop, subs = [], 0, []
    inst = None
    data = b''
    if kind == 'PEcho':
        sop = VERIF
        msg = dm.CEchoRQMessage()
        lab.outcomes['echo'] = out
        svc = sopclass.verification_scp
    elif kind == 'PStore':
        sop = uid(rng, CT)
        inst = uid(rng, '1.2.3')
        msg = dm.CStoreRQMessage()
        msg.affected_sop_instance_uid = inst
        msg.priority = 0
        data = bytes(rng.randint(0, 255) for _ in range(rng.choice([2, 40, 300])))
        import io
        msg.data_set = io.BytesIO(data)      # storage_scp is a store_in_file service: the data set is a file
        lab.outcomes['store'] = out
        svc = sopclass.storage_scp
    elif kind == 'PFind':
        sop = rng.choice([FIND, MWL])
        msg = dm.CFindRQMessage()
        msg.priority = 0
        data = sd.encode_ds(sd.small_dataset(0))
        msg.data_set = data
        n = rng.choice([0, 1, 2, 5])
        # what the handler yields: matches with pending statuses, some of them with an empty identifier (a handler
        # that yields a NON-pending status is outside the documented contract: the library sends it and then
        # still closes with Success - observation O8 in DESIGN.md)
        matches = []
        for k in range(n):
            if rng.random() < 0.2:
                matches.append((empty_dataset_(), rng.choice([0xFF00, 0xFF01])))
            else:
                matches.append((sd.small_dataset(k, rng.choice([0, 100])), rng.choice([0xFF00, 0xFF01])))
        from pynetdicom2 import statuses
        lab.matches = [(d, statuses.Status(s, dm.CFindRSPMessage)) for d, s in matches]
        lab.reuse_match_object = rng.random() < 0.3
        svc = sopclass.qr_find_scp if sop == FIND else sopclass.modality_work_list_scp
    elif kind == 'PMove':
        sop = MOVE
        msg = dm.CMoveRQMessage()
        msg.priority = 0
        msg.move_destination = 'DEST'
        data = sd.encode_ds(sd.small_dataset(0))
        msg.data_set = data
        n = rng.choice([0, 1, 2, 4])
        codes = [sub_code(rng) for _ in range(n)]
        subs = [SUBCLS[c] for c in codes]
        lab.sub_outcomes = codes
        dsets = []
        for k in range(n):
            d = sd.small_dataset(k)
            d.SOPClassUID = CT
            d.SOPInstanceUID = '1.2.3.%d' % k
            dsets.append(d)
        nop = n
        known = n > 0 or rng.random() < 0.5
        lab.move_plan = (dict(aet='DEST', address='10.0.0.1', port=104) if (n > 0) else (None if not known else dict(aet='DEST', address='10.0.0.1', port=104)),
                         nop, iter(dsets))
        svc = sopclass.qr_move_scp
    elif kind in ('PNAction', 'PNEventReport'):
        sop = COMMIT
        ds = pydicom.Dataset()
        ds.TransactionUID = '1.2.3.4.5'
        ref = pydicom.Dataset()
        ref.ReferencedSOPClassUID = CT
        ref.ReferencedSOPInstanceUID = '1.2.3.9'
        ds.ReferencedSOPSequence = pydicom.Sequence([ref])
        if kind == 'PNAction':
            msg = dm.NActionRQMessage()
            msg.action_type_id = 1
            msg.requested_sop_instance_uid = sopclass.STORAGE_COMMITMENT_PUSH_MODEL_SOP_CLASS
            lab.outcomes['commit_request'] = out
            mode = rng.choice(['success', 'failure', 'mixed'])
            succ = [(CT, '1.2.3.9')] if mode in ('success', 'mixed') else None
            fail = [(CT, '1.2.3.10', 0x0110)] if mode in ('failure', 'mixed') else None
            lab.commit_plan = (dict(aet='PEER', address='10.0.0.2', port=104), succ, fail)
        else:
            msg = dm.NEventReportRQMessage()
            msg.event_type_id = rng.choice([1, 2])
            inst = sopclass.STORAGE_COMMITMENT_PUSH_MODEL_SOP_CLASS
            msg.affected_sop_instance_uid = inst
            lab.outcomes['commit_response'] = out
        data = sd.encode_ds(ds)
        msg.data_set = data
        svc = sopclass.StorageCommitment()
    else:
        raise ValueError(kind)
    msg.message_id = mid
    msg.sop_class_uid = sop
    ctx = lab.ctx(pc, sop)
    if kind == 'PStore' and rng.random() < 0.3:
        ctx = lab.ctx(pc, CT if sop != CT else MR)       # the response repeats the REQUEST's class, not the context's
    err = None
    try:
        svc(lab.assoc, ctx, msg)
    except Exception as e:  # noqa
        err = '%s: %s' % (type(e).__name__, e)
    sent = [r for r in lab.sent() if 'cf' in r]
    term = '(mkpcase %s %s %s %s %d %s %s)' % (
        kind, sd.c_rq(type(msg).command_field, pc, mid, sop, inst), c_outcome(out),
        clist(['(%s, %d)' % (cbytes(sd.encode_ds(d)), s) for d, s in matches]), nop, clist(subs),
        clist([sd.c_rsp(r) for r in sent]))
    human = dict(provider=kind, pc=pc, message_id=mid, sop_class=sop, instance=inst,
                 handler=('EventHandlingError' if out.error else hex(out.status)), error=err,
                 responses=[dict((k, v) for k, v in r.items() if k != 'data' and v is not None) for r in sent],
                 sub_operations=lab.sub_ops, n_matches=len(matches), nop=nop)
    return term, human


def dispatched_cases(rng, n):
    """Requests that reach the provider callables the way they do in service: through AssociationAcceptor.accept() and
    _loop().  The peer proposes every class on two or three presentation contexts (one per transfer syntax, as storescu
    and others do), all are accepted, and requests arrive on all of them in a mixed order: every response must go out
    on the context ITS request arrived on, answering its message id, for its class."""
    import nego_driver as nd
    from pynetdicom2 import asceprovider, sopclass, dimsemessages as dm, exceptions, statuses
    TS2 = ['1.2.840.10008.1.2', '1.2.840.10008.1.2.1', '1.2.840.10008.1.2.2']
    out = []
    for k in range(n):
        lab = sd.Lab(16384)
        acc = nd.new_acceptor(lab.ae, lab.assoc.dul, 16384)
        acc.association_established = True
        handed = []

        def recording(service, _h=handed):
            def serve(asce, ctx, msg):
                _h.append((ctx.id, str(ctx.sop_class), str(ctx.supported_ts)))
                return service(asce, ctx, msg)
            return serve
        lab.ae.supported_scp = {VERIF: recording(sopclass.verification_scp), FIND: recording(sopclass.qr_find_scp),
                                CT: recording(sopclass.storage_scp)}
        lab.ae.supported_ts = frozenset(TS2)
        classes = [VERIF, FIND, CT]
        rng.shuffle(classes)
        proposals = []
        cid = rng.choice([1, 3, 11])
        for c in classes:
            for j in range(rng.choice([2, 3])):
                proposals.append((cid, c, [TS2[j]]))
                cid += 2
        rng.shuffle(proposals)
        proposals = [(1 + 2 * i, c, t) for i, (_c0, c, t) in enumerate(proposals)]
        acc.accept(nd.make_rq(proposals, 16384))
        del lab.assoc.dul.sent[:]
        lab.matches = [(sd.small_dataset(0), statuses.Status(0xFF00, dm.CFindRSPMessage))]
        order = [p for p in proposals if p[0] in acc.sop_classes_as_scp]
        order = order + order[::-1]
        rng.shuffle(order)
        queue = []
        want = []
        for i, (pc, c, _t) in enumerate(order):
            mid = 100 + i
            if c == VERIF:
                m = dm.CEchoRQMessage()
            elif c == FIND:
                m = dm.CFindRQMessage()
                m.priority = 0
                m.data_set = sd.encode_ds(sd.small_dataset(1))
            else:
                m = dm.CStoreRQMessage()
                m.priority = 0
                m.affected_sop_instance_uid = '1.2.3.%d' % i
                import io
                m.data_set = io.BytesIO(b'\x08\x00\x18\x00\x04\x00\x00\x001.2\x00')   # storage_scp is a store-in-file service
            m.message_id = mid
            m.sop_class_uid = c
            queue.append((m, pc))
            want += [(pc, mid, c)] * (2 if c == FIND else 1)

        def receive(q=queue):
            if q:
                return q.pop(0)
            acc.is_killed = True
            raise exceptions.DCMTimeoutError()
        acc.receive = receive
        err = None
        try:
            acc._loop()
        except exceptions.DCMTimeoutError:
            pass
        except Exception as e:  # noqa
            err = '%s: %s' % (type(e).__name__, e)
        got = [(r['pc'], r['mid_resp'], r['sop']) for r in lab.sent() if 'cf' in r]
        table = [(v[0], str(v[1]), str(v[2])) for v in acc.sop_classes_as_scp.values()]
        # one response per request for the Coq case (the second C-FIND response repeats the context of the first)
        answered = []
        last = None
        for pc_, mid_, _sop in got:
            if (pc_, mid_) != last:
                answered.append(pc_)
            last = (pc_, mid_)
        term = '(mkdc %s %s %s %s %s)' % (
            clist([cbytes(u.encode()) for u in (VERIF, FIND, CT)]),
            clist(['(%d, %s, %s)' % (i, cbytes(c.encode()), cbytes(t.encode())) for i, c, t in table]),
            clist(['(%d, %s)' % (pc, cbytes(c.encode())) for pc, c, _t in order]),
            clist(['(Some (%d, %s, %s))' % (i, cbytes(c.encode()), cbytes(t.encode())) for i, c, t in handed]
                  + ['None'] * (len(order) - len(handed))),
            clist([str(x) for x in answered]))
        out.append(dict(proposals=[(i, c, t[0]) for i, c, t in proposals], arrival_order=[(pc, c) for pc, c, _t in order],
                        error=err, expected=want, responses=got, handed=handed, table=table, term=term,
                        ok=(err is None and got == want)))
    return out


def main_c17(tier, seed):
    dec = common.Decision('C17', tier, seed)
    common.static_gate(dec, ['Properties/C17.v'], ['Proofs/ServicesProofs.v'])
    rng = random.Random(seed)
    obs = []
    for kind in ('PEcho', 'PStore', 'PFind', 'PMove', 'PNAction', 'PNEventReport'):
        for _ in range(60 if tier == 'quick' else 600):
            obs.append(run_provider(kind, rng))
    obs += get_scu_cases(rng, 40 if tier == 'quick' else 400, as_c17=True)
    disp = dispatched_cases(rng, 12 if tier == 'quick' else 120)
    dec._dispatched = dict(cases=len(disp), requests=sum(len(d['arrival_order']) for d in disp), failing=sum(1 for d in disp if not d['ok']))
    drun = common.CoqRun('C17')
    fd, bd, od, kd = common.run_sharded(drun, 'Disp', 'From PND Require Import Lib.Text Model.Dispatch Corr.CorrDispatch.\n', 'dcase',
                                        [d['term'] for d in disp], [('corr', 'disp_corr'), ('spec', 'disp_spec')], size=20)
    dec.obligations(od, kd)
    bad_spec = set(fd['spec'])
    for k, d in enumerate(disp):
        rec = dict((a, b) for a, b in d.items() if a != 'term')
        if not d['ok'] or k in bad_spec:
            dec.report(dict(rec, kind='response-not-on-the-context-of-its-request'))
        elif k in fd['corr']:
            dec.report(dict(rec, kind='model-differs', theorem='correspondence disp_corr (Model.Dispatch vs _loop)'), no_input=True)
    for name, out in bd:
        dec.report(dict(kind='case-file-broken', file=name, detail=out), no_input=True)
    drun.keep = bool(dec.violations)
    drun.cleanup()
    return finish(dec, 'C17', obs, 'pcase', [('corr', 'svc_corr'), ('spec', 'svc_spec')],
                  ('every provider callable x message ids {0,1,255,256,65535,random} x context ids x SOP class / instance '
                   'UIDs (lengths 1..64) x handler outcomes (success, warning, failures, EventHandlingError) x result list '
                   'sizes / sub-operation outcomes; N-ACTION with success-only / failure-only / mixed lists'),
                  lambda h: (h['provider'], h['handler'], h.get('n_matches'), h.get('nop')), 'uncorrelated-response')


# ------------------------------------------------------------------------------------------------ C16
def empty_dataset():
    from pydicom.dataset import Dataset
    return Dataset()


def find_case(rng, variant):
    from pynetdicom2 import sopclass, dimsemessages as dm, statuses
    import pynetdicom2
    sop = MWL if variant == 'worklist' else FIND
    lab = sd.Lab(rng.choice([40, 120, 16384]))
    pc, mid = rng.choice([1, 3, 255]), ids(rng)
    query = sd.small_dataset(99, rng.choice([0, 50]))
    msg = dm.CFindRQMessage()
    msg.message_id = mid
    msg.sop_class_uid = sop
    msg.priority = 0
    msg.data_set = sd.encode_ds(query)
    n = rng.choice([0, 1, 2, 3, 7])
    matches = [(sd.small_dataset(k, rng.choice([0, 30, 400])) if rng.random() > 0.12 else empty_dataset(),
                rng.choice([0xFF00, 0xFF01])) for k in range(n)]
    lab.matches = [(d, statuses.Status(s, dm.CFindRSPMessage)) for d, s in matches]
    lab.reuse_match_object = reuse = rng.random() < 0.3
    svc = sopclass.modality_work_list_scp if variant == 'worklist' else sopclass.qr_find_scp
    err = None
    try:
        svc(lab.assoc, lab.ctx(pc, sop), msg)
    except Exception as e:  # noqa
        err = repr(e)
    sent = [r for r in lab.sent() if 'cf' in r]
    seen = [a for name, a in lab.handler_calls if name == 'find']
    query_seen = len(seen) == 1 and sd.encode_ds(seen[0][1]) == sd.encode_ds(query)
    # the user side, fed with exactly what the provider sent (through the real decoder) plus one extra message
    user = sd.Lab()
    for g in lab.assoc.dul.sent:
        pass
    lab2 = sd.Lab(rng.choice([40, 16384]))
    # re-run the provider to get fresh generators (the first ones were consumed by lab.sent())
    lab3 = sd.Lab(lab.assoc.max_pdu_length)
    lab3.matches = [(d, statuses.Status(s, dm.CFindRSPMessage)) for d, s in matches]
    lab3.reuse_match_object = reuse
    msg3 = dm.CFindRQMessage()
    msg3.message_id = mid
    msg3.sop_class_uid = sop
    msg3.priority = 0
    msg3.data_set = sd.encode_ds(query)
    svc(lab3.assoc, lab3.ctx(pc, sop), msg3)
    for g in lab3.assoc.dul.sent:
        user.incoming.append(reassemble(g))
    extra = dm.CFindRSPMessage()
    extra.status = 0xFF00
    user.incoming.append((extra, pc))
    scu = sopclass.modality_work_list_scu if variant == 'worklist' else sopclass.qr_find_scu
    yields = []
    uerr = None
    try:
        for a, b in scu(user.assoc, user.ctx(pc, sop), query, mid):
            yields.append((a, b))
    except Exception as e:  # noqa
        uerr = repr(e)
    extra_consumed = len(user.incoming) != 1
    ys = [((sd.encode_ds(a) if a is not None else None), int(b)) for a, b in yields]
    sent_rq = [r for r in user.sent() if 'cf' in r]
    term = '(EndToEnd (mkfcase %s %s %s %s %s %s))' % (
        sd.c_rq(0x20, pc, mid, sop, None), clist(['(%s, %d)' % (cbytes(sd.encode_ds(d)), s) for d, s in matches]),
        clist([sd.c_rsp(r) for r in sent]), cbool(query_seen),
        clist(['(%s, %d)' % ('None' if a is None else '(Some %s)' % cbytes(a), b) for a, b in ys]), cbool(extra_consumed))
    human = dict(variant=variant, n_matches=n, statuses=[hex(s) for _d, s in matches], pc=pc, message_id=mid,
                 handler_reuses_one_object=reuse,
                 max_pdu=lab.assoc.max_pdu_length, provider_error=err, user_error=uerr, yielded=len(ys),
                 yielded_statuses=[hex(b) for _a, b in ys], query_seen=query_seen, extra_consumed=extra_consumed,
                 sizes=[len(sd.encode_ds(d)) for d, _s in matches])
    return term, human


def find_user_case(rng, variant):
    """The user side alone: scripted responses pend ++ [final] ++ rest with final success / failure / cancel."""
    from pynetdicom2 import sopclass, dimsemessages as dm
    sop = MWL if variant == 'worklist' else FIND
    user = sd.Lab()
    pc, mid = rng.choice([1, 3, 255]), ids(rng)
    n = rng.choice([0, 1, 2, 4])
    pend = [(sd.small_dataset(k, rng.choice([0, 60])), rng.choice([0xFF00, 0xFF01])) for k in range(n)]
    final = rng.choice([0x0000, 0xA700, 0xC001, 0xFE00, 0x0122])
    final_has_data = rng.random() < 0.2
    script = [(sd.encode_ds(d), s) for d, s in pend] + [(sd.encode_ds(sd.small_dataset(77)) if final_has_data else b'', final)]
    script += [(sd.encode_ds(sd.small_dataset(88)), 0xFF00), (b'', 0)]       # must not be consumed
    for data, st in script:
        m = dm.CFindRSPMessage()
        m.message_id_being_responded_to = mid
        m.sop_class_uid = sop
        m.status = st
        if data:
            m.data_set = data
        user.incoming.append((m, pc))
    scu = sopclass.modality_work_list_scu if variant == 'worklist' else sopclass.qr_find_scu
    yields = []
    uerr = None
    try:
        for a, b in scu(user.assoc, user.ctx(pc, sop), sd.small_dataset(5), mid):
            yields.append((a, b))
    except Exception as e:  # noqa
        uerr = repr(e)
    consumed = len(script) - len(user.incoming)
    ys = [((sd.encode_ds(a) if a is not None else None), int(b)) for a, b in yields]
    term = '(UserOnly %s %s %d)' % (
        clist(['(%s, %d)' % (cbytes(d) if d else '[]', st) for d, st in script]),
        clist(['(%s, %d)' % ('None' if a is None else '(Some %s)' % cbytes(a), b) for a, b in ys]), consumed)
    human = dict(variant=variant + '-user-only', n_matches=n, statuses=[hex(s) for _d, s in pend], final=hex(final),
                 yielded=len(ys), yielded_statuses=[hex(b) for _a, b in ys], consumed=consumed, user_error=uerr,
                 max_pdu=0, pc=pc)
    return term, human


def find_prepared_cases(rng, variant):
    """Two queries PREPARED on one association (the service called, nothing iterated yet) and then consumed in reverse
    order - or only the second one consumed.  The peer answers every request when it arrives, in order of arrival.
    Each consumer must get the matches of ITS query.  (One UserOnly case per consumed query.)"""
    from pynetdicom2 import sopclass, dimsemessages as dm, dsutils
    sop = MWL if variant == 'worklist' else FIND
    user = sd.Lab()
    pc = rng.choice([1, 3, 255])
    m1 = ids(rng)
    m2 = m1 + 1 if m1 < 65535 else 1
    specs = {}
    for mid, base in ((m1, 10), (m2, 20)):
        n = rng.choice([1, 2, 3])
        specs[mid] = [(sd.encode_ds(sd.small_dataset(base + k)), rng.choice([0xFF00, 0xFF01])) for k in range(n)] + [(b'', 0)]
    pops = [0]
    plain_receive = user.assoc.receive

    def receive():
        r = plain_receive()
        pops[0] += 1
        return r
    user.assoc.receive = receive

    def send(gen):
        cmd = b''
        for p in gen:
            for it in p.data_value_items:
                if it.data_value[0] in (1, 3):
                    cmd += it.data_value[1:]
        mid = int(dsutils.decode(cmd, True, True).MessageID)
        for data, st in specs.get(mid, []):
            m = dm.CFindRSPMessage()
            m.message_id_being_responded_to = mid
            m.sop_class_uid = sop
            m.status = st
            if data:
                m.data_set = data
            user.incoming.append((m, pc))
    user.assoc.dul.send = send
    scu = sopclass.modality_work_list_scu if variant == 'worklist' else sopclass.qr_find_scu
    mode = rng.choice(['reverse-order', 'second-only'])
    g1 = scu(user.assoc, user.ctx(pc, sop), sd.small_dataset(5), m1)
    g2 = scu(user.assoc, user.ctx(pc, sop), sd.small_dataset(6), m2)
    out = []
    for mid, g in ([(m2, g2), (m1, g1)] if mode == 'reverse-order' else [(m2, g2)]):
        before = pops[0]
        ys, uerr = [], None
        try:
            for a, b in g:
                ys.append(((sd.encode_ds(a) if a is not None else None), int(b)))
        except Exception as e:  # noqa
            uerr = repr(e)
        consumed = pops[0] - before
        script = specs[mid]
        term = '(UserOnly %s %s %d)' % (
            clist(['(%s, %d)' % (cbytes(d) if d else '[]', st) for d, st in script]),
            clist(['(%s, %d)' % ('None' if a is None else '(Some %s)' % cbytes(a), b) for a, b in ys]), consumed)
        out.append((term, dict(variant=variant + '-prepared-' + mode, n_matches=len(script) - 1,
                               statuses=[hex(s) for _d, s in script[:-1]], final='0x0', yielded=len(ys),
                               yielded_statuses=[hex(b) for _a, b in ys], consumed=consumed, user_error=uerr,
                               max_pdu=0, pc=pc, message_id=mid)))
    return out


def find_wrapper_case(rng, root_name):
    """pynetdicom2.c_find, the one-call wrapper, against a real server entity over loopback TCP."""
    import pynetdicom2
    import loopback
    from pynetdicom2 import applicationentity as aemod, sopclass, dimsemessages as dm, statuses
    root = sopclass.PATIENT_ROOT_FIND_SOP_CLASS if root_name == 'patient' else sopclass.STUDY_ROOT_FIND_SOP_CLASS
    n = rng.choice([0, 1, 2, 5])
    matches = [(sd.small_dataset(k, rng.choice([0, 30, 3000])) if rng.random() > 0.12 else empty_dataset(),
                rng.choice([0xFF00, 0xFF01])) for k in range(n)]
    query = sd.small_dataset(99, rng.choice([0, 50]))
    seen = []
    reuse = rng.random() < 0.4

    class Srv(aemod.AE):
        def on_receive_find(self, context, ds):
            seen.append((str(context.sop_class), sd.encode_ds(ds)))
            pairs = [(d, statuses.Status(st, dm.CFindRSPMessage)) for d, st in matches]
            return sd.reusing_one_object(pairs) if reuse else iter(pairs)
    srv = Srv('SERVER', 0, max_pdu_length=rng.choice([0, 256, 16384])).add_scp(sopclass.qr_find_scp)
    srv.handle_error = lambda *a: None
    ys, err = [], None
    with loopback.serving(srv) as port:
        try:
            args = (loopback.remote(port), 'CLIENT', query) + (() if root_name == 'patient' and rng.random() < 0.5 else (root,))
            for a, b in pynetdicom2.c_find(*args):
                ys.append(((sd.encode_ds(a) if a is not None else None), int(b)))
        except Exception as e:  # noqa
            err = repr(e)
    query_seen = len(seen) == 1 and seen[0] == (str(root), sd.encode_ds(query))
    term = '(Wrapper %s %s %s)' % (
        cbool(query_seen), clist(['(%s, %d)' % (cbytes(sd.encode_ds(d)), st) for d, st in matches]),
        clist(['(%s, %d)' % ('None' if a is None else '(Some %s)' % cbytes(a), b) for a, b in ys]))
    human = dict(variant='c_find-wrapper-' + root_name, n_matches=n, statuses=[hex(st) for _d, st in matches], error=err,
                 yielded=len(ys), yielded_statuses=[hex(b) for _a, b in ys], query_seen=query_seen, max_pdu=srv.max_pdu_length,
                 handler_calls=len(seen))
    return term, human


def find_wrapper_repeated(rng, times):
    """A polling client: pynetdicom2.c_find called `times` times from one thread; the LAST call is the observation."""
    import pynetdicom2
    import loopback
    from pynetdicom2 import applicationentity as aemod, sopclass, dimsemessages as dm, statuses
    matches = [(sd.small_dataset(k), 0xFF00) for k in range(2)]
    query = sd.small_dataset(99)
    seen = []

    class Srv(aemod.AE):
        def on_receive_find(self, context, ds):
            seen.append(sd.encode_ds(ds))
            return iter([(d, statuses.Status(st, dm.CFindRSPMessage)) for d, st in matches])
    wire_ids = []

    def recording_find_scp(asce, ctx, msg):
        wire_ids.append(int(msg.message_id))
        return sopclass.qr_find_scp(asce, ctx, msg)
    recording_find_scp.sop_classes = list(sopclass.qr_find_scp.sop_classes)
    srv = Srv('SERVER', 0).add_scp(recording_find_scp)
    srv.handle_error = lambda *a: None
    ys, err, done = [], None, 0
    drawn = [pynetdicom2._new_msg_id() for _ in range(40000)]      # a long-lived thread: many ids already handed out
    with loopback.serving(srv) as port:
        try:
            for _k in range(times):
                ys = [((sd.encode_ds(a) if a is not None else None), int(b))
                      for a, b in pynetdicom2.c_find(loopback.remote(port), 'CLIENT', query)]
                done += 1
        except Exception as e:  # noqa
            err = repr(e)
            ys = []
    ids_unique = len(set(drawn + wire_ids)) == len(drawn) + len(wire_ids)
    query_seen = (done == times and len(seen) == times and all(x == sd.encode_ds(query) for x in seen) and ids_unique)
    term = '(Wrapper %s %s %s)' % (
        cbool(query_seen), clist(['(%s, %d)' % (cbytes(sd.encode_ds(d)), st) for d, st in matches]),
        clist(['(%s, %d)' % ('None' if a is None else '(Some %s)' % cbytes(a), b) for a, b in ys]))
    human = dict(variant='c_find-wrapper-repeated', calls=times, completed=done, message_ids_unique=ids_unique,
                 wire_ids=wire_ids[:3] + wire_ids[-2:], n_matches=2, statuses=['0xff00'] * 2, error=err,
                 yielded=len(ys), yielded_statuses=[hex(b) for _a, b in ys], query_seen=query_seen, max_pdu=65536)
    return term, human


def main_c16(tier, seed):
    dec = common.Decision('C16', tier, seed)
    common.static_gate(dec, ['Properties/C16.v'], ['Proofs/ServicesProofs.v'])
    rng = random.Random(seed)
    obs = []
    for variant in ('qr', 'worklist'):
        for _ in range(80 if tier == 'quick' else 800):
            obs.append(find_case(rng, variant))
        for _ in range(40 if tier == 'quick' else 400):
            obs.append(find_user_case(rng, variant))
        for _ in range(6 if tier == 'quick' else 40):
            obs.extend(find_prepared_cases(rng, variant))
    for root_name in ('patient', 'study'):
        for _ in range(6 if tier == 'quick' else 40):
            obs.append(find_wrapper_case(rng, root_name))
    obs.append(find_wrapper_repeated(rng, 70 if tier == 'quick' else 140))
    return finish(dec, 'C16', obs, 'fcase', [('corr', 'find_corr'), ('spec', 'find_spec')],
                  ('query/retrieve C-FIND and modality worklist: result sequences of length 0,1,2,3,7 with seeded data sets '
                   'of several sizes and any mix of FF00 / FF01, maximum PDU lengths forcing multi-fragment responses, the '
                   'provider\'s responses passed through the real encoder and decoder to the real user side; and the user side alone on '
                   'scripted responses ending with success / failure / cancel followed by further messages; and the one-call '
                   'pynetdicom2.c_find wrapper against a real server entity over loopback TCP (patient and study root)'),
                  lambda h: (h['variant'], h['n_matches'], tuple(h['statuses']), h['max_pdu'], h.get('final')), 'wrong-find-results')


# ------------------------------------------------------------------------------------------------ C19
def get_scu_cases(rng, count, as_c17=False):
    from pynetdicom2 import sopclass, dimsemessages as dm
    out = []
    for _ in range(count):
        lab = sd.Lab(16384)
        lab.ae.context_def_list = {}
        n = rng.choice([0, 1, 2, 3, 5]) if not as_c17 else 1
        msgs_terms = []
        plan = []
        outcomes = []
        for k in range(n):
            for _p in range(rng.choice([0, 0, 1, 2])):
                plan.append(('pending',))
            plan.append(('store', k))
        if rng.random() < 0.5:
            plan.append(('pending',))
        final = rng.choice([0, 0xB000, 0xA701, 0xFE00, 0xC001, 0x0122])
        plan.append(('final', final))
        for _a in range(rng.choice([1, 1, 2])):
            plan.append(('after',))          # must not be consumed
        store_pcs = {}
        inst_list = []
        first_rq = None
        for step in plan:
            if step[0] in ('pending', 'final', 'after'):
                m = dm.CGetRSPMessage()
                m.message_id_being_responded_to = 5
                m.sop_class_uid = GET
                m.status = 0xFF00 if step[0] != 'final' else step[1]
                lab.incoming.append((m, 1))
                msgs_terms.append('(GetRsp %d)' % (step[1] if step[0] == 'final' else 0xFF00))
            else:
                k = step[1]
                pc = rng.choice([3, 5, 7])
                mid = ids(rng)
                inst = '1.2.3.%d.%d' % (k, rng.randint(0, 999))
                # one C-GET may deliver instances of several storage classes, on several contexts, some kept in files
                # (store_in_file) and some in memory
                cls_k = CT if (pc != 7 or as_c17) else MR
                m = dm.CStoreRQMessage()
                m.message_id = mid
                m.sop_class_uid = cls_k
                m.affected_sop_instance_uid = inst
                m.priority = 0
                ds = sd.small_dataset(k)
                ds.SOPInstanceUID = inst
                if cls_k == MR:
                    import io
                    lab.ae.store_in_file = set([MR])
                    m.data_set = io.BytesIO(sd.encode_ds(ds))
                else:
                    m.data_set = sd.encode_ds(ds)
                lab.incoming.append((m, pc))
                lab.ae.context_def_list[pc] = lab.ctx(pc, cls_k)
                o = rng.choice([sd.Outcome(0), sd.Outcome(0xB000), sd.Outcome(0xA700), sd.Outcome(error=True)])
                outcomes.append(o)
                rqt = sd.c_rq(1, pc, mid, cls_k, inst)
                msgs_terms.append('(StoreRq %s %s)' % (rqt, c_outcome(o)))
                if first_rq is None:
                    first_rq = (rqt, o, pc, mid, inst)
        lab.outcomes['store'] = list(outcomes)
        lab.store_handler_closes = rng.random() < 0.3      # the application's store handler closes the file it was given
        yields = []
        err = None
        try:
            for ctx, ds in sopclass.qr_get_scu(lab.assoc, lab.ctx(1, GET), sd.small_dataset(0), 5):
                if hasattr(ds, 'read'):                  # an instance kept in a file: the caller is handed the file
                    from pynetdicom2 import dsutils
                    raw = lab.closed_files[id(ds)] if getattr(ds, 'closed', False) else ds.read()
                    ds = dsutils.decode(raw, True, True)
                yields.append(str(ds.SOPInstanceUID))
        except Exception as e:  # noqa
            err = repr(e)
        sent = [r for r in lab.sent() if 'cf' in r]
        rsps = [r for r in sent if r['cf'] == 0x8001]
        left = len(lab.incoming)
        if as_c17:
            rqt, o, pc, mid, inst = first_rq
            term = '(mkpcase PGetStoreRsp %s %s [] 0 [] %s)' % (rqt, c_outcome(o), clist([sd.c_rsp(r) for r in rsps]))
            human = dict(provider='PGetStoreRsp', pc=pc, message_id=mid, sop_class=CT, instance=inst,
                         handler=('EventHandlingError' if o.error else hex(o.status)), error=err,
                         responses=[dict((k, v) for k, v in r.items() if k != 'data' and v is not None) for r in rsps])
        else:
            term = '(mkgcase %s %s %s %s %d)' % (clist(msgs_terms), clist([sd.c_rsp(r) for r in rsps]),
                                                 clist([cbytes(y.encode()) for y in yields]), cbool(err is None), left)
            human = dict(plan=[s[0] for s in plan], n_stores=n, final=hex(final), error=err, yielded=yields,
                         responses=[(r['pc'], r['mid_resp'], r['status']) for r in rsps], unconsumed=left,
                         handler=[('err' if o.error else hex(o.status)) for o in outcomes])
        out.append((term, human))
    return out


def move_case(rng):
    from pynetdicom2 import sopclass, dimsemessages as dm
    lab = sd.Lab(rng.choice([100, 16384]))
    pc, mid = rng.choice([1, 9, 255]), ids(rng)
    msg = dm.CMoveRQMessage()
    msg.message_id = mid
    msg.sop_class_uid = MOVE
    msg.priority = 0
    msg.move_destination = 'DEST'
    msg.data_set = sd.encode_ds(sd.small_dataset(0))
    n = rng.choice([0, 0, 1, 2, 3, 6])
    codes = [sub_code(rng) for _ in range(n)]
    lab.sub_outcomes = codes
    dsets = []
    insts = []
    for k in range(n):
        d = sd.small_dataset(k)
        d.SOPClassUID = CT
        d.SOPInstanceUID = '1.2.3.%d.%d' % (k, rng.randint(0, 99))
        insts.append(str(d.SOPInstanceUID))
        dsets.append(d)
    # the node the application designates need not be called like the Move Destination of the request (an alias table)
    dest = dict(aet=rng.choice(['DEST', 'DEST', 'STORE_REAL']), address='10.0.0.1', port=104)
    known = n > 0 or rng.random() < 0.5
    lab.move_plan = (dest if known else None, n, iter(dsets))
    lab.release_raises = known and rng.random() < 0.2     # the destination confirms the release too late
    err = None
    try:
        sopclass.qr_move_scp(lab.assoc, lab.ctx(pc, MOVE), msg)
    except Exception as e:  # noqa
        err = '%s: %s' % (type(e).__name__, e)
    sent = [r for r in lab.sent() if 'cf' in r]
    subops = [(op['instance'], 1 if op['dest'] == dest else 0) for op in lab.sub_ops]
    term = '(mkmvcase %s %d %s %s %s %s %s)' % (
        sd.c_rq(0x21, pc, mid, MOVE, None), n, clist([SUBCLS[c] for c in codes]),
        clist([cbytes(i.encode()) for i in insts]), cbool(known), clist([sd.c_rsp(r) for r in sent]),
        clist(['(%s, %d)' % (cbytes(i.encode()), ok) for i, ok in subops]))
    human = dict(n_instances=n, destination_known=known, sub_outcomes=[hex(c) for c in codes], error=err,
                 responses=[(hex(r['status'] or 0), r['rem'], r['comp'], r['fail'], r['warn']) for r in sent],
                 sub_operations=subops, sub_assoc_log=lab.sub_log, release_raises=lab.release_raises,
                 designated=dest['aet'], reached=[a.remote_ae for a in lab.sub_assocs])
    return term, human


def main_c19(tier, seed):
    dec = common.Decision('C19', tier, seed)
    common.static_gate(dec, ['Properties/C19.v'], ['Proofs/ServicesProofs.v'])
    rng = random.Random(seed)
    gets = get_scu_cases(rng, 80 if tier == 'quick' else 800)
    moves = [move_case(rng) for _ in range(80 if tier == 'quick' else 800)]
    run = common.CoqRun('C19')
    f1, b1, o1, k1 = common.run_sharded(run, 'Get', IMPORTS, 'gcase', [t for t, _h in gets],
                                        [('corr', 'get_corr'), ('spec', 'get_spec')], size=40)
    f2, b2, o2, k2 = common.run_sharded(run, 'Move', IMPORTS, 'mvcase', [t for t, _h in moves],
                                        [('corr', 'move_corr'), ('spec', 'move_spec')], size=40)
    dec.obligations(o1 + o2, k1 + k2)
    cov = dec.coverage
    cov['evaluations'] = len(gets) + len(moves)
    cov['distinct_nontrivial'] = len(set(repr((h['plan'], h['handler'])) for _t, h in gets if h['n_stores'] >= 1)) + \
        len(set(repr((h['n_instances'], h['sub_outcomes'], h['destination_known'])) for _t, h in moves))
    cov['rule'] = ('C-GET user: 0..5 C-STORE requests interleaved with pending C-GET responses, per-request handler outcomes, '
                   'message ids and context ids, final statuses success/warning/failure/cancel, one message after the final '
                   'response; C-MOVE provider: 0..6 instances, per-sub-operation outcomes success/warning/failure, '
                   'destination known / unknown; distinct = distinct plans')
    cov['distribution'] = dict(get_cases=len(gets), move_cases=len(moves),
                               moves_nothing_to_move=sum(1 for _t, h in moves if h['n_instances'] == 0),
                               moves_release_times_out=sum(1 for _t, h in moves if h['release_raises']),
                               errors=sum(1 for _t, h in gets + moves if h['error']))
    cov['samples'] = [gets[3][1], moves[3][1]]
    for obs, failing, label in ((gets, f1, 'get'), (moves, f2, 'move')):
        spec_set = set(failing['spec'])
        for i in failing['spec']:
            dec.report(dict(obs[i][1], kind='sub-operations-' + label))
        for i in failing['corr']:
            if i not in spec_set:
                dec.report(dict(obs[i][1], kind='model-differs-' + label, theorem='correspondence'), no_input=True)
    for name, out in b1 + b2:
        dec.report(dict(kind='case-file-broken', file=name, detail=out), no_input=True)
    run.keep = bool(dec.violations)
    run.cleanup()
    return dec.finish()


def finish(dec, prop, obs, case_type, checks, rule, key, kind):
    run = common.CoqRun(prop)
    failing, broken, n_obl, n_ok = common.run_sharded(run, 'Svc', IMPORTS, case_type, [t for t, _h in obs], checks, size=40)
    dec.obligations(n_obl, n_ok)
    cov = dec.coverage
    cov['evaluations'] = len(obs)
    cov['distinct_nontrivial'] = len(set(repr(key(h)) for _t, h in obs))
    cov['rule'] = rule
    cov['distribution'] = dict(errors=sum(1 for _t, h in obs if h.get('error') or h.get('provider_error') or h.get('user_error')))
    cov['samples'] = [h for _t, h in obs[2:4]]
    spec_set = set(failing['spec'])
    for i in failing['spec']:
        dec.report(dict(obs[i][1], kind=kind))
    for i in failing['corr']:
        if i not in spec_set:
            dec.report(dict(obs[i][1], kind='model-differs', theorem='correspondence'), no_input=True)
    for name, out in broken:
        dec.report(dict(kind='case-file-broken', file=name, detail=out), no_input=True)
    if prop == 'C16':
        # one provider answers several queries at the same time (one thread per association): the identifier a thread
        # sends is the encoding of ITS match
        import race
        dec.concurrent_use([race.dataset_ops, race.message_ops])
    run.keep = bool(dec.violations)
    run.cleanup()
    return dec.finish()


def replay(rec):
    for k, v in rec.items():
        print(k, ':', v)
    return 0
