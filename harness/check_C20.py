"""C20 — concurrent associations on one application entity are isolated.
Static: Properties/C20.v (non-interference for any interleaving of any number of associations; message
ids unique).  Per run: (a) static audit: no run-time code writes state shared between associations;
(b) several REAL providers, each in its own thread, stepped one loop iteration at a time in seeded
interleavings: each one's observation equals the model of its solo script (prov_corr) and its own solo
run (isolated); (c) N concurrent clients against one server entity over real loopback TCP, each with its
own data, some aborting; (d) message ids from the convenience API in concurrent threads."""
import os
import random
import threading
import time

import audit
import common
import loopback
import provider_driver as pd
import world
from common import cbytes, cbool, clist


def interleaved_cases(rng, tier):
    corpus = [b for _n, b in pd.ACCEPTOR_CORPUS]
    cases = []
    rounds = 6 if tier == 'quick' else 60
    for _ in range(rounds):
        k = rng.choice([2, 3, 4])
        convs = [rng.choice(corpus)() for _i in range(k)]
        opss = [pd.to_script(c, None, rng.random() < 0.5) for c in convs]
        order = []
        remaining = [len(o) + 2 for o in opss]
        while any(r > 0 for r in remaining):
            i = rng.choice([j for j, r in enumerate(remaining) if r > 0])
            burst = rng.choice([1, 1, 2, 5])
            for _b in range(min(burst, remaining[i])):
                order.append(i)
            remaining[i] -= burst
        results = world.run_providers_interleaved([pd.world_script(o) for o in opss], order)
        for i, ops in enumerate(opss):
            r = results[i]
            if r is None:
                cases.append((dict(label='interleaved provider did not finish', index=i), None, ops, None))
                continue
            r['final']['ngiven'] = len(r['given'])
            r['consumed'] = len(ops) - r['script_left']
            solo = pd.run(ops, True)
            cases.append((dict(label='interleaved', k=k, index=i, schedule_len=len(order)), r, ops, solo))
    return cases


def loopback_concurrency(rng, n_clients, tier):
    """N clients against one server entity; returns list of (expected, got, aborted, error)."""
    from pynetdicom2 import applicationentity as aemod, sopclass, statuses, dimsemessages as dm
    from pydicom.dataset import Dataset
    stores = {}
    served = {}
    lock = threading.Lock()
    IMPLICIT, EXPLICIT = '1.2.840.10008.1.2', '1.2.840.10008.1.2.1'
    opened = threading.Barrier(n_clients)
    querying = threading.Barrier(n_clients - len([i for i in range(n_clients) if i % 5 == 4]))

    class Server(aemod.AE):
        def on_receive_store(self, context, ds):
            import pydicom
            d = pydicom.dcmread(ds)
            with lock:
                stores.setdefault(str(d.PatientID), []).append(str(d.SOPInstanceUID))
                # the negotiated parameters this request was served with: (context id, class, transfer syntax)
                served.setdefault(str(d.PatientID), []).append(
                    (int(context.id), str(context.sop_class), str(context.supported_ts),
                     str(d.file_meta.TransferSyntaxUID)))
            return statuses.SUCCESS

        def on_receive_find(self, context, ds):
            pid = str(ds.PatientID)
            n = 2 + int(pid.split('-')[-1]) % 3

            def matches():
                for j in range(n):
                    r = Dataset()
                    r.PatientID = pid
                    r.PatientName = 'Match^%s^%d' % (pid, j)
                    time.sleep(0.005)                  # lets the other associations' queries interleave
                    yield r, statuses.C_FIND_PENDING
            return matches()
    CT = '1.2.840.10008.5.1.4.1.1.2'
    from pydicom import uid as pyuid0
    srv = Server('SERVER', 0, supported_ts=[pyuid0.UID(IMPLICIT), pyuid0.UID(EXPLICIT)],
                 max_pdu_length=rng.choice([1024, 16384])).add_scp(sopclass.verification_scp) \
        .add_scp(sopclass.qr_find_scp)
    srv.add_scp(type('S', (), dict(sop_classes=[CT], store_in_file=True,
                                  __call__=lambda self, *a: sopclass.storage_scp(*a)))())
    srv.handle_error = lambda *a: None
    results = [None] * n_clients
    negotiated = [None] * n_clients

    def client(i, port):
        pid = 'P-%d-%d' % (i, i)
        expected = []
        got = []
        aborted = (i % 5 == 4)
        err = None
        try:
            # every client negotiates something else: the order of its classes (so that one context id means a
            # different class on each association) and its transfer syntaxes
            from pydicom import uid as pyuid
            adders = [lambda c: c.add_scu(sopclass.verification_scu), lambda c: c.add_scu(sopclass.qr_find_scu),
                      lambda c: c.add_scu(sopclass.storage_scu, [CT])]
            adders = adders[i % 3:] + adders[:i % 3]
            my_ts = [[IMPLICIT], [EXPLICIT, IMPLICIT], [EXPLICIT]][i % 3 if i % 2 else (i // 2) % 3]
            cli = aemod.ClientAE('C%d' % i, supported_ts=[pyuid.UID(t) for t in my_ts],
                                 max_pdu_length=[0, 256, 4096, 65536][i % 4])
            for add in adders:
                add(cli)
            cli.timeout = 20
            with cli.request_association(loopback.remote(port)) as assoc:
                negotiated[i] = dict((str(c), (int(v[0]), str(v[1]))) for c, v in assoc.sop_classes_as_scu.items())
                try:
                    opened.wait(30)                      # all associations are open before the first request
                except threading.BrokenBarrierError:
                    pass
                st = assoc.get_scu(sopclass.VERIFICATION_SOP_CLASS)(i + 1)
                expected.append('echo:0')
                got.append('echo:%d' % int(st))
                for j in range(1 + i % 3):
                    ds = Dataset()
                    ds.SOPClassUID = CT
                    ds.SOPInstanceUID = '1.2.3.%d.%d' % (i, j)
                    ds.PatientID = pid
                    ds.PatientName = 'N' * (1 + (i * 37 + j * 11) % 3000)
                    st = assoc.get_scu(CT)(ds, 10 + j)
                    expected.append('store:%s:0' % ds.SOPInstanceUID)
                    got.append('store:%s:%d' % (ds.SOPInstanceUID, int(st)))
                    if aborted and j == 0:
                        raise RuntimeError('client gives up')        # leaves the association through an error: abort
                q = Dataset()
                q.PatientID = pid
                q.PatientName = ''
                try:
                    querying.wait(30)                    # the queries of all associations run at the same time
                except threading.BrokenBarrierError:
                    pass
                # observation only: the message id every response received on THIS association answers
                answered_ids = []
                plain_receive = assoc.receive

                def recording_receive():
                    m, pc = plain_receive()
                    answered_ids.append(getattr(m, 'message_id_being_responded_to', None))
                    return m, pc
                assoc.receive = recording_receive
                my_id = 1000 + i
                for rds, status in assoc.get_scu(sopclass.PATIENT_ROOT_FIND_SOP_CLASS)(q, my_id):
                    got.append('find:%s:%s' % (str(rds.PatientName) if rds is not None else None, hex(int(status))))
                assoc.receive = plain_receive
                n = 2 + int(pid.split('-')[-1]) % 3
                expected += ['find:Match^%s^%d:0xff00' % (pid, j) for j in range(n)] + ['find:None:0x0']
                if any(x != my_id for x in answered_ids):
                    got.append('responses-answer-foreign-message-ids:%r' % (answered_ids,))
        except RuntimeError:
            pass
        except Exception as e:  # noqa
            err = repr(e)
        results[i] = dict(client=i, expected=expected, got=got, aborted=aborted, error=err, patient=pid)
    with loopback.serving(srv) as port:
        threads = [threading.Thread(target=client, args=(i, port)) for i in range(n_clients)]
        for t in threads:
            t.daemon = True
            t.start()
        for t in threads:
            t.join(120)
        time.sleep(0.3)
    for r in results:
        if r is None:
            continue
        pid = r['patient']
        i = r['client']
        want = ['1.2.3.%d.%d' % (i, j) for j in range(1 + i % 3)]
        if r['aborted']:
            want = want[:1]
        r['server_stored'] = sorted(stores.get(pid, []))
        r['server_expected'] = sorted(want)
        # negotiated parameters: every store of this client was served on the context this client negotiated for
        # the class, with the transfer syntax the acceptor chose for it, and the file says the same
        neg = (negotiated[i] or {}).get(CT)
        r['negotiated'] = negotiated[i]
        r['served_with'] = served.get(pid, [])
        if neg is not None and any(x != (neg[0], CT, neg[1], neg[1]) for x in r['served_with']):
            r['got'] = r['got'] + ['served-with-foreign-parameters']
    return results


def stalled_peer_case():
    """Requesting side: one entity requests two associations; the first peer accepts the TCP connection but withholds
    its A-ASSOCIATE-AC.  The second association (to a healthy server) must be established and served meanwhile: a
    stalled association does not disturb the others."""
    import socket
    from pynetdicom2 import applicationentity as aemod, sopclass
    slow = socket.socket()
    slow.bind(('127.0.0.1', 0))
    slow.listen(1)
    conns = []

    def hold():
        try:
            c, _a = slow.accept()
            conns.append(c)          # read nothing, answer nothing
        except Exception:  # noqa
            pass
    th = threading.Thread(target=hold)
    th.daemon = True
    th.start()
    srv = aemod.AE('SERVER', 0).add_scp(sopclass.verification_scp)
    cli = aemod.ClientAE('CLIENT').add_scu(sopclass.verification_scu)
    cli.timeout = 6
    got = []
    first_started = threading.Event()

    def first():
        try:
            first_started.set()
            with cli.request_association(dict(address='127.0.0.1', port=slow.getsockname()[1], aet='SLOW')):
                got.append('first:unexpectedly-established')
        except Exception as e:  # noqa
            got.append('first:%s' % type(e).__name__)
    with loopback.serving(srv) as port:
        t1 = threading.Thread(target=first)
        t1.daemon = True
        t1.start()
        first_started.wait(5)
        time.sleep(0.5)                 # the first request is now waiting for its answer
        t0 = time.time()
        second = 'second:not-finished'
        try:
            with cli.request_association(loopback.remote(port)) as assoc:
                st = assoc.get_scu(sopclass.VERIFICATION_SOP_CLASS)(1)
                second = 'second:echo:%d' % int(st)
        except Exception as e:  # noqa
            second = 'second:%s' % type(e).__name__
        dt = time.time() - t0
        if dt > 3.0:                    # far beyond what a loopback echo needs, yet below the first one's time-out
            second += ':held-up-%.0fs' % dt
        t1.join(10)
    for c in conns:
        c.close()
    slow.close()
    return dict(client='stalled-peer', expected=['second:echo:0'], got=[second], server_expected=[], server_stored=[],
                error=None, aborted=False, first=got)


def slow_callback_case():
    """Serving side: the application's on_association_request() is slow for ONE peer (a directory look-up, an
    authorisation service that takes its time); the other peers must be accepted and served meanwhile, and the entity
    must be able to request associations itself meanwhile."""
    from pynetdicom2 import applicationentity as aemod, sopclass
    entered = threading.Event()
    release = threading.Event()

    class Srv(aemod.AE):
        def on_association_request(self, asce, assoc):
            if assoc.calling_ae_title.strip() == 'SLOW':
                entered.set()
                release.wait(8)
    srv = Srv('SERVER', 0).add_scp(sopclass.verification_scp)
    slow_cli = aemod.ClientAE('SLOW').add_scu(sopclass.verification_scu)
    fast_cli = aemod.ClientAE('FAST').add_scu(sopclass.verification_scu)
    slow_cli.timeout = fast_cli.timeout = 12
    got = []

    def slow_one(port):
        try:
            with slow_cli.request_association(loopback.remote(port)) as assoc:
                got.append('slow:echo:%d' % int(assoc.get_scu(sopclass.VERIFICATION_SOP_CLASS)(1)))
        except Exception as e:  # noqa
            got.append('slow:%s' % type(e).__name__)
    with loopback.serving(srv) as port:
        t1 = threading.Thread(target=slow_one, args=(port,))
        t1.daemon = True
        t1.start()
        entered.wait(5)
        t0 = time.time()
        fast = 'fast:not-finished'
        try:
            with fast_cli.request_association(loopback.remote(port)) as assoc:
                fast = 'fast:echo:%d' % int(assoc.get_scu(sopclass.VERIFICATION_SOP_CLASS)(1))
        except Exception as e:  # noqa
            fast = 'fast:%s' % type(e).__name__
        dt = time.time() - t0
        if dt > 3.0:                    # far beyond what a loopback echo needs, yet below the callback's 8 s
            fast += ':held-up-%.0fs' % dt
        release.set()
        t1.join(10)
    return dict(client='slow-association-callback', expected=['fast:echo:0', 'slow:echo:0'], got=[fast] + got,
                server_expected=[], server_stored=[], error=None, aborted=False)


def silent_connection_case():
    """Serving side: peers that open the TCP connection and then say nothing (a port scanner, a load balancer's health
    probe, a client that hangs before its A-ASSOCIATE-RQ), some of them half-way through a request.  Whatever the server
    does about THEM (ARTIM will end them), the other peers must be accepted and served meanwhile."""
    import socket
    from pynetdicom2 import applicationentity as aemod, sopclass
    srv = aemod.AE('SERVER', 0).add_scp(sopclass.verification_scp)
    got = []
    lock = threading.Lock()

    def one(port, k):
        cli = aemod.ClientAE('FAST%d' % k).add_scu(sopclass.verification_scu)
        cli.timeout = 12
        t0 = time.time()
        try:
            with cli.request_association(loopback.remote(port)) as assoc:
                res = 'client%d:echo:%d' % (k, int(assoc.get_scu(sopclass.VERIFICATION_SOP_CLASS)(1)))
        except Exception as e:  # noqa
            res = 'client%d:%s' % (k, type(e).__name__)
        dt = time.time() - t0
        if dt > 4.0:                    # far beyond what a loopback echo needs
            res += ':held-up-%.0fs' % dt
        with lock:
            got.append(res)
    silent = []
    with loopback.serving(srv) as port:
        try:
            for k in range(3):
                c = socket.create_connection(('127.0.0.1', port), timeout=5)
                if k == 1:
                    c.sendall(b'\x01\x00\x00\x00')        # the first bytes of a request, then nothing
                silent.append(c)
            time.sleep(0.3)
            ts = [threading.Thread(target=one, args=(port, k)) for k in range(3)]
            for t in ts:
                t.daemon = True
                t.start()
            for t in ts:
                t.join(15)
        finally:
            for c in silent:
                try:
                    c.close()
                except OSError:
                    pass
    return dict(client='silent-connections', expected=['client%d:echo:0' % k for k in range(3)], got=sorted(got),
                server_expected=[], server_stored=[], error=None, aborted=False)


def same_instance_in_flight_case(workdir):
    """Directory-backed storage entity, the SAME SOP instance UID in flight on two associations at once: association A
    (a raw peer) has sent its C-STORE command and holds back the data set while association B stores the same
    instance completely; then A finishes.  Each handler must be handed exactly its own association's data set."""
    import socket
    import struct
    import pydicom
    import pynetdicom2
    from pynetdicom2 import applicationentity as aemod, sopclass, statuses, pdu, userdataitems, dimsemessages as dm, dsutils
    from pydicom.dataset import Dataset
    CT = '1.2.840.10008.5.1.4.1.1.2'
    seen = []
    lock = threading.Lock()

    def on_store(self, context, fobj):
        d = pydicom.dcmread(fobj)
        with lock:
            seen.append(str(d.PatientName))
        return statuses.SUCCESS
    d = os.path.join(workdir, 'same-uid')
    os.makedirs(d, exist_ok=True)
    srv = type('S', (pynetdicom2.StorageAE,), dict(on_receive_store=on_store))(d, 'SERVER', 0)
    srv.add_scp(sopclass.storage_scp)
    srv.handle_error = lambda *a: None

    def dataset(name):
        ds = Dataset()
        ds.SOPClassUID = CT
        ds.SOPInstanceUID = '1.2.3.777'
        ds.PatientName = name
        ds.is_implicit_VR = True
        ds.is_little_endian = True
        return ds

    def read_pdu(conn):
        head = b''
        while len(head) < 6:
            c = conn.recv(6 - len(head))
            if not c:
                return None
            head += c
        n = struct.unpack('>I', head[2:6])[0]
        body = b''
        while len(body) < n:
            c = conn.recv(n - len(body))
            if not c:
                return None
            body += c
        return head + body
    got = []
    with loopback.serving(srv) as port:
        a = socket.create_connection(('127.0.0.1', port))
        a.settimeout(10)
        try:
            items = [pdu.ApplicationContextItem('1.2.840.10008.3.1.1.1'),
                     pdu.PresentationContextItemRQ(1, pdu.AbstractSyntaxSubItem(CT), [pdu.TransferSyntaxSubItem('1.2.840.10008.1.2')]),
                     pdu.UserInformationItem([userdataitems.MaximumLengthSubItem(16384),
                                              userdataitems.ImplementationClassUIDSubItem('1.2.3.4')])]
            a.sendall(pdu.AAssociateRqPDU('SERVER', 'RAW-A', items).encode())
            read_pdu(a)                                           # A-ASSOCIATE-AC
            msg = dm.CStoreRQMessage()
            msg.message_id = 7
            msg.priority = 0
            msg.sop_class_uid = CT
            msg.affected_sop_instance_uid = '1.2.3.777'
            msg.data_set = dsutils.encode(dataset('FROM^A'), True, True)
            msg.set_length()
            pdus = [p.encode() for p in msg.encode(1, 16384)]
            a.sendall(pdus[0])                                    # the command: the server opens A's file now
            time.sleep(0.5)
            cli = aemod.ClientAE('CLIENT-B').add_scu(sopclass.storage_scu, [CT])
            cli.timeout = 8
            try:
                with cli.request_association(loopback.remote(port)) as assoc:
                    st = assoc.get_scu(CT)(dataset('FROM^B'), 3)
                    got.append('B:status:%d' % int(st))
            except Exception as e:  # noqa
                got.append('B:%s' % type(e).__name__)
            for raw in pdus[1:]:
                a.sendall(raw)                                    # now A's data set
            rsp = read_pdu(a)
            got.append('A:answered' if rsp and rsp[0] == 4 else 'A:no-response')
            a.sendall(pdu.AReleaseRqPDU().encode())
            read_pdu(a)
        except Exception as e:  # noqa
            got.append('A:%s' % type(e).__name__)
        finally:
            a.close()
        time.sleep(0.3)
    got.append('handlers:' + ','.join(sorted(seen)))
    files = sorted(os.listdir(d))
    got.append('files:%d' % len(files))
    return dict(client='same-instance-in-flight', expected=['B:status:0', 'A:answered', 'handlers:FROM^A,FROM^B', 'files:2'],
                got=got, server_expected=[], server_stored=[], error=None, aborted=False, files=files)


def msg_id_threads(n_threads, per_thread):
    import pynetdicom2
    out = [None] * n_threads

    def w(k):
        out[k] = [pynetdicom2._new_msg_id() for _ in range(per_thread)]
    ts = [threading.Thread(target=w, args=(k,)) for k in range(n_threads)]
    for t in ts:
        t.start()
    for t in ts:
        t.join(30)
    return out


def main(tier, seed):
    dec = common.Decision('C20', tier, seed)
    common.static_gate(dec, ['Properties/C20.v'], ['Proofs/MultiProofs.v', 'Proofs/ProviderProofs.v'])
    rng = random.Random(seed)
    # (a) static audit
    writes = audit.shared_writes(common.REPO)
    dec.obligations(1, 0 if writes else 1)
    # (b) interleaved real providers
    inter = interleaved_cases(rng, tier)
    mt = pd.message_table()
    env = pd.c_env(mt)
    terms = []
    for info, r, ops, solo in inter:
        if r is None:
            continue
        terms.append('(mkpc %s false 65536 %s %s %s)' % (env, clist([pd.c_op(op) for op in ops]), pd.obs_term(r), pd.obs_term(solo)))
    run = common.CoqRun('C20')
    f1, b1, o1, k1 = common.run_sharded(run, 'Inter', pd.IMPORTS, 'pcase', terms,
                                        [('corr', 'prov_corr'), ('spec', 'c03_spec')], size=10)
    dec.obligations(o1, k1)
    # (c) loopback concurrency, (d) message ids
    n_clients = 8 if tier == 'quick' else 40
    loops = loopback_concurrency(rng, n_clients, tier)
    ids = msg_id_threads(8, 200) + msg_id_threads(1, 70000)
    loops = loops + [stalled_peer_case(), slow_callback_case(), silent_connection_case()]
    import shutil
    wd = os.path.join(common.BUILD, 'c20-%d' % os.getpid())
    shutil.rmtree(wd, ignore_errors=True)
    os.makedirs(wd)
    try:
        loops.append(same_instance_in_flight_case(wd))
    finally:
        shutil.rmtree(wd, ignore_errors=True)
    lterms = []
    for r in loops:
        if r is None:
            lterms.append('(LoopClient [] [[0]] [] [[0]] false)')
            continue
        lterms.append('(LoopClient %s %s %s %s %s)' % (
            clist([cbytes(x.encode()) for x in r['expected']]), clist([cbytes(x.encode()) for x in r['got']]),
            clist([cbytes(x.encode()) for x in r['server_expected']]), clist([cbytes(x.encode()) for x in r['server_stored']]),
            cbool(bool(r['error']))))
    for lst in ids:
        lterms.append('(MsgIds %s)' % clist([str(x) for x in (lst or [0, 0])]))
    imports = 'From PND Require Import Lib.Text Corr.CorrMulti.\n'
    f2, b2, o2, k2 = common.run_sharded(run, 'Loop', imports, 'c20case', lterms, [('spec', 'c20_spec')], size=12)
    dec.obligations(o2, k2)
    cov = dec.coverage
    cov['evaluations'] = len(terms) + len(lterms) + 1
    cov['distinct_nontrivial'] = len(terms) + sum(1 for r in loops if r and len(r['got']) >= 2)
    cov['rule'] = ('static audit of shared-state writes in the run-time modules; %d rounds of 2..4 real providers in real '
                   'threads stepped one iteration at a time in seeded interleavings (each compared with the model and with '
                   'its solo run); %d concurrent loopback clients (echo, 1..3 stores with distinct data, C-FIND with '
                   'client-specific results, every fifth aborting) against one server entity; one requesting entity with a peer that '
                   'withholds its A-ASSOCIATE-AC and a healthy one; three connections that stay silent while three clients are served; '
                   'the encoding functions from four threads at once (harness/race.py); _new_msg_id in 8 threads'
                   % (6 if tier == 'quick' else 60, n_clients))
    cov['distribution'] = dict(audit_findings=len(writes), interleaved_providers=len(terms), loopback_clients=n_clients,
                               aborting_clients=sum(1 for r in loops if r and r['aborted']),
                               client_errors=sum(1 for r in loops if r and r['error']))
    cov['samples'] = [inter[0][0], dict((k, v) for k, v in (loops[1] or {}).items())]
    import race
    dec.concurrent_use(race.ALL, rounds=150 if tier == 'quick' else 1500)
    for w in writes:
        dec.report(dict(w, kind='shared-state-write', theorem='the code no longer has the separated shape C20_isolation assumes'), no_input=True)
    live = [c for c in inter if c[1] is not None]
    for c in inter:
        if c[1] is None:
            dec.report(dict(c[0], kind='interleaved-provider-stuck'))
    bad = set(f1['spec'])
    for i in sorted(bad):
        dec.report(dict(live[i][0], kind='interleaving-changes-result', ops=pd.short_ops(live[i][2]), result=pd.summary(live[i][1]),
                        solo=pd.summary(live[i][3])))
    for i in f1['corr']:
        if i not in bad:
            dec.report(dict(live[i][0], kind='model-differs', theorem='prov_corr', ops=pd.short_ops(live[i][2])), no_input=True)
    for i in f2['spec']:
        if i < len(loops):
            dec.report(dict(kind='association-disturbed', **(loops[i] or dict(client=i, error='thread did not finish'))))
        else:
            dec.report(dict(kind='message-ids-not-unique', ids=ids[i - len(loops)][:20]))
    for name, out in b1 + b2:
        dec.report(dict(kind='case-file-broken', file=name, detail=out), no_input=True)
    run.keep = bool(dec.violations)
    run.cleanup()
    return dec.finish()


def replay(rec):
    for k, v in rec.items():
        print(k, ':', v)
    return 0
