"""C14 — rejection, abort and release are reported faithfully to both sides.
Static: Properties/C14.v.  Per run: (1) the association layer's functions on scripted provider
indications (every standard (result, source, reason), sampled others, abort pairs, at every point of
a three-exchange conversation); (2) the acceptor with a refusing application; (3) the
request_association context manager's exit paths; (4) a sample of refusals / aborts / releases over
real loopback TCP with real threads."""
import random
import threading
import time

import common
import impl
import loopback
import pdumodel as pm
from common import cbool, clist

IMPORTS = 'From PND Require Import Lib.Text Model.Assoc Corr.CorrAssoc Model.PduWf Model.Pdu.\n'


def c_err(e):
    from pynetdicom2 import exceptions
    if isinstance(e, exceptions.AssociationRejectedError):
        return '(ERejected %d %d %d)' % (e.result, e.source, e.diagnostic)
    if isinstance(e, exceptions.AssociationReleasedError):
        return 'EReleased'
    if isinstance(e, exceptions.AssociationAbortedError):
        return '(EAborted %d %d)' % (e.source, e.reason_diag)
    if isinstance(e, exceptions.DCMTimeoutError):
        return 'ETimeout'
    return 'ENetDicom'


class ScriptDul(impl.StubDul):
    def __init__(self, incoming):
        impl.StubDul.__init__(self)
        self.incoming = list(incoming)
        self.killed = False

    def receive(self, timeout):
        from pynetdicom2 import exceptions
        if not self.incoming:
            raise exceptions.DCMTimeoutError()
        return self.incoming.pop(0)

    def stop(self):
        return True

    def kill(self):
        self.killed = True


def err_cases(rng, tier):
    """A PDU indicated by the provider at some point of a conversation -> the error the caller sees."""
    from pynetdicom2 import asceprovider, pdu, exceptions, sopclass, dimsemessages as dm
    import svc_driver as sd
    out = []
    triples = [(r, s, d) for r in (1, 2) for s in (1, 2, 3) for d in (1, 2, 3, 7)]
    triples += [(rng.randint(0, 255), rng.randint(0, 255), rng.randint(0, 255)) for _ in range(10 if tier == 'quick' else 200)]
    triples += [(0, 0, 0), (255, 255, 255)]
    pdus = [pdu.AAssociateRjPDU(r, s, d) for r, s, d in triples]
    pairs = [(s, r) for s in (0, 1, 2) for r in (0, 1, 2, 4, 5, 6)] + [(rng.randint(0, 255), rng.randint(0, 255)) for _ in range(10)]
    pdus += [pdu.AAbortPDU(s, r) for s, r in pairs]
    pdus += [pdu.AReleaseRqPDU(), pdu.AReleaseRpPDU()]
    for p in pdus:
        # (a) while waiting for the association reply
        if p.pdu_type in (3, 7):
            req = object.__new__(asceprovider.AssociationRequester)
            req.ae = impl.stub_assoc(16384).ae if False else type('A', (), dict(timeout=1, supported_scp={}, local_ae={'aet': 'L'},
                                                                                on_association_response=lambda self, r: None))()
            req.max_pdu_length = 16384
            req.accepted_contexts = {}
            req.context_def_list = {}
            req.remote_ae = dict(address='127.0.0.1', port=104, aet='R')
            req.sop_classes_as_scu = {}
            req.association_established = False
            req.dul = ScriptDul([p])
            try:
                req.request()
                raised = None
            except Exception as e:  # noqa
                raised = e
            out.append(('(ErrCase %s %s)' % (pm.c_pdu(pm.from_impl(p)), c_err(raised)),
                        dict(where='awaiting association reply', pdu=repr(p), raised=repr(raised))))
        # (b) before / between / during DIMSE exchanges: the next receive() of a service
        if p.pdu_type in (5, 7):
            for before in (0, 1, 2):
                lab = sd.Lab()
                a = lab.assoc
                msgs = []
                for k in range(before):
                    m = dm.CEchoRSPMessage()
                    m.status = 0
                    msgs.append((m, 1))
                a.dul = ScriptDul(msgs + [p])
                del a.receive          # use the real Association.receive
                a.ae.timeout = 1
                raised = None
                try:
                    for _ in range(before + 1):
                        sopclass.verification_scu(a, lab.ctx(1, '1.2.840.10008.1.1'), 1)
                except Exception as e:  # noqa
                    raised = e
                out.append(('(ErrCase %s %s)' % (pm.c_pdu(pm.from_impl(p)), c_err(raised)),
                            dict(where='echo exchange #%d' % before, pdu=repr(p), raised=repr(raised))))
    return out


def refuse_cases(rng, tier):
    from pynetdicom2 import asceprovider, exceptions
    import nego_driver as nd
    out = []
    triples = [None] + [(r, s, d) for r in (1, 2) for s in (1, 2, 3) for d in (1, 2, 7)] + \
        [(rng.randint(0, 255), rng.randint(0, 255), rng.randint(0, 255)) for _ in range(6)]
    for t in triples:
        acc = object.__new__(asceprovider.AssociationAcceptor)
        served = []

        class App(nd.StubAE):
            def on_association_request(self, asce, assoc):
                if t is not None:
                    raise exceptions.AssociationRejectedError(*t)

        def svc(asce, ctx, msg):
            served.append(ctx.id)
        acc.ae = App({'1.2.840.10008.1.1': svc}, ['1.2.840.10008.1.2'])
        rq = nd.make_rq([(1, '1.2.840.10008.1.1', ['1.2.840.10008.1.2'])], 16384)
        from pynetdicom2 import dimsemessages as dm
        echo = dm.CEchoRQMessage()
        echo.message_id = 1
        echo.sop_class_uid = '1.2.840.10008.1.1'
        acc.dul = ScriptDul([rq, (echo, 1)])
        acc.max_pdu_length = 16384
        acc.sop_classes_as_scp = {}
        acc.accepted_contexts = {}
        acc.remote_ae = b''
        acc.is_killed = False
        acc.association_established = False
        escaped = None
        try:
            acc.handle()
        except Exception as e:  # noqa
            escaped = e
        sent = [x for x in acc.dul.sent if hasattr(x, 'pdu_type')]
        first = sent[0] if sent else None
        dterm = 'AppAccept' if t is None else '(AppReject %d %d %d)' % t
        out.append(('(RefuseCase %s %s %s)' % (dterm, 'None' if first is None else '(Some %s)' % pm.c_pdu(pm.from_impl(first)),
                                                cbool(bool(served))),
                    dict(decision=t, sent=repr(first), services_run=served, escaped=repr(escaped), killed=acc.dul.killed)))
    return out


def exit_cases():
    """The real AEBase.request_association with the requester class replaced by a recorder."""
    from pynetdicom2 import applicationentity, asceprovider
    out = []
    for established in (True, False):
        for body_raises in (True, False):
            log = []

            class Rec(object):
                def __init__(self, ae, max_len, remote):
                    self.association_established = False

                def request(self):
                    self.association_established = established
                    if not established:
                        log.append('request-failed')
                        raise RuntimeError('no association')

                def release(self):
                    log.append('release')

                def abort(self, reason=0):
                    log.append('abort')

                def kill(self):
                    log.append('kill')
            saved = asceprovider.AssociationRequester
            asceprovider.AssociationRequester = Rec
            try:
                ae = applicationentity.ClientAE('X')
                try:
                    with ae.request_association(dict(aet='R', address='127.0.0.1', port=1)):
                        if body_raises:
                            raise ValueError('body')
                except Exception:
                    pass
            finally:
                asceprovider.AssociationRequester = saved
            ending = {'release': 'DoRelease', 'abort': 'DoAbort', 'kill': 'DoKill'}.get(
                [x for x in log if x in ('release', 'abort', 'kill')][-1] if [x for x in log if x in ('release', 'abort', 'kill')] else '', 'DoKill')
            # when request() fails the body never runs: body_raised is irrelevant
            out.append(('(ExitCase %s %s %s)' % (cbool(established), cbool(body_raises if established else True), ending),
                        dict(established=established, body_raises=body_raises, log=log)))
    return out


def exit_loopback_cases():
    """The real request_association / AssociationRequester.request over loopback: how the block is left when the peer
    accepted the association - with usable contexts, and with every proposed context refused (an association
    without contexts is still an association: leaving it normally releases it, leaving it through an error aborts it)."""
    from pynetdicom2 import applicationentity as aemod, sopclass
    out = []
    CT = '1.2.840.10008.5.1.4.1.1.2'
    from pynetdicom2 import exceptions
    for contexts_accepted in (True, False):
        for body_raises in (False, ValueError('body'), exceptions.AssociationRejectedError(2, 1, 3),
                            exceptions.DCMTimeoutError(), exceptions.ClassNotSupportedError('x'),
                            exceptions.AssociationAbortedError(2, 6), exceptions.AssociationReleasedError()):
            srv = aemod.AE('SERVER', 0).add_scp(sopclass.verification_scp)
            log = []
            with loopback.serving(srv) as port:
                cli = aemod.ClientAE('CLIENT')
                if contexts_accepted:
                    cli.add_scu(sopclass.verification_scu)
                else:
                    cli.add_scu(sopclass.storage_scu, [CT])          # the server serves no storage class
                cli.timeout = 5
                n_ctx = None
                try:
                    with cli.request_association(loopback.remote(port)) as assoc:
                        n_ctx = len(assoc.accepted_contexts)
                        for name in ('release', 'abort', 'kill'):
                            def rec(*a, _name=name, _f=getattr(assoc, name), **kw):
                                log.append(_name)
                                return _f(*a, **kw)
                            setattr(assoc, name, rec)
                        if body_raises:
                            raise body_raises
                except (ValueError, exceptions.NetDICOMError):
                    pass
                except Exception as e:  # noqa
                    log.append('unexpected:%r' % (e,))
            first = [x for x in log if x in ('release', 'abort', 'kill')]
            ending = {'release': 'DoRelease', 'abort': 'DoAbort', 'kill': 'DoKill'}.get(first[0] if first else '', 'DoKill')
            out.append(('(ExitCase true %s %s)' % (cbool(bool(body_raises)), ending),
                        dict(scenario='exit-over-loopback', contexts_accepted=contexts_accepted, n_contexts=n_ctx,
                             body_raises=repr(body_raises), log=log)))
    return out


def loopback_cases(rng, tier):
    """End to end over real TCP: refusal triples, aborts, release."""
    from pynetdicom2 import applicationentity as aemod, sopclass, exceptions
    out = []
    n = 4 if tier == 'quick' else 40
    triples = [(1, 1, 1), (2, 3, 2), (1, 2, 7)] + [(rng.randint(0, 255), rng.randint(0, 255), rng.randint(0, 255)) for _ in range(n)]
    for t in triples:
        served = []

        class Server(aemod.AE):
            def on_association_request(self, asce, assoc):
                raise exceptions.AssociationRejectedError(*t)

            def on_receive_echo(self, context):
                served.append(1)
                return super(Server, self).on_receive_echo(context)
        srv = Server('SERVER', 0).add_scp(sopclass.verification_scp)
        srv.handle_error = lambda *a: None            # socketserver would print the refusal's traceback
        seen = None
        with loopback.serving(srv) as port:
            cli = aemod.ClientAE('CLIENT').add_scu(sopclass.verification_scu)
            cli.timeout = 5
            try:
                with cli.request_association(loopback.remote(port)) as assoc:
                    assoc.get_scu(sopclass.VERIFICATION_SOP_CLASS)(1)
            except Exception as e:  # noqa
                seen = e
        out.append(('(EndToEnd (ERejected %d %d %d) %s %s)' % (t + (c_err(seen), cbool(bool(served)))),
                    dict(scenario='reject', given=t, seen=repr(seen), attrs=getattr(seen, '__dict__', None), services=len(served))))
    # abort by the acceptor's application during a service; release by the requester (normal exit)
    for reason in ([0, 2] if tier == 'quick' else [0, 1, 2, 4, 5, 6, 200]):
        class Server2(aemod.AE):
            def on_receive_echo(self, context):
                raise KeyError('application bug')     # handle() ends, kill(): the connection just drops
        # the acceptor aborting explicitly:
        holder = {}

        class Server3(aemod.AE):
            def on_association_request(self, asce, assoc):
                holder['asce'] = asce
        srv = Server3('SERVER', 0).add_scp(sopclass.verification_scp)
        seen = None
        with loopback.serving(srv) as port:
            cli = aemod.ClientAE('CLIENT').add_scu(sopclass.verification_scu)
            cli.timeout = 5
            try:
                with cli.request_association(loopback.remote(port)) as assoc:
                    assoc.get_scu(sopclass.VERIFICATION_SOP_CLASS)(1)
                    holder['asce'].abort(reason)
                    time.sleep(0.3)
                    assoc.get_scu(sopclass.VERIFICATION_SOP_CLASS)(2)
            except Exception as e:  # noqa
                seen = e
        out.append(('(EndToEnd (EAborted 2 %d) %s false)' % (reason, c_err(seen)),
                    dict(scenario='abort-by-acceptor', reason=reason, seen=repr(seen), attrs=getattr(seen, '__dict__', None))))
    return out


def main(tier, seed):
    dec = common.Decision('C14', tier, seed)
    common.static_gate(dec, ['Properties/C14.v'], ['Proofs/AssocProofs.v', 'Proofs/PduProofs.v', 'Proofs/FsmProofs.v'])
    rng = random.Random(seed)
    obs = err_cases(rng, tier) + refuse_cases(rng, tier) + exit_cases() + exit_loopback_cases()
    lb = loopback_cases(rng, tier)
    obs += lb
    run = common.CoqRun('C14')
    failing, broken, n_obl, n_ok = common.run_sharded(run, 'Assoc', IMPORTS, 'c14case', [t for t, _h in obs],
                                                      [('corr', 'c14_corr'), ('spec', 'c14_spec')], size=80)
    dec.obligations(n_obl, n_ok)
    cov = dec.coverage
    cov['evaluations'] = len(obs)
    cov['distinct_nontrivial'] = len(set(t for t, _h in obs))
    cov['rule'] = ('every standard (result, source, reason) + sampled others while awaiting the reply; abort (source, reason) '
                   'pairs and release indicated before / between / after DIMSE exchanges of a running service; the acceptor '
                   'with accepting and refusing applications (a message queued behind the request must not be served); the '
                   'four exit paths of request_association (recorder) and the real ones over loopback with usable / with all contexts refused; refusals and aborts over real loopback TCP; distinct = distinct cases')
    cov['distribution'] = dict(stub_level=len(obs) - len(lb), loopback=len(lb))
    cov['samples'] = [obs[0][1], lb[0][1]]
    spec_set = set(failing['spec'])
    for i in failing['spec']:
        dec.report(dict(obs[i][1], kind='not-faithful', case=obs[i][0][:200]))
    for i in failing['corr']:
        if i not in spec_set:
            dec.report(dict(obs[i][1], kind='model-differs', theorem='correspondence c14_corr', case=obs[i][0][:200]),
                       no_input=True)
    for name, out in broken:
        dec.report(dict(kind='case-file-broken', file=name, detail=out), no_input=True)
    run.keep = bool(dec.violations)
    run.cleanup()
    return dec.finish()


def replay(rec):
    for k, v in rec.items():
        print(k, ':', v)
    return 0
