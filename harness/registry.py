"""Per-property registry used to generate MANIFEST.json (harness/gen_manifest.py)."""

COMMON_NOTE = ('Trusted: Coq 8.16.1 kernel + VM (vm_compute, no native_compute), no axioms '
               '(Print Assumptions: closed under the global context), hand-written Spec/ transcription of '
               'the standard, the Python correspondence harness (drivers, generators, literal printer), '
               'CPython/pydicom as the execution substrate of the implementation.')

CHECKS = {
    'C01': dict(
        text=('Theorem C01_roundtrip (Coq, no axioms): for EVERY well-formed PDU value p of the model of pdu.py/'
              'userdataitems.py (all 7 PDU types, any number and order of items, presentation contexts, transfer '
              'syntaxes, sub-items of all 9 kinds in any order, any in-range field values, PDVs of any size), '
              'decode_as (type p) (encode p) = Ok p, hence re-encoding reproduces the bytes (C01_reencode). The model '
              'mirrors the code\'s look-ahead stream parser including short reads and failure kinds; it is tied to '
              'the code on every run by correspondence obligations (encode bytes, total_length, decode result on '
              '~1300 structured values incl. all 81 sub-item adjacencies; decode outcome on ~5000 malformed streams), '
              'each checked by vm_compute in the kernel, plus the round-trip oracle on the implementation itself.'),
        technique='Coq proof by structural induction over items/sub-items + model/implementation correspondence by vm_compute',
        design_ref='DESIGN.md section 6, C01',
        note=COMMON_NOTE + ' Text fields are modelled as UTF-8 byte strings; str.strip() only for ASCII white space.'),
    'C02': dict(
        text=('Theorems C02_emitted / C02_read_strictly / C02_accepted / C02_layout_injective (Coq, no axioms; C02_read_strictly: '
              'the strict length-driven parser of Spec/Ps38Layout.v applied to encode p returns exactly p): for every well-formed PDU '
              'the model encoder equals an independent declarative PS3.8/PS3.7 layout in which every length field is '
              'computed from the bytes it governs, total_length = bytes emitted, every layout of a well-formed value '
              '(any sub-item order, unknown types, many TS / PDVs) decodes to that value, and the layout is injective. '
              'Per run the implementation\'s bytes are compared with the layout and read back by a strict '
              'length-driven reference parser inside Coq.'),
        technique='Coq proof (encoder = declarative layout; lengths by induction) + correspondence + strict reference parser as oracle',
        design_ref='DESIGN.md section 6, C02',
        note=COMMON_NOTE + ' The strict parser is also the per-run oracle on the implementation\'s bytes.'),
    'C03': dict(
        text=('Theorems C03_provider_conserves / C03_provider_frames / C03_provider_events (the provider model as a whole: no byte '
              'lost, duplicated or reordered along any script; the byte strings handed to the PDU decoders are the PS3.8 frames of '
              'the delivered content whatever the cuts; PDU events arise only from them), C03_conversation (any list of emitted '
              'PDUs, any segmentation: recognised as exactly those PDUs, each decoding to its value) C03_idle_iteration_invisible / C03_same_up_to_idle_iterations / C03_idle_iteration_concrete / C03_idle_insertion_invisible (iterations in which nothing arrives change nothing and emit nothing, on the control model and on the concrete loop: histories that differ only in them have the same outputs) and C03_framing (Coq, no axioms): for EVERY list of segments of EVERY byte stream the frames the '
              'provider\'s buffer discipline recognises, and the leftover, are those of the whole stream (induction on the '
              'segment list over a prefix-monotonicity lemma for frame extraction), so no byte is lost, duplicated or '
              'reordered whatever the segmentation. The provider-level claim (same indications / replies) is carried by '
              'the C05 control theorems plus, per run, ~1500 executions of the REAL provider loop under a deterministic '
              'scripted transport on every cut of every peer block of an 18-conversation corpus: model = implementation '
              'step by step, and result = that of the one-PDU-per-segment delivery.'),
        technique='Coq proof by induction over segment lists + model/implementation correspondence of the real event loop',
        design_ref='DESIGN.md section 6, C03',
        note=COMMON_NOTE + ' The scripted world (harness/world.py) stands in for kernel TCP, select, the clock, the user queue and '
             'thread start: one script operation per loop iteration; it can deliver every segmentation and arrival order but not '
             'preemption inside an iteration (there is one provider thread per association). Reset-while-sending (EPIPE) is not in the alphabet.'),
    'C04': dict(
        text=('Theorems C04_every_cell, C04_table_size, C04_model_conforms (the control model used by C05/C12/C13 conforms to the '
              'table in all 3900 cells, statically). Proof over the complete behaviour of the code: the real StateMachine is exercised on all 13 states x 19 '
              'events x both roles x every applicable primitive kind (702 cells) with a recording transport, queue and '
              'ARTIM timer; Coq checks every observed cell against the independently transcribed PS3.8 Table 9-10 / '
              'Tables 9-6..9-9 (wire PDU, indication, close/open, ARTIM effect, next state; undefined cells: no effect) '
              'by vm_compute, and theorem C04_every_cell lifts it to every state, event and role. Exhaustive, so the '
              'theorem is about the live code.'),
        technique='Coq proof by reflection over an exhaustive behavioural table regenerated from the code',
        design_ref='DESIGN.md section 6, C04',
        note=COMMON_NOTE + ' The recording provider/transport (harness/world.py) abstracts each effect (PDU type, abort source, '
             'identity with the triggering primitive); AA-4 accepts any abort source in the indication.'),
    'C05': dict(
        text=('Theorems C05_invariants / C05_step_outputs / C05_follows_table / C05_event_matches_primitive / '
              'C05_concrete (Coq, no axioms): the control part of the provider loop (Model.Fsm.cstep: socket reader, event '
              'queue, state machine, timer, fragment generator, reassembly result) is a finite-state machine over a finite '
              'input classification; a set of 323 control states is shown by reflection to contain the initial states and '
              'to be closed under every legal input, so for ALL histories of ANY length: the loop never dies, ARTIM runs iff '
              'Sta2/Sta13, idle iff transport closed, P-DATA only in the data-transfer states, nothing indicated once the '
              'association is over, every dispatched event handled exactly as the independently transcribed Table 9-10 '
              'prescribes; the concrete model with buffers and PDU values projects onto it. Tie: the real loop under the '
              'scripted world vs the model after EVERY iteration (state, socket, timer, buffer length, wire, indications) '
              'on exhaustive histories to a depth + random walks, and the invariants evaluated on the implementation trace; '
              'plus the exhaustive cell table of C04.'),
        technique='Coq proof by reflection over a closed finite control abstraction lifted to all histories by induction + step-wise correspondence',
        design_ref='DESIGN.md section 6, C05',
        note=COMMON_NOTE + ' The scripted world (harness/world.py) stands in for kernel TCP, select, the clock, the user queue and '
             'thread start: one script operation per loop iteration; it can deliver every segmentation and arrival order but not '
             'preemption inside an iteration (there is one provider thread per association). Reset-while-sending (EPIPE) is not in the alphabet.'),
    'C06': dict(
        text=('Theorem C06_fragmentation (Coq, no axioms): for ALL command-set bytes, data-set bytes, context ids and '
              'every maximum PDU length m >= 7 (unbounded, 2^32-1 included) the model of chunks/fragment/'
              'DIMSEMessage.encode yields command fragments then data fragments, each non-empty, within m, on the '
              'message context, flagged 1..1 3 / 0..0 2 with exactly one last fragment per stream, concatenating '
              'byte-exactly to the inputs; C06_file_equals_bytes: the file variant equals the bytes variant. '
              'The model is tied to the code on every run by correspondence obligations (model = observed fragments '
              'of the real Association.send, kernel-checked by vm_compute) plus the property oracle on the observation.'),
        technique='Coq proof by induction over the chunk list + model/implementation correspondence by vm_compute',
        design_ref='DESIGN.md section 6, C06',
        note=COMMON_NOTE + ' Command-set bytes are taken from the implementation (pydicom) and are a parameter of the theorem.'),
    'C07': dict(
        text=('Theorem C07_reassembly (Coq, no axioms): for EVERY well-formed message (command set read by the strict '
              'implicit-VR-LE reader, command field in MESSAGE_TYPE, CommandDataSetType = 0101H iff no data set), EVERY data '
              'set, EVERY maximum length (0 or >= 7) and EVERY grouping of the fragments produced by DIMSEMessage.encode '
              'into P-DATA-TF PDUs, the model of fsm.DIMSEDecoder reports still-receiving after every PDU but the last and '
              'then delivers the message of the right type and context with identical command set and data bytes (in '
              'memory, or after the meta header in the storage file). Tie: real DIMSEDecoder fed with real PDUs for every '
              'composition of the fragment list of messages of all 23 classes (in-memory and file-backed, files re-read '
              'with pydicom) vs the model; MESSAGE_TYPE tabulated and checked against PS3.7.'),
        technique='Coq proof (non-breaking-run invariant + grouping lemma by induction) + model/implementation correspondence',
        design_ref='DESIGN.md section 6, C07',
        note=COMMON_NOTE + ' Command sets are modelled by a strict reader; inputs only pydicom\'s lenient reader accepts are outside the model.'),
    'C08': dict(
        text=('Theorems C08_every_send / C08_readable (Coq, no axioms): Model.CmdMsg is the message object (elements by '
              'ascending tag, property setters, data_set setter, set_length, implicit-VR-LE encoding with VR padding); for '
              'EVERY message type, EVERY sequence of field assignments, data-set assignments and sends, every transmitted '
              'command set is in ascending tag order, starts with Command Group Length = number of bytes that follow, '
              'carries the class\'s command field, says 0101H exactly when no data set is attached, and is read back by '
              'the strict reader. Tie: real message objects driven through Association.send with the generators consumed '
              'after later mutations: model bytes = transmitted bytes, plus the independent reader\'s verdict.'),
        technique='Coq proof by induction over operation sequences (sortedness + flag invariant) + byte-exact correspondence',
        design_ref='DESIGN.md section 6, C08',
        note=COMMON_NOTE + ' pydicom\'s value encoding for UI/US/AE/AT/UL is mirrored by Model.CmdMsg.enc_value and validated byte for byte.'),
    'C09': dict(
        text=('Theorems C09_reply_shape, C09_same_ids_same_order, C09_each_answer, C09_served_is_accepted (Coq, no axioms): '
              'for EVERY configuration and EVERY request with any number of proposed contexts the model of '
              'AssociationAcceptor.accept answers each context once, same id, same order; accepted iff served and a proposed '
              'transfer syntax is supported; the returned syntax is proposed and supported; the served table is exactly the '
              'accepted answers; AE titles and application context are repeated. Tie: real accept() and _loop dispatch on '
              'exhaustive small requests x configurations + seeded large ones: model = implementation, oracle on the reply.'),
        technique='Coq proof by induction over the proposal list + exhaustive small-scope correspondence',
        design_ref='DESIGN.md section 6, C09',
        note=COMMON_NOTE),
    'C10': dict(
        text=('Theorems C10_negotiation, C10_every_message_within, C10_both_directions and, on the PDU values themselves, C10_on_pdus, '
              'C10_acceptor_finds_announcement, C10_announcement_in_place, C10_requestor_finds_announcement, C10_nothing_announced, '
              'C10_library_to_library (the Maximum Length sub-item is found wherever it stands among the user-information sub-items; '
              'accept / _request on PDUs compute the abstract negotiation) (Coq, no axioms): for ALL pairs of configured maxima '
              '(0 or >= 7) each side announces at most what it accepts, each side\'s sending limit is within the peer\'s '
              'announcement (0 restricts nothing), and with that limit EVERY message of any size is sent completely with '
              'every P-DATA-TF within the announcement (composition with C06). Tie: real requester + acceptor over the '
              'boundary grid squared, both sides sending messages around the fragment size, every PDU measured.'),
        technique='Coq proof (case analysis + lia, composed with the C06 fragmentation theorem) + grid correspondence',
        design_ref='DESIGN.md section 6, C10',
        note=COMMON_NOTE),
    'C11': dict(
        text=('Theorems C11_contexts, C11_ids, C11_ids_fit_iff_at_most_128, C11_usable, C11_lookup (Coq, no axioms): for '
              'EVERY sequence of add_scu/add_scp calls the configured contexts are the classes in order with ids 1,3,5,... '
              '(distinct, odd), fitting one byte iff at most 128 classes (known finding D17 beyond); usable contexts = '
              'accepted among proposed with the chosen syntax; a service is obtained iff such a context exists. Tie: real AE '
              'configuration, AssociationRequester.request with stubbed replies (exhaustive for <= 3 contexts), get_scu.'),
        technique='Coq proof by induction over call/class lists + exhaustive small-scope correspondence',
        design_ref='DESIGN.md section 6, C11',
        note=COMMON_NOTE + ' Known finding D17 (more than 128 classes) is reported as KNOWN-FINDING.'),
    'C12': dict(
        text=('Theorems C12_never_crashes, C12_decode_total, C12_bad_pdu_aborted, C12_bad_pdata_aborted, C12_user_told, '
              'C12_closed_after_peer_close, C12_own_pdus_wellformed (Coq, no axioms): in the control model the peer\'s bytes '
              'are unconstrained inputs (any PDU kind in any state, undecodable frame, unusable P-DATA, close, reset); for all '
              'histories the loop never dies, undecodable input is answered by A-ABORT (+ provider-abort indication), the '
              'user is told, the peer\'s close brings the provider to rest in <= 2 iterations; decode is a total function. '
              'Tie: ~2100 runs of the real loop per check in 8 protocol states on structure-aware mutations + random bytes, '
              'model = implementation and the oracle (returned, at rest, told, wire well-formed) on the implementation.'),
        technique='Coq proof by reflection over the closed control abstraction + total decoder model + malformed-stream correspondence',
        design_ref='DESIGN.md section 6, C12',
        note=COMMON_NOTE + ' The scripted world (harness/world.py) stands in for kernel TCP, select, the clock, the user queue and '
             'thread start: one script operation per loop iteration; it can deliver every segmentation and arrival order but not '
             'preemption inside an iteration (there is one provider thread per association). Reset-while-sending (EPIPE) is not in the alphabet.' + ' Partial: command sets that only pydicom\'s lenient reader decides are judged on the implementation alone (counted in the evidence).'),
    'C13': dict(
        text=('Theorems C13_peer_close, C13_artim_expiry, C13_artim_armed, C13_user_told, C13_stop_completes, C13_concrete '
              '(Coq, no axioms): from EVERY reachable control state the peer\'s close reaches rest within two iterations, ARTIM '
              'expiry in Sta2/Sta13 reaches rest in one, ARTIM is armed exactly in the states that wait on the peer alone, a stop '
              'request is honoured at the next iteration head, and no iteration blocks. Tie: ~1000 runs of the real loop per '
              'check: peer closing after every step / every byte prefix, stale local tear-down primitives, peer silence + ARTIM, '
              'stop at every quiescent point; the world reports a blocking read as `blocked`.'),
        technique='Coq proof by reflection over the closed control abstraction + correspondence of the real loop under fault/disconnect enumeration',
        design_ref='DESIGN.md section 6, C13',
        note=COMMON_NOTE + ' The scripted world (harness/world.py) stands in for kernel TCP, select, the clock, the user queue and '
             'thread start: one script operation per loop iteration; it can deliver every segmentation and arrival order but not '
             'preemption inside an iteration (there is one provider thread per association). Reset-while-sending (EPIPE) is not in the alphabet.' + ' Partial: thread join and real select() timing are outside the world.'),
    'C14': dict(
        text=('Theorems C14_acceptor_refuses, C14_rejection_unchanged, C14_abort_unchanged, C14_release_surfaces, '
              'C14_reject_delivered, C14_abort_delivered, C14_release_delivered, C14_exit_paths (Coq, no axioms): a refusing '
              'application yields an A-ASSOCIATE-RJ with exactly its (result, source, reason) and no service; for ALL byte '
              'values the RJ / A-ABORT / A-RELEASE-RQ survive the wire and surface as the library error with the same '
              'values; at every point of every history the provider hands the received PDU itself to the user; leaving a '
              'requested association normally releases, through an error aborts. Tie: the association layer on scripted '
              'indications (all standard triples, at every point of a conversation), the acceptor with refusing '
              'applications, the real context manager, plus refusals and aborts over real loopback TCP.'),
        technique='Coq proof (composition of the codec round trip, framing and the closed control abstraction) + correspondence incl. real loopback',
        design_ref='DESIGN.md section 6, C14', note=COMMON_NOTE),
    'C15': dict(
        text=('Theorems C15_data_intact, C15_over_the_wire (fragmentation ; PDU codec ; any TCP segmentation ; framing ; '
              'reassembly composed), C15_fragment_on_the_wire, C15_status, C15_no_clobber (Coq, no axioms): composition '
              'of C06 + C01 + C07 + C17: for EVERY data set and maximum length the stored message is reassembled with the '
              'identical command set (SOP class / instance) and data bytes, in memory or after the file meta header; the '
              'handler\'s status (or C000H) is the status returned; for EVERY directory content and instance UID the name '
              'search terminates with a name that does not exist (pigeonhole over strictly lengthening candidates). Tie: real '
              'stores over loopback TCP with real threads (3 transfer syntaxes, memory/file source, temp-file/directory/'
              'in-memory reception, asymmetric maxima incl. 0, handler outcomes, nested data sets) and the directory storage '
              'on prepared directories with repeated instance UIDs.'),
        technique='Coq proof by composition of earlier theorems + pigeonhole termination proof + real loopback correspondence',
        design_ref='DESIGN.md section 6, C15',
        note=COMMON_NOTE + ' Partial: pydicom\'s data-set codec and OS thread scheduling / kernel TCP are observed, not modelled; data-set bytes are opaque in the theorems.'),
    'C16': dict(
        text=('Theorems C16_end_to_end, C16_user_stops (Coq, no axioms): for EVERY list of matches (any length, any mix of '
              'the two pending codes, any non-empty data sets) the user side fed with what the provider sends yields '
              'exactly those data sets with those statuses in order, then one final response, then stops; for any response '
              'list the user side stops at the first non-pending response. Tie: real qr_find_scp / modality_work_list_scp '
              'output passed through the real encoder + decoder into the real qr_find_scu / modality_work_list_scu.'),
        technique='Coq proof by induction over the result list + end-to-end correspondence through the real encode/decode path',
        design_ref='DESIGN.md section 6, C16', note=COMMON_NOTE + ' The service callables run on a real Association object whose provider is a stub (harness/svc_driver.py); handlers, sub-associations and the incoming message queue are scripted.'),
    'C17': dict(
        text=('Theorems C17_echo, C17_store, C17_find, C17_move, C17_n_action, C17_n_event_report, C17_get_user_store_response, '
              'C17_every_request_answered, and for the dispatch in AssociationAcceptor._loop C17_served_on_arrival_context, C17_served_iff, '
              'C17_same_class_on_several_contexts, C17_served_context_was_accepted (Coq, '
              'no axioms): for EVERY request (all message ids, UIDs, context ids) and every handler outcome the provider '
              'models answer on the request\'s context with its message id, SOP class (and instance), the matching response '
              'type and the handler\'s status or the documented failure status. Tie: every provider callable of sopclass.py '
              'on scripted requests: model responses = decoded transmitted responses, plus the correlation oracle; requests through the real '
              'accept() + _loop() with every class accepted on several contexts: contexts handed to the services = Model.Dispatch (disp_corr, disp_spec).'),
        technique='Coq proof (per-provider lemmas over all requests/outcomes) + correspondence on decoded transmitted responses',
        design_ref='DESIGN.md section 6, C17', note=COMMON_NOTE + ' The service callables run on a real Association object whose provider is a stub (harness/svc_driver.py); handlers, sub-associations and the incoming message queue are scripted.'),
    'C19': dict(
        text=('Theorems C19_get_user, C19_move_provider, C19_nothing_to_move (Coq, no axioms): for ANY interleaving of '
              'pending C-GET responses and C-STORE requests ended by a final response every request is answered once, in '
              'order, and every accepted instance handed over once; for ANY list of sub-operation outcomes the C-MOVE '
              'provider sends |subs| pending responses, the k-th reporting k performed and total-k remaining, then exactly one '
              'final response (also for none). Tie: real qr_get_scu and qr_move_scp on scripted plans.'),
        technique='Coq proof by loop-invariant induction over message / sub-operation lists + correspondence',
        design_ref='DESIGN.md section 6, C19', note=COMMON_NOTE + ' The service callables run on a real Association object whose provider is a stub (harness/svc_driver.py); handlers, sub-associations and the incoming message queue are scripted.'),
    'C18': dict(
        text=('Proof over the complete behaviour of the code: statuses.Status is tabulated on all 65536 codes x '
              '24 classes from the working tree on every run; Coq checks every cell against the independent spec '
              '(Spec/StatusSpec.v) by vm_compute and theorem C18_classification lifts this to the universally '
              'quantified statement (exactly one class, spec class, int round trip). Exhaustive, so the theorem is '
              'about the live code, not a sample.'),
        technique='Coq proof by reflection over an exhaustive behavioural table regenerated from the code',
        design_ref='DESIGN.md section 6, C18',
        note=COMMON_NOTE + ' Tabulation driver (harness/check_C18.py) is trusted to report Status() faithfully.'),
}

CHECKS['C20'] = dict(
    text=('Theorems C20_isolation, C20_providers, C20_message_ids_unique (Coq, no axioms): for ANY per-association step '
          'function over an immutable configuration, ANY number of associations and ANY interleaving, each association '
          'ends in the state of its solo run (instantiated with the provider model); message ids per thread are strictly '
          'increasing hence unique. That the code has this separated shape is checked per run: a static audit of writes to '
          'shared state in the run-time modules, several real providers in real threads stepped in seeded interleavings '
          '(= model, = solo run), N concurrent loopback clients with distinguishable data against one entity, some aborting.'),
    technique='Coq non-interference proof by induction over the schedule + shared-write audit + controlled-interleaving and loopback correspondence',
    design_ref='DESIGN.md section 6, C20',
    note=COMMON_NOTE + ' Partial: the theorem is about the separated model; preemption inside a Python bytecode sequence is sampled (real threads), not enumerated.')

NOT_YET = 'check not built yet (work in progress; see DESIGN.md section 6 for the planned theorem and tie)'
ALL = ['C%02d' % i for i in range(1, 21)]
