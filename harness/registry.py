"""Per-property registry used to generate MANIFEST.json (harness/gen_manifest.py)."""

COMMON_NOTE = ('Trusted: Coq 8.16.1 kernel + VM (vm_compute, no native_compute), no axioms '
               '(Print Assumptions: closed under the global context), hand-written Spec/ transcription of '
               'the standard, the Python correspondence harness (drivers, generators, literal printer), '
               'CPython/pydicom as the execution substrate of the implementation.')

CHECKS = {
    'C18': dict(
        text=('Proof over the complete behaviour of the code: statuses.Status is tabulated on all 65536 codes x '
              '24 classes from the working tree on every run; Coq checks every cell against the independent spec '
              '(Spec/StatusSpec.v) by vm_compute and theorem C18_classification lifts this to the universally '
              'quantified statement (exactly one class, spec class, int round trip). Exhaustive, so the theorem is '
              'about the live code, not a sample.'),
        technique='Coq proof by reflection over an exhaustive behavioural table regenerated from the code',
        design_ref='DESIGN.md section 6, C18',
        note=COMMON_NOTE + ' Tabulation driver (harness/check_C18.py) is trusted to report Status() faithfully.'),
}

NOT_YET = 'check not built yet (work in progress; see DESIGN.md section 6 for the planned theorem and tie)'
ALL = ['C%02d' % i for i in range(1, 21)]
