"""Per-property registry used to generate MANIFEST.json (harness/gen_manifest.py)."""

COMMON_NOTE = ('Trusted: Coq 8.16.1 kernel + VM (vm_compute, no native_compute), no axioms '
               '(Print Assumptions: closed under the global context), hand-written Spec/ transcription of '
               'the standard, the Python correspondence harness (drivers, generators, literal printer), '
               'CPython/pydicom as the execution substrate of the implementation.')

CHECKS = {
    'C06': dict(
        text=('Theorem C06_fragmentation (Coq, no axioms): for ALL command-set bytes, data-set bytes, context ids and '
              'every maximum PDU length m >= 7 (unbounded, 2^32-1 included) the model of chunks/fragment/'
              'DIMSEMessage.encode yields command fragments then data fragments, each non-empty, within m, on the '
              'message context, flagged 1..1 3 / 0..0 2 with exactly one last fragment per stream, concatenating '
              'byte-exactly to the inputs; C06_file_equals_bytes: the file variant equals the bytes variant. '
              'The model is tied to the code on every run by correspondence obligations (model = observed fragments '
              'of the real Association.send, kernel-checked by vm_compute) plus the property oracle on the observation.'),
        technique='Coq proof by induction over the chunk list + model/implementation correspondence by vm_compute',
        design_ref='DESIGN.md section 6, C06',
        note=COMMON_NOTE + ' Command-set bytes are taken from the implementation (pydicom) and are a parameter of the theorem.'),
    'C18': dict(
        text=('Proof over the complete behaviour of the code: statuses.Status is tabulated on all 65536 codes x '
              '24 classes from the working tree on every run; Coq checks every cell against the independent spec '
              '(Spec/StatusSpec.v) by vm_compute and theorem C18_classification lifts this to the universally '
              'quantified statement (exactly one class, spec class, int round trip). Exhaustive, so the theorem is '
              'about the live code, not a sample.'),
        technique='Coq proof by reflection over an exhaustive behavioural table regenerated from the code',
        design_ref='DESIGN.md section 6, C18',
        note=COMMON_NOTE + ' Tabulation driver (harness/check_C18.py) is trusted to report Status() faithfully.'),
}

NOT_YET = 'check not built yet (work in progress; see DESIGN.md section 6 for the planned theorem and tie)'
ALL = ['C%02d' % i for i in range(1, 21)]
