"""Per-property registry used to generate MANIFEST.json (harness/gen_manifest.py)."""

COMMON_NOTE = ('Trusted: Coq 8.16.1 kernel + VM (vm_compute, no native_compute), no axioms '
               '(Print Assumptions: closed under the global context), hand-written Spec/ transcription of '
               'the standard, the Python correspondence harness (drivers, generators, literal printer), '
               'CPython/pydicom as the execution substrate of the implementation.')

CHECKS = {
    'C01': dict(
        text=('Theorem C01_roundtrip (Coq, no axioms): for EVERY well-formed PDU value p of the model of pdu.py/'
              'userdataitems.py (all 7 PDU types, any number and order of items, presentation contexts, transfer '
              'syntaxes, sub-items of all 9 kinds in any order, any in-range field values, PDVs of any size), '
              'decode_as (type p) (encode p) = Ok p, hence re-encoding reproduces the bytes (C01_reencode). The model '
              'mirrors the code\'s look-ahead stream parser including short reads and failure kinds; it is tied to '
              'the code on every run by correspondence obligations (encode bytes, total_length, decode result on '
              '~1300 structured values incl. all 81 sub-item adjacencies; decode outcome on ~5000 malformed streams), '
              'each checked by vm_compute in the kernel, plus the round-trip oracle on the implementation itself.'),
        technique='Coq proof by structural induction over items/sub-items + model/implementation correspondence by vm_compute',
        design_ref='DESIGN.md section 6, C01',
        note=COMMON_NOTE + ' Text fields are modelled as UTF-8 byte strings; str.strip() only for ASCII white space.'),
    'C02': dict(
        text=('Theorems C02_emitted / C02_accepted / C02_layout_injective (Coq, no axioms): for every well-formed PDU '
              'the model encoder equals an independent declarative PS3.8/PS3.7 layout in which every length field is '
              'computed from the bytes it governs, total_length = bytes emitted, every layout of a well-formed value '
              '(any sub-item order, unknown types, many TS / PDVs) decodes to that value, and the layout is injective. '
              'Per run the implementation\'s bytes are compared with the layout and read back by a strict '
              'length-driven reference parser inside Coq.'),
        technique='Coq proof (encoder = declarative layout; lengths by induction) + correspondence + strict reference parser as oracle',
        design_ref='DESIGN.md section 6, C02',
        note=COMMON_NOTE + ' The strict parser is an executable oracle (its own round trip is validated per run, not proved).'),
    'C04': dict(
        text=('Proof over the complete behaviour of the code: the real StateMachine is exercised on all 13 states x 19 '
              'events x both roles x every applicable primitive kind (702 cells) with a recording transport, queue and '
              'ARTIM timer; Coq checks every observed cell against the independently transcribed PS3.8 Table 9-10 / '
              'Tables 9-6..9-9 (wire PDU, indication, close/open, ARTIM effect, next state; undefined cells: no effect) '
              'by vm_compute, and theorem C04_every_cell lifts it to every state, event and role. Exhaustive, so the '
              'theorem is about the live code.'),
        technique='Coq proof by reflection over an exhaustive behavioural table regenerated from the code',
        design_ref='DESIGN.md section 6, C04',
        note=COMMON_NOTE + ' The recording provider/transport (harness/world.py) abstracts each effect (PDU type, abort source, '
             'identity with the triggering primitive); AA-4 accepts any abort source in the indication.'),
    'C06': dict(
        text=('Theorem C06_fragmentation (Coq, no axioms): for ALL command-set bytes, data-set bytes, context ids and '
              'every maximum PDU length m >= 7 (unbounded, 2^32-1 included) the model of chunks/fragment/'
              'DIMSEMessage.encode yields command fragments then data fragments, each non-empty, within m, on the '
              'message context, flagged 1..1 3 / 0..0 2 with exactly one last fragment per stream, concatenating '
              'byte-exactly to the inputs; C06_file_equals_bytes: the file variant equals the bytes variant. '
              'The model is tied to the code on every run by correspondence obligations (model = observed fragments '
              'of the real Association.send, kernel-checked by vm_compute) plus the property oracle on the observation.'),
        technique='Coq proof by induction over the chunk list + model/implementation correspondence by vm_compute',
        design_ref='DESIGN.md section 6, C06',
        note=COMMON_NOTE + ' Command-set bytes are taken from the implementation (pydicom) and are a parameter of the theorem.'),
    'C18': dict(
        text=('Proof over the complete behaviour of the code: statuses.Status is tabulated on all 65536 codes x '
              '24 classes from the working tree on every run; Coq checks every cell against the independent spec '
              '(Spec/StatusSpec.v) by vm_compute and theorem C18_classification lifts this to the universally '
              'quantified statement (exactly one class, spec class, int round trip). Exhaustive, so the theorem is '
              'about the live code, not a sample.'),
        technique='Coq proof by reflection over an exhaustive behavioural table regenerated from the code',
        design_ref='DESIGN.md section 6, C18',
        note=COMMON_NOTE + ' Tabulation driver (harness/check_C18.py) is trusted to report Status() faithfully.'),
}

NOT_YET = 'check not built yet (work in progress; see DESIGN.md section 6 for the planned theorem and tie)'
ALL = ['C%02d' % i for i in range(1, 21)]
