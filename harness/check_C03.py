"""C03 — PDU framing independent of TCP segmentation.
Static: Proofs/FramingProofs.v (feed_any_partition: for EVERY partition of EVERY stream the frames
recognised are those of the whole stream, same leftover) + the provider invariants of C05.
Per run: the real provider under the scripted world on every cut of every peer block of a corpus
of conversations: model = implementation (prov_corr) and result = that of the one-PDU-per-segment
delivery of the implementation itself (c03_spec)."""
import random

import common
import provider_driver as pd


def cutters(raw_len, tier, rng):
    """Yield (label, [cut offsets]) for one peer block of raw_len bytes."""
    singles = range(1, raw_len)
    if tier == 'quick' and raw_len > 40:
        singles = sorted(set(list(range(1, 12)) + list(range(raw_len - 8, raw_len)) +
                             [rng.randrange(1, raw_len) for _ in range(14)]))
    for c in singles:
        yield ('cut@%d' % c, [c])
    n_pairs = 12 if tier == 'quick' else 150
    if raw_len <= 26 and tier != 'quick':
        for a in range(1, raw_len):
            for b in range(a + 1, raw_len):
                yield ('cuts@%d,%d' % (a, b), [a, b])
    else:
        for _ in range(n_pairs):
            a, b = sorted(rng.sample(range(1, raw_len), 2)) if raw_len > 2 else (1, 1)
            yield ('cuts@%d,%d' % (a, b), [a, b])
    if raw_len <= (400 if tier == 'quick' else 2000):
        yield ('dribble', list(range(1, raw_len)))
    for _ in range(3 if tier == 'quick' else 20):
        k = rng.randint(3, 8)
        if raw_len > k + 1:
            yield ('kcuts', sorted(rng.sample(range(1, raw_len), k)))


def apply_cuts(raw, cuts):
    out = []
    prev = 0
    for c in cuts:
        if c > prev:
            out.append(raw[prev:c])
            prev = c
    out.append(raw[prev:])
    return out


def boundary_pairs():
    """The peer's last bytes end exactly on a read boundary of the provider (recv size = max_pdu_length, or 65536 when
    the maximum is 0 = no limit) and its reset is right behind them: the end of the connection must not overtake the
    data.  Pairs (that delivery, one PDU per segment and then the reset)."""
    from pynetdicom2 import userdataitems
    out = []
    idle = [('idle',)] * 4

    def rq_of_size(total):
        rq = pd.mk_rq()
        ident = userdataitems.UserIdentityNegotiationSubItem('', '', 5, 0)
        rq.variable_items[-1].user_data.append(ident)
        ident._primary_field = b'j' * (total - len(rq.encode()))
        assert len(rq.encode()) == total
        return rq.encode()
    small = pd.mk_rq().encode()
    for label, raw, max_len in (('request-of-65536-bytes-no-limit', rq_of_size(65536), 0),
                                ('request-of-exactly-the-recv-size', small, len(small)),
                                ('request-of-131072-bytes-in-two-reads-no-limit', None, 0)):
        if raw is None:
            # two PDUs, 65536 bytes each: an A-ASSOCIATE-RQ and (not expected in Sta3: answered by an abort) a second one
            raw2 = rq_of_size(65536)
            a = dict(label=[label, 'whole-then-reset'], acceptor=True, max_len=max_len,
                     ops=[('idle',), ('segreset', raw2 + raw2)] + idle)
            b = dict(label=[label, 'per-pdu-then-reset'], acceptor=True, max_len=max_len,
                     ops=[('idle',), ('seg', raw2), ('seg', raw2), ('idle',), ('reset',)] + idle)
        else:
            a = dict(label=[label, 'whole-then-reset'], acceptor=True, max_len=max_len,
                     ops=[('idle',), ('segreset', raw)] + idle)
            b = dict(label=[label, 'per-pdu-then-reset'], acceptor=True, max_len=max_len,
                     ops=[('idle',), ('seg', raw), ('reset',)] + idle)
        out.append((a, b))
    return out


def main(tier, seed):
    dec = common.Decision('C03', tier, seed)
    common.static_gate(dec, ['Properties/C03.v'], ['Proofs/FramingProofs.v', 'Proofs/BaseProofs.v', 'Proofs/FsmProofs.v',
                                                   'Proofs/FsmWProofs.v', 'Proofs/ProviderWProofs.v', 'Proofs/StreamProofs.v',
                                                   'Proofs/StreamWProofs.v', 'Proofs/FsmStutterProofs.v', 'Proofs/ProviderIdleProofs.v'])
    rng = random.Random(seed)
    cases = []
    refs = {}
    corpus = [(True, n, b) for n, b in pd.ACCEPTOR_CORPUS] + [(False, n, b) for n, b in pd.REQUESTOR_CORPUS]
    for acceptor, name, build in corpus:
        conv = build()
        for lead in (False, True):
            rname = 'ref_%s_%d' % (name, int(lead))
            refs[rname] = (acceptor, pd.to_script(conv, None, lead), 65536)
            cases.append(dict(label=[name, 'one-pdu-per-segment', lead], acceptor=acceptor,
                              ops=refs[rname][1], ref=rname))
            # everything each peer block has to say in one segment
            cases.append(dict(label=[name, 'all-at-once', lead], acceptor=acceptor, ref=rname,
                              ops=pd.to_script(conv, lambda bi, raw: [raw], lead)))
        peer_blocks = [bi for bi, b in enumerate(conv) if b[0] == 'peer']
        for bi in peer_blocks:
            raw_len = sum(len(pd.raw_of(x)) for x in conv[bi][1])
            if raw_len < 2:
                continue
            for label, cuts in cutters(raw_len, tier, rng):
                lead = rng.random() < 0.3
                cutter = (lambda target, cc: (lambda b, raw: apply_cuts(raw, cc) if b == target else [raw]))(bi, cuts)
                # other blocks keep one PDU per segment
                def cutter2(b, raw, _t=bi, _c=cuts, _conv=conv):
                    if b == _t:
                        return apply_cuts(raw, _c)
                    return [pd.raw_of(x) for x in _conv[b][1]]
                cases.append(dict(label=[name, 'block%d' % bi, label, lead], acceptor=acceptor,
                                  ops=pd.to_script(conv, cutter2, lead), ref='ref_%s_%d' % (name, int(lead))))
        # a segment of exactly the number of bytes the provider asks recv() for (its max_pdu_length), one less, one more
        for bi in peer_blocks:
            raw = b''.join(pd.raw_of(x) for x in conv[bi][1])
            for d in (0, -1, 1):
                m = len(raw) + d
                if m < 12:
                    continue
                rname = 'ref_%s_0_m%d' % (name, m)
                refs[rname] = (acceptor, pd.to_script(conv, None, False), m)

                def whole(b, r, _t=bi, _conv=conv):
                    return [r] if b == _t else [pd.raw_of(x) for x in _conv[b][1]]
                cases.append(dict(label=[name, 'block%d' % bi, 'segment=recv-size%+d' % d, False], acceptor=acceptor,
                                  max_len=m, ops=pd.to_script(conv, whole, False), ref=rname))
    big_cases, big_refs = [], {}
    # PDUs longer than one read of the provider (a peer may send them once the provider has announced more than 65536,
    # or no limit): a C-STORE of 70 000 bytes in one P-DATA-TF PDU (maximum 131072) with a C-ECHO request right behind it; the long PDU takes several reads, and its
    # last bytes share a segment with the PDU behind it
    for big_max, recv_label in ((131072, 'announced_131072'), (0, 'no_limit')) if tier != 'quick' else ((131072, 'announced_131072'),):
        conv = pd.conv_acceptor_store(131072, 70000)
        conv[2] = ('peer', conv[2][1] + pd.fragments(pd.mk_message('echo_rq', 2), 1, 131072))
        conv.insert(4, ('usermsg', pd.fragments(pd.mk_message('echo_rsp', 2), 1, 131072)))
        conv[0] = ('peer', [pd.mk_rq(131072)])
        conv[1] = ('user', pd.mk_ac(big_max))
        name = 'a_store_long_pdus_' + recv_label
        rname = 'ref_' + name
        big_refs[rname] = (True, pd.to_script(conv, None, False), big_max)
        big_cases.append(dict(label=[name, 'one-pdu-per-segment', False], acceptor=True, max_len=big_max, ops=big_refs[rname][1], ref=rname))
        bi = 2
        lens = [len(pd.raw_of(x)) for x in conv[bi][1]]
        end1 = lens[0] + lens[1]                       # end of the first (long) data PDU
        for label, cuts in [('all-at-once', []), ('tail-of-long-pdu-with-next', [end1 - 1000]),
                            ('long-pdu-in-three-and-tail-with-next', [lens[0] + 30000, lens[0] + 60000, end1 - 1]),
                            ('cut-in-next-header', [end1 + 3])][:4 if tier != 'quick' else 2]:
            def cutter3(b, raw, _c=cuts, _conv=conv):
                if b == 2:
                    return apply_cuts(raw, _c)
                return [pd.raw_of(x) for x in _conv[b][1]]
            big_cases.append(dict(label=[name, 'block2', label, False], acceptor=True, max_len=big_max,
                              ops=pd.to_script(conv, cutter3, False), ref=rname))
    runner, results, failing, broken, _refs = pd.run_cases(
        'C03', dec, cases, [('corr', 'prov_corr'), ('spec', 'c03_spec')], size=30, refs=refs)
    # (their own files: a reference delivery is part of every file that uses it)
    _rn, results_b, failing_b, broken_b, _refs_b = pd.run_cases(
        'C03', dec, big_cases, [('corr', 'prov_corr'), ('spec', 'c03_spec')], size=1, refs=big_refs, runner=runner, prefix='Long')
    n0 = len(cases)
    cases = cases + big_cases
    results = results + results_b
    broken = broken + broken_b
    for k in failing:
        failing[k] = list(failing[k]) + [n0 + i for i in failing_b[k]]
    bpairs = boundary_pairs()
    _rn, bres, bfail, bbroken = pd.run_pairs_w('C03', dec, bpairs, [('corr', 'prov_corr_w2'), ('spec', 'c03_spec_w')],
                                               runner=runner, prefix='Boundary')
    broken += bbroken
    for i in sorted(set(bfail['spec']) | set(bfail['corr'])):
        a, b = bpairs[i]
        r = dict(kind='segmentation-changes-result' if i in bfail['spec'] else 'model-differs', label=a['label'],
                 acceptor=True, max_len=a['max_len'], ops=pd.short_ops(a['ops'])[:1] + ['segreset:<%d bytes>' % len(a['ops'][1][1])],
                 result=pd.summary(bres[i][0]), reference_result=pd.summary(bres[i][1]))
        if i in bfail['spec']:
            dec.report(r)
        else:
            dec.report(dict(r, theorem='correspondence prov_corr_w (Corr/CorrProviderW.v)'), no_input=True)
    cov = dec.coverage
    cov['evaluations'] = len(cases) + 2 * len(bpairs)
    cov['distinct_nontrivial'] = len(set(tuple(pd.short_ops(c['ops'])) for c in cases if sum(1 for o in c['ops'] if o[0] == 'seg') >= 2))
    cov['rule'] = ('corpus of %d conversations (acceptor and requestor) x {one PDU per segment, all at once, every single '
                   'cut offset (sampled for long blocks in quick), pairs of cuts, 1-byte dribble, seeded k-cuts} of every '
                   'peer block x first segment waiting or not; whole blocks as one segment of exactly / one below / one above the recv size; '
                   'requests of exactly 65536 bytes (no limit = reads of 65536) and of exactly the recv size with the peer\'s reset right '
                   'behind them vs. per-PDU delivery; non-trivial = at least two segments' % len(corpus))
    cov['distribution'] = dict(by_kind=dict((k, sum(1 for c in cases if c['label'][1 if len(c['label']) == 3 else 2].startswith(k)))
                                            for k in ('one-pdu', 'all-at', 'cut@', 'cuts@', 'dribble', 'kcuts', 'segment=')),
                               segments_max=max(sum(1 for o in c['ops'] if o[0] == 'seg') for c in cases))
    cov['samples'] = [dict(label=c['label'], ops=pd.short_ops(c['ops'])[:12], result=pd.summary(r))
                      for c, r in list(zip(cases, results))[40:42]]

    def rec(i, kind):
        c, r = cases[i], results[i]
        return pd.replayable(dict(kind=kind, label=c['label'], acceptor=c['acceptor'], ops=pd.short_ops(c['ops']),
                                  result=pd.summary(r), reference=c.get('ref')), c, ref=refs.get(c.get('ref')))
    spec_set = set(failing['spec'])
    for i in failing['spec']:
        dec.report(rec(i, 'segmentation-changes-result'))
    for i in failing['corr']:
        if i not in spec_set:
            dec.report(dict(rec(i, 'model-differs'), theorem='correspondence prov_corr'), no_input=True)
    for name, out in broken:
        dec.report(dict(kind='case-file-broken', file=name, detail=out), no_input=True)
    runner.keep = bool(dec.violations)
    runner.cleanup()
    return dec.finish()


def replay(rec):
    return pd.replay_case('C03', rec, [('corr', 'prov_corr'), ('spec', 'c03_spec')])
