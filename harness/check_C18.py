"""C18 — status classification.  Mechanism A: the complete behaviour of statuses.Status
(65536 codes x every message class and no class) is tabulated from the working tree as a
run-length table; Coq checks every cell against Spec/StatusSpec.v by vm_compute and the
static theorem C18_classification lifts that to the universal statement."""
import common
from common import cN, copt, clist


def signature(st, code):
    sig = 0
    flags = [st.is_success, st.is_pending, st.is_failure, st.is_warning, st.is_cancel]
    for i, f in enumerate(flags):
        if f is True:
            sig |= 1 << i
        elif f is not False:
            sig |= 64            # non-boolean flag: never matches the spec
    names = ['Success', 'Pending', 'Failure', 'Warning', 'Cancel']
    if st.status_type in names and sig == (1 << names.index(st.status_type)):
        pass
    else:
        sig |= 128               # status_type disagrees with the flags
    try:
        if int(st) == code and type(int(st)) is int:
            sig |= 32
    except Exception:
        pass
    return sig


def tabulate():
    from pynetdicom2 import statuses, dimsemessages
    classes = [None] + [dimsemessages.MESSAGE_TYPE[k] for k in sorted(dimsemessages.MESSAGE_TYPE)]
    table = []
    evals = 0
    for cls in classes:
        runs = []
        cur = None
        for code in range(65536):
            evals += 1
            try:
                sg = signature(statuses.Status(code, cls), code)
            except Exception:
                sg = 255
            if cur is not None and cur[2] == sg:
                cur[1] = code
            else:
                cur = [code, code, sg]
                runs.append(cur)
        table.append((None if cls is None else cls.command_field, cls.__name__ if cls else None, runs))
    return table, evals


def render(table):
    cmds = clist([copt(c, cN) for c, _n, _r in table])
    rows = []
    for c, _n, runs in table:
        rows.append('(%s, %s)' % (copt(c, cN), clist(['(%d, %d, %d)' % tuple(r) for r in runs])))
    return '''From PND Require Import Lib.Base Spec.StatusSpec Model.Status Properties.C18.
Open Scope N_scope.
Definition cmds : list (option N) := %s.
Definition observed : table := %s.
Definition bad := Eval vm_compute in
  map (fun p => match fst p with Some c => c | None => 99999 end * 65536 + snd p)
      (firstn 20 (bad_cells 65536 cmds observed)).
Print bad.
Theorem observed_ok : check_table 65536 cmds observed = true.
Proof. vm_compute. reflexivity. Qed.
(* the universally quantified statement about the code as it is now *)
Theorem C18_now : forall cmd code, In cmd cmds -> code < 65536 ->
  exists k, lookup observed cmd code = Some (sig_of k) /\\ k = spec_class cmd code
    /\\ count_true (flags_of_sig (sig_of k)) = 1%%nat /\\ N.testbit (sig_of k) 5 = true.
Proof. exact (C18_classification 65536 cmds observed observed_ok). Qed.
Print Assumptions C18_now.
''' % (cmds, clist(rows))


def main(tier, seed):
    dec = common.Decision('C18', tier, seed)
    dec.matchers['fe00_cancel'] = lambda r: r.get('kind') == 'cell' and r.get('code') == 0xFE00
    ok = common.static_gate(dec, ['Properties/C18.v'],
                            ['Proofs/StatusProofs.v'])
    table, evals = tabulate()
    run = common.CoqRun('C18')
    run.add('Table', render(table))
    res = run.compile_all()
    rc, out, dt = res['Table']
    bad = common.parse_printed_list(out, 'bad')
    dec.coverage['evaluations'] = evals
    dec.coverage['exhaustive'] = True
    dec.coverage['distinct_nontrivial'] = sum(len(r) for _c, _n, r in table)
    dec.coverage['rule'] = ('exhaustive: Status(code, cls) for all 65536 codes x (23 MESSAGE_TYPE classes + None); '
                            'distinct_nontrivial = number of maximal runs of equal behaviour in the table')
    dec.coverage['samples'] = [dict(cls=n, command_field=c, runs=r[:6]) for c, n, r in table[:3]]
    dec.obligations(2, 0)
    if bad is None:
        dec.report(dict(kind='table-file-broken', detail=out[-2000:],
                        theorem='Table.v (generated) did not reach Print bad'), no_input=True)
    elif bad:
        names = dict((c, n) for c, n, _r in table)
        from pynetdicom2 import statuses, dimsemessages
        for v in bad:
            c, code = divmod(v, 65536)
            c = None if c == 99999 else c
            cls = dimsemessages.MESSAGE_TYPE.get(c) if c is not None else None
            st = statuses.Status(code, cls)
            dec.report(dict(kind='cell', command_field=c, cls=names.get(c), code=code,
                            observed=dict(status_type=st.status_type, is_success=st.is_success,
                                          is_pending=st.is_pending, is_failure=st.is_failure,
                                          is_warning=st.is_warning, is_cancel=st.is_cancel,
                                          int=int(st)),
                            expected='Spec.StatusSpec.spec_class (see replay)'))
    elif rc != 0 or 'Closed under the global context' not in out:
        dec.report(dict(kind='table-theorem-broken', detail=out[-2000:], theorem='observed_ok / C18_now'),
                   no_input=True)
    else:
        dec.coverage['discharged'] += 2
    if not dec.violations:
        run.cleanup()
    else:
        run.keep = True
    return dec.finish()


def replay(rec):
    from pynetdicom2 import statuses, dimsemessages
    c = rec.get('command_field')
    cls = dimsemessages.MESSAGE_TYPE.get(c) if c is not None else None
    st = statuses.Status(rec['code'], cls)
    print('Status(0x%04X, %s): type=%s flags=%s int=%s' % (
        rec['code'], cls.__name__ if cls else None, st.status_type,
        [st.is_success, st.is_pending, st.is_failure, st.is_warning, st.is_cancel], int(st)))
    print('recorded:', rec.get('observed'))
    return 0
