"""C18 — status classification.  Mechanism A: the complete behaviour of statuses.Status
(65536 codes x every message class and no class) is tabulated from the working tree as a
run-length table; Coq checks every cell against Spec/StatusSpec.v by vm_compute and the
static theorem C18_classification lifts that to the universal statement."""
import common
from common import cN, copt, clist


def signature(st, code):
    sig = 0
    flags = [st.is_success, st.is_pending, st.is_failure, st.is_warning, st.is_cancel]
    for i, f in enumerate(flags):
        if f is True:
            sig |= 1 << i
        elif f is not False:
            sig |= 64            # non-boolean flag: never matches the spec
    names = ['Success', 'Pending', 'Failure', 'Warning', 'Cancel']
    if st.status_type in names and sig == (1 << names.index(st.status_type)):
        pass
    else:
        sig |= 128               # status_type disagrees with the flags
    try:
        if int(st) == code and type(int(st)) is int:
            sig |= 32
    except Exception:
        pass
    return sig


def tabulate():
    from pynetdicom2 import statuses, dimsemessages
    classes = [None] + [dimsemessages.MESSAGE_TYPE[k] for k in sorted(dimsemessages.MESSAGE_TYPE)]
    table = []
    evals = 0
    for cls in classes:
        runs = []
        cur = None
        for code in range(65536):
            evals += 1
            try:
                sg = signature(statuses.Status(code, cls), code)
            except Exception:
                sg = 255
            if cur is not None and cur[2] == sg:
                cur[1] = code
            else:
                cur = [code, code, sg]
                runs.append(cur)
        table.append((None if cls is None else cls.command_field, cls.__name__ if cls else None, runs))
    return table, evals


def render(table):
    cmds = clist([copt(c, cN) for c, _n, _r in table])
    rows = []
    for c, _n, runs in table:
        rows.append('(%s, %s)' % (copt(c, cN), clist(['(%d, %d, %d)' % tuple(r) for r in runs])))
    return '''From PND Require Import Lib.Base Spec.StatusSpec Model.Status Properties.C18.
Open Scope N_scope.
Definition cmds : list (option N) := %s.
Definition observed : table := %s.
Definition bad := Eval vm_compute in
  map (fun p => match fst p with Some c => c | None => 99999 end * 65536 + snd p)
      (firstn 20 (bad_cells 65536 cmds observed)).
Print bad.
Theorem observed_ok : check_table 65536 cmds observed = true.
Proof. vm_compute. reflexivity. Qed.
(* the universally quantified statement about the code as it is now *)
Theorem C18_now : forall cmd code, In cmd cmds -> code < 65536 ->
  exists k, lookup observed cmd code = Some (sig_of k) /\\ k = spec_class cmd code
    /\\ count_true (flags_of_sig (sig_of k)) = 1%%nat /\\ N.testbit (sig_of k) 5 = true.
Proof. exact (C18_classification 65536 cmds observed observed_ok). Qed.
Print Assumptions C18_now.
''' % (cmds, clist(rows))


EXT_PROBE = r'''
import json, sys
from pynetdicom2 import statuses, dimsemessages as dm
CLS = {'Success': 0, 'Pending': 1, 'Warning': 2, 'Cancel': 3, 'Failure': 4}
def cls_of(code, cmd):
    st = statuses.Status(code, cmd)
    flags = [st.is_success, st.is_pending, st.is_warning, st.is_cancel, st.is_failure]
    return flags.index(True) if flags.count(True) == 1 else 9
regs = json.loads(sys.argv[1])
cmds = dict((k, dm.MESSAGE_TYPE[k]) for k in dm.MESSAGE_TYPE)
probes = json.loads(sys.argv[2])
base = [cls_of(code, cmds.get(cf)) for cf, code in probes]
for cf, lo, hi, kind in regs:
    statuses.add_status(lo, kind, 'registered by the application', end=(hi if hi != lo else None),
                        command=(cmds[cf] if cf is not None else None))
after = [cls_of(code, cmds.get(cf)) for cf, code in probes]
for k, (cf, code) in enumerate(probes):          # Status(code, <message object>) = Status(code, <its class>)
    if cf is not None and cls_of(code, cmds[cf]()) != after[k]:
        after[k] = 8
ints = [int(statuses.Status(code, cmds.get(cf))) for cf, code in probes]
print(json.dumps(dict(base=base, after=after, ints=ints)))
'''


def extension_cases(rng, tier):
    """The public add_status(): statuses an application registers - for one service or generally, single codes or
    ranges up to FFFFH - are classified like the shipped ones: service-specific before general, every code of the
    range, nothing else disturbed.  Run in a fresh interpreter (the tables are module-level)."""
    import json
    import subprocess
    import sys
    KIND = ['Success', 'Pending', 'Warning', 'Cancel', 'Failure']
    out = []
    plans = [
        [(0x8120, 0x0116, 0x0116, 'Warning')],                       # N-SET-RSP: a code the general table knows as failure
        [(0x8020, 0xFF02, 0xFFFF, 'Pending')],                       # a private pending block up to the last code
        [(None, 0x1234, 0x1234, 'Warning'), (0x8021, 0x1234, 0x1234, 'Cancel')],
        [(0x8001, 0xB000, 0xB0FF, 'Warning'), (None, 0xB010, 0xB010, 'Failure')],
        [(None, 0x0107, 0x0107, 'Warning'), (0x8110, 0x0107, 0x0107, 'Warning'), (None, 0x0107, 0x0107, 'Failure')],
        [(None, 0xB100, 0xB10F, 'Warning'), (0x8001, 0xB100, 0xB10F, 'Warning'), (None, 0xB100, 0xB10F, 'Success')],
    ]
    for _ in range(2 if tier == 'quick' else 20):
        lo = rng.choice([1, 0x0100, 0xA000, 0xFF00, 0xFFF0])
        hi = min(0xFFFF, lo + rng.choice([0, 1, 15, 255]))
        plans.append([(rng.choice([None, 0x8001, 0x8020, 0x8021, 0x8010, 0x8130]), lo, hi, rng.choice(KIND)),
                      (rng.choice([None, 0x8020]), hi, hi, rng.choice(KIND))])
    for regs in plans:
        probes = []
        for cf, lo, hi, _k in regs:
            for code in sorted(set([lo, hi, max(lo - 1, 0), min(hi + 1, 0xFFFF), (lo + hi) // 2])):
                for pcf in (cf, 0x8001, 0x8020, None):
                    probes.append((pcf, code))
        env = dict(PYTHONPATH=common.REPO, PATH='/usr/bin:/bin', PYTHONHASHSEED='0')
        p = subprocess.run([sys.executable, '-B', '-W', 'ignore', '-c', EXT_PROBE, json.dumps(regs), json.dumps(probes)],
                           stdout=subprocess.PIPE, stderr=subprocess.PIPE, universal_newlines=True, env=env)
        try:
            r = json.loads(p.stdout.strip().splitlines()[-1])
        except Exception:  # noqa
            r = dict(base=[9] * len(probes), after=[9] * len(probes), ints=[-1] * len(probes), error=p.stderr[-500:])
        copt = lambda v: 'None' if v is None else '(Some %d)' % v
        term = '(%s, %s)' % (
            clist(['(%s, %d, %d, %d)' % (copt(cf), lo, hi, KIND.index(k)) for cf, lo, hi, k in regs]),
            clist(['(%s, %d, %d, %d, %d)' % (copt(cf), code, b, a, i)
                   for (cf, code), b, a, i in zip(probes, r['base'], r['after'], r['ints'])]))
        out.append((term, dict(registrations=[(cf, hex(lo), hex(hi), k) for cf, lo, hi, k in regs],
                               probes=len(probes), error=r.get('error'),
                               changed=[(cf, hex(code), b, a) for (cf, code), b, a in zip(probes, r['base'], r['after']) if a != b][:12])))
    return out


EXT_DEFS = '''
(* statuses registered through add_status: (command or None = general, first code, last code, class) in the order of
   registration; a probe: (command, code, class before, class after, int(Status)) *)
Definition reg := (option N * N * N * N)%type.
Definition probe := (option N * N * N * N * N)%type.
Definition beq_ocmd (a b : option N) : bool :=
  match a, b with Some x, Some y => x =? y | None, None => true | _, _ => false end.
Definition covers (specific : bool) (cmd : option N) (code : N) (r : reg) : bool :=
  let '(rc, lo, hi, _) := r in
  (lo <=? code) && (code <=? hi)
  && (if specific then match rc with Some _ => beq_ocmd rc cmd | None => false end
      else match rc with None => true | Some _ => false end).
Definition last_class (l : list reg) : option N :=
  match rev l with r :: _ => Some (snd r) | [] => None end.
(* service-specific registrations first, then general ones, then whatever the code was before; but a shipped
   service-specific entry still precedes a newly registered general one *)
Definition expected_class (regs : list reg) (shipped_specific : bool) (cmd : option N) (code base : N) : N :=
  match last_class (filter (covers true cmd code) regs) with
  | Some k => k
  | None => if shipped_specific then base
            else match last_class (filter (covers false cmd code) regs) with Some k => k | None => base end
  end.
Definition ext_ok (c : list reg * list probe) : bool :=
  let (regs, probes) := c in
  forallb (fun p => let '(cmd, code, base, after, i) := p in
                    (i =? code) && (after <? 5)
                    && ((after =? expected_class regs false cmd code base)
                        || (after =? expected_class regs true cmd code base))) probes.
'''


def main(tier, seed):
    dec = common.Decision('C18', tier, seed)
    dec.matchers['fe00_cancel'] = lambda r: r.get('kind') == 'cell' and r.get('code') == 0xFE00
    ok = common.static_gate(dec, ['Properties/C18.v'],
                            ['Proofs/StatusProofs.v'])
    table, evals = tabulate()
    run = common.CoqRun('C18')
    run.add('Table', render(table))
    res = run.compile_all()
    rc, out, dt = res['Table']
    bad = common.parse_printed_list(out, 'bad')
    dec.coverage['evaluations'] = evals
    dec.coverage['exhaustive'] = True
    dec.coverage['distinct_nontrivial'] = sum(len(r) for _c, _n, r in table)
    dec.coverage['rule'] = ('exhaustive: Status(code, cls) for all 65536 codes x (23 MESSAGE_TYPE classes + None); '
                            'distinct_nontrivial = number of maximal runs of equal behaviour in the table')
    dec.coverage['samples'] = [dict(cls=n, command_field=c, runs=r[:6]) for c, n, r in table[:3]]
    dec.obligations(2, 0)
    if bad is None:
        dec.report(dict(kind='table-file-broken', detail=out[-2000:],
                        theorem='Table.v (generated) did not reach Print bad'), no_input=True)
    elif bad:
        names = dict((c, n) for c, n, _r in table)
        from pynetdicom2 import statuses, dimsemessages
        for v in bad:
            c, code = divmod(v, 65536)
            c = None if c == 99999 else c
            cls = dimsemessages.MESSAGE_TYPE.get(c) if c is not None else None
            st = statuses.Status(code, cls)
            dec.report(dict(kind='cell', command_field=c, cls=names.get(c), code=code,
                            observed=dict(status_type=st.status_type, is_success=st.is_success,
                                          is_pending=st.is_pending, is_failure=st.is_failure,
                                          is_warning=st.is_warning, is_cancel=st.is_cancel,
                                          int=int(st)),
                            expected='Spec.StatusSpec.spec_class (see replay)'))
    elif rc != 0 or 'Closed under the global context' not in out:
        dec.report(dict(kind='table-theorem-broken', detail=out[-2000:], theorem='observed_ok / C18_now'),
                   no_input=True)
    else:
        dec.coverage['discharged'] += 2
    # the extension API
    import random
    ext = extension_cases(random.Random(seed), tier)
    f2, b2, n2, k2 = common.run_sharded(run, 'Ext', 'From PND Require Import Lib.Base.\n', '(list reg * list probe)%type',
                                        [t for t, _h in ext], [('ext', 'ext_ok')], size=50, preamble=EXT_DEFS)
    dec.coverage['obligations'] += n2
    dec.coverage['discharged'] += k2
    dec.coverage['application_registered_statuses'] = dict(plans=len(ext), probes=sum(h['probes'] for _t, h in ext))
    for i in f2['ext']:
        dec.report(dict(ext[i][1], kind='registered-status-misclassified'))
    for name, o in b2:
        dec.report(dict(kind='case-file-broken', file=name, detail=o), no_input=True)
    if not dec.violations:
        run.cleanup()
    else:
        run.keep = True
    return dec.finish()


def replay(rec):
    from pynetdicom2 import statuses, dimsemessages
    c = rec.get('command_field')
    cls = dimsemessages.MESSAGE_TYPE.get(c) if c is not None else None
    st = statuses.Status(rec['code'], cls)
    print('Status(0x%04X, %s): type=%s flags=%s int=%s' % (
        rec['code'], cls.__name__ if cls else None, st.status_type,
        [st.is_success, st.is_pending, st.is_failure, st.is_warning, st.is_cancel], int(st)))
    print('recorded:', rec.get('observed'))
    return 0
