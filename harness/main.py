"""Entry point: bin/check <Cxx> <quick|thorough> | --replay <file> | --setup"""
import importlib
import json
import os
import sys

sys.path.insert(0, os.path.dirname(os.path.abspath(__file__)))
import common  # noqa: E402


def main(argv):
    if argv and argv[0] == '--setup':
        rc, out = common.ensure_static(verbose=True)
        hits = common.forbidden_scan()
        if hits:
            print('forbidden constructs:', hits)
            return 1
        return rc
    if argv and argv[0] == '--replay':
        rec = json.load(open(argv[1]))
        common.setup_env()
        mod = importlib.import_module('check_' + rec['property'])
        return mod.replay(rec)
    if len(argv) < 1:
        print(__doc__)
        return 2
    prop = argv[0]
    tier = argv[1] if len(argv) > 1 else os.environ.get('VERIF_TIER', 'quick')
    try:
        common.setup_env()
        mod = importlib.import_module('check_' + prop)
        return mod.main(tier, common.seed_from_env())
    except Exception:  # noqa
        # the harness itself could not be run against this tree (an internal name it drives or observes is gone,
        # the package does not import, ...): the correspondence between model and code no longer checks
        import traceback
        tb = traceback.format_exc()
        os.makedirs(common.REPLAYS, exist_ok=True)
        path = os.path.join(common.REPLAYS, '%s-harness.json' % prop)
        with open(path, 'w') as f:
            json.dump(dict(property=prop, tier=tier, kind='correspondence-harness-could-not-run',
                           theorem='correspondence check of %s (harness/check_%s.py and its drivers) against the '
                                   'current tree' % (prop, prop),
                           detail=tb[-4000:]), f, indent=1)
        sys.stdout.write(tb[-1500:] + '\n')
        print('VIOLATION property=%s replay=%s no-failing-input-found' % (prop, path))
        return 1


if __name__ == '__main__':
    sys.exit(main(sys.argv[1:]))
