"""Entry point: bin/check <Cxx> <quick|thorough> | --replay <file> | --setup"""
import importlib
import json
import os
import sys

sys.path.insert(0, os.path.dirname(os.path.abspath(__file__)))
import common  # noqa: E402


def supervise(argv, prop, tier):
    """Run the check in a child process and watch the case it has in hand (common.note_case): a child that sits on one
    noted input for longer than STALL_S seconds is inside an implementation call that does not come back (it holds the
    interpreter lock, so nothing inside that process can say so).  The child is killed and the noted input reported."""
    import subprocess
    import time
    os.makedirs(common.BUILD, exist_ok=True)
    crumb = os.path.join(common.BUILD, 'crumb-%s-%d.json' % (prop, os.getpid()))
    env = dict(os.environ, VERIF_CHILD='1', VERIF_CRUMB=crumb)
    child = subprocess.Popen([sys.executable, '-B', os.path.abspath(__file__)] + list(argv), env=env)
    try:
        while True:
            try:
                return child.wait(timeout=2)
            except subprocess.TimeoutExpired:
                pass
            try:
                age = time.time() - os.stat(crumb).st_mtime
            except OSError:
                continue
            if age > common.STALL_S:
                try:
                    case = json.load(open(crumb))
                except Exception:  # noqa
                    case = None
                child.kill()
                child.wait()
                os.makedirs(common.REPLAYS, exist_ok=True)
                path = os.path.join(common.REPLAYS, '%s-stalled.json' % prop)
                with open(path, 'w') as f:
                    json.dump(dict(property=prop, tier=tier, kind='implementation-does-not-return',
                                   detail='the implementation was given this input and did not come back within %d s '
                                          '(the provider thread would sit in that call: it neither polls the transport '
                                          'nor its timer nor the stop request)' % common.STALL_S,
                                   case=case), f, indent=1)
                print('FAIL %s %s: the implementation did not return from a call within %d s' % (prop, tier, common.STALL_S))
                print('VIOLATION property=%s replay=%s' % (prop, path))
                return 1
    finally:
        try:
            os.remove(crumb)
        except OSError:
            pass


def main(argv):
    if argv and argv[0] == '--setup':
        rc, out = common.ensure_static(verbose=True, fresh=True)
        hits = common.forbidden_scan()
        if hits:
            print('forbidden constructs:', hits)
            return 1
        return rc
    if argv and argv[0] == '--replay':
        rec = json.load(open(argv[1]))
        common.setup_env()
        mod = importlib.import_module('check_' + rec['property'])
        return mod.replay(rec)
    if len(argv) < 1:
        print(__doc__)
        return 2
    prop = argv[0]
    tier = argv[1] if len(argv) > 1 else os.environ.get('VERIF_TIER', 'quick')
    if not os.environ.get('VERIF_CHILD'):
        return supervise(argv, prop, tier)
    try:
        common.setup_env()
        mod = importlib.import_module('check_' + prop)
        return mod.main(tier, common.seed_from_env())
    except Exception:  # noqa
        # the harness itself could not be run against this tree (an internal name it drives or observes is gone,
        # the package does not import, ...): the correspondence between model and code no longer checks
        import traceback
        tb = traceback.format_exc()
        os.makedirs(common.REPLAYS, exist_ok=True)
        path = os.path.join(common.REPLAYS, '%s-harness.json' % prop)
        with open(path, 'w') as f:
            json.dump(dict(property=prop, tier=tier, kind='correspondence-harness-could-not-run',
                           theorem='correspondence check of %s (harness/check_%s.py and its drivers) against the '
                                   'current tree' % (prop, prop),
                           detail=tb[-4000:]), f, indent=1)
        sys.stdout.write(tb[-1500:] + '\n')
        print('VIOLATION property=%s replay=%s no-failing-input-found' % (prop, path))
        return 1


if __name__ == '__main__':
    sys.exit(main(sys.argv[1:]))
