#!/usr/bin/env python3
"""Prints the markdown table of DESIGN.md section 11 from seeded/*/meta.json."""
import json, os, re
root = os.path.join(os.path.dirname(os.path.abspath(__file__)), '..', 'seeded')
rows = []
for name in sorted(os.listdir(root)):
    mp = os.path.join(root, name, 'meta.json')
    if not os.path.exists(mp):
        continue
    m = json.load(open(mp))
    checks = m.get('ran', {}).get('checks') or m.get('checks') or {}
    caught = m['caught_by'] if 'caught_by' in m else [c for c, v in checks.items() if v.get('exit')]
    missed = m['missed_by'] if 'missed_by' in m else [c for c, v in checks.items() if not v.get('exit')]
    note = (m.get('needs_to_manifest') or m.get('needs') or '').strip().replace('\n', ' ')
    note = re.sub(r'\s+', ' ', note)
    note = note[:150] + ('…' if len(note) > 150 else '')
    later = m.get('caught_after_strengthening')
    rows.append('| %s | %s | %s%s%s |' % (name, note.replace('|', '/'), ', '.join(caught) or '—',
                                        (' (not by: %s)' % ', '.join(missed)) if missed else '',
                                        (' — after strengthening: %s' % later) if later else ''))
print('| seeded change | what it is / what it needs | caught by |')
print('|---|---|---|')
print('\n'.join(rows))
