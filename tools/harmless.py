#!/usr/bin/env python3
"""tools/harmless.py <patch> <name> <check>...  — applies a behaviour-preserving refactoring to /repo, runs the
checks (all are expected to pass), undoes it, restores evidence/, and records the outcome under
/verif/seeded/harmless/<name>.json."""
import json, os, shutil, subprocess, sys


def sh(cmd, cwd=None):
    p = subprocess.run(cmd, shell=True, cwd=cwd, stdout=subprocess.PIPE, stderr=subprocess.STDOUT, universal_newlines=True)
    return p.returncode, p.stdout


def main():
    patch, name = sys.argv[1:3]
    checks = sys.argv[3:]
    rc, out = sh('git -C /repo status --short')
    if out.strip():
        print('/repo is not clean:', out); return 1
    rc, out = sh('git -C /repo apply %s' % patch)
    if rc:
        print('patch does not apply', out); return 1
    save = '/tmp/harmless_evidence_save'
    shutil.rmtree(save, ignore_errors=True)
    shutil.copytree('/verif/evidence', save)
    res = {}
    try:
        rc, out = sh('PYTHONPATH=/repo /venv/bin/python -m pytest -q -p no:cacheprovider tests/test_pdu.py tests/test_dimsemessages.py 2>&1 | tail -1', '/repo')
        res['tests'] = out.strip()
        for chk in checks:
            rc, out = sh('bin/check %s quick' % chk, '/verif')
            lines = [l for l in out.splitlines() if l.startswith(('VIOLATION', 'PASS', 'FAIL', 'KNOWN'))]
            res[chk] = dict(exit=rc, lines=[l[:300] for l in lines[-4:]])
            if rc:
                for l in lines:
                    if l.startswith('VIOLATION'):
                        rp = l.split('replay=')[1].split()[0]
                        try:
                            res[chk]['replay'] = json.load(open(rp))
                        except Exception:
                            pass
                        break
    finally:
        sh('git -C /repo checkout -- .')
        shutil.rmtree('/verif/evidence', ignore_errors=True)
        shutil.copytree(save, '/verif/evidence')
        shutil.rmtree(save, ignore_errors=True)
    d = '/verif/seeded/harmless'
    os.makedirs(d, exist_ok=True)
    shutil.copy(patch, os.path.join(d, name + '.diff'))
    alarms = [c for c in checks if res[c]['exit']]
    with open(os.path.join(d, name + '.json'), 'w') as f:
        json.dump(dict(name=name, checks=res, alarms=alarms), f, indent=1, default=str)
    print(name, 'tests:', res['tests'], 'ALARMS:' if alarms else 'no alarm', alarms)
    return 0


sys.exit(main())
