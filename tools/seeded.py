#!/usr/bin/env python3
"""tools/seeded.py <mut_dir> <k> <worktree> <name> <check> [<check>...]
Confirm a seeded change (tests pass, demo fails with / passes without), run our checks against it
in /repo (apply, run, undo) and store it under /verif/seeded/<name>/."""
import json, os, shutil, subprocess, sys

def sh(cmd, cwd=None, timeout=3000):
    p = subprocess.run(cmd, shell=True, cwd=cwd, stdout=subprocess.PIPE, stderr=subprocess.STDOUT,
                       universal_newlines=True, timeout=timeout)
    return p.returncode, p.stdout

def main():
    mut, k, wt, name = sys.argv[1:5]
    checks = sys.argv[5:]
    patch = os.path.join(mut, 'patch_%s.diff' % k)
    demo = os.path.join(mut, 'demo_%s.py' % k)
    notes = os.path.join(mut, 'notes_%s.txt' % k)
    res = {}
    sh('git checkout -- .', wt)
    rc, out = sh('PYTHONPATH=%s timeout 120 /venv/bin/python %s' % (wt, demo), wt)
    res['demo_without_patch'] = (rc, out[-300:])
    rc, out = sh('git apply %s' % patch, wt)
    if rc != 0:
        print('patch does not apply', out); return 1
    rc, out = sh('PYTHONPATH=%s /venv/bin/python -m pytest -q -p no:cacheprovider tests/test_pdu.py tests/test_dimsemessages.py 2>&1 | tail -1' % wt, wt)
    res['tests_with_patch'] = out.strip()
    rc, out = sh('PYTHONPATH=%s timeout 120 /venv/bin/python %s' % (wt, demo), wt)
    res['demo_with_patch'] = (rc, out[-300:])
    sh('git checkout -- .', wt)
    confirmed = ('70 passed' in res['tests_with_patch'] and res['demo_with_patch'][0] != 0
                 and res['demo_without_patch'][0] == 0)
    res['confirmed'] = confirmed
    # our checks against it: in /repo itself, or (SEEDED_REPO=<clean worktree of /repo's HEAD>) in a scratch worktree so
    # that several changes can be evaluated at the same time; whatever the runs write goes to a private directory
    # (VERIF_OUT), never to the committed evidence
    repo = os.environ.get('SEEDED_REPO', '/repo')
    rc, out = sh('git -C %s status --short' % repo)
    if out.strip():
        print('%s is not clean:' % repo, out); return 1
    rc, out = sh('git -C %s apply %s' % (repo, patch))
    if rc != 0:
        print('patch does not apply to', repo, out); return 1
    caught = {}
    outdir = '/tmp/seeded_out_%d' % os.getpid()
    shutil.rmtree(outdir, ignore_errors=True)
    os.makedirs(outdir)
    try:
        for chk in checks:
            rc, out = sh('VERIF_REPO=%s VERIF_OUT=%s bin/check %s quick' % (repo, outdir, chk), '/verif')
            lines = [l.replace(outdir, '<out>') for l in out.splitlines() if l.startswith(('VIOLATION', 'PASS', 'FAIL', 'KNOWN'))]
            caught[chk] = dict(exit=rc, lines=lines[-4:])
    finally:
        sh('git -C %s checkout -- .' % repo)
        shutil.rmtree(outdir, ignore_errors=True)
    res['checks'] = caught
    d = os.path.join('/verif/seeded', name)
    os.makedirs(d, exist_ok=True)
    shutil.copy(patch, os.path.join(d, 'patch.diff'))
    shutil.copy(demo, os.path.join(d, 'demo.py'))
    meta = dict(property=name.split('_')[0], needs_to_manifest=open(notes).read() if os.path.exists(notes) else '',
                ran=res, caught_by=[c for c in caught if caught[c]['exit'] != 0],
                missed_by=[c for c in caught if caught[c]['exit'] == 0])
    with open(os.path.join(d, 'meta.json'), 'w') as f:
        json.dump(meta, f, indent=1)
    print(json.dumps(dict(name=name, confirmed=confirmed, tests=res['tests_with_patch'],
                          demo_with=res['demo_with_patch'][0], demo_without=res['demo_without_patch'][0],
                          checks=dict((c, (v['exit'], v['lines'][-2:])) for c, v in caught.items())), indent=1))
    return 0

sys.exit(main())
