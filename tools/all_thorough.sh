#!/bin/bash
# run every thorough check in sequence (used with `vp run --with-repo`)
cd "$(dirname "$0")/.."
export VERIF_REPO="${VP_RUN_REPO:-/repo}"
bin/setup > /dev/null 2>&1
for p in C18 C04 C06 C10 C09 C08 C07 C17 C16 C19 C14 C11 C20 C15 C13 C12 C03 C05 C02 C01; do
  /usr/bin/time -f "$p %es" bin/check $p thorough 2>&1 | grep -E "^(PASS|FAIL|VIOLATION|KNOWN|C[0-9]+ )" 
done
