(* Lib/Base.v — common vocabulary of every model: bytes, Python-style results,
   big/little-endian fields, stream reads.  Definitions only (proofs in Proofs/). *)
From Coq Require Export NArith ZArith List Bool Lia.
Export ListNotations.
Open Scope N_scope.

Notation bytes := (list N) (only parsing).

Definition lenN {A : Type} (l : list A) : N := N.of_nat (length l).

(* ---- Python outcomes ------------------------------------------------- *)
Inductive exn :=
| StructError | UnicodeError | KeyError | IndexError | AttributeError
| ValueError | TypeError | PduError | DimseError | OsError | StopIter
| OutOfFuel | OtherError.

Inductive result (A : Type) :=
| Ok (a : A)
| Err (e : exn).
Arguments Ok {A} a.
Arguments Err {A} e.

Definition bind {A B : Type} (r : result A) (f : A -> result B) : result B :=
  match r with Ok a => f a | Err e => Err e end.

Notation "'let*' x ':=' r 'in' k" := (bind r (fun x => k))
  (at level 200, x pattern, r at level 100, k at level 200, right associativity).

Definition is_ok {A} (r : result A) : bool :=
  match r with Ok _ => true | Err _ => false end.

(* ---- fixed-width big-endian fields (struct '>B', '>H', '>I') ---------- *)
Definition be8 (n : N) : bytes := [n].
Definition be16 (n : N) : bytes := [n / 256; n mod 256].
Definition be32 (n : N) : bytes :=
  [n / 16777216; (n / 65536) mod 256; (n / 256) mod 256; n mod 256].
Definition le16 (n : N) : bytes := [n mod 256; n / 256].
Definition le32 (n : N) : bytes :=
  [n mod 256; (n / 256) mod 256; (n / 65536) mod 256; n / 16777216].

Definition un16 (a b : N) : N := a * 256 + b.
Definition un32 (a b c d : N) : N := ((a * 256 + b) * 256 + c) * 256 + d.

(* ---- streams: BytesIO.read(n) returns up to n bytes ------------------- *)
(* recursion on the list, so that a huge n (2^32-1) costs nothing *)
Fixpoint take (n : N) (s : bytes) : bytes :=
  match s with
  | [] => []
  | x :: r => if n =? 0 then [] else x :: take (n - 1) r
  end.
Fixpoint drop (n : N) (s : bytes) : bytes :=
  match s with
  | [] => []
  | x :: r => if n =? 0 then s else drop (n - 1) r
  end.

(* unpack of a fixed-size header: exactly n bytes or struct.error *)
Definition read_exact (n : N) (s : bytes) : result (bytes * bytes) :=
  if lenN (take n s) =? n then Ok (take n s, drop n s) else Err StructError.

Definition is_byte (b : N) : bool := b <? 256.
Definition all_bytes (l : bytes) : bool := forallb is_byte l.

(* list equality on N lists, as a boolean *)
Fixpoint beq_bytes (a b : bytes) : bool :=
  match a, b with
  | [], [] => true
  | x :: a', y :: b' => (x =? y) && beq_bytes a' b'
  | _, _ => false
  end.

(* indices of failing cases, used by every generated case file *)
Fixpoint failing_from {A : Type} (f : A -> bool) (l : list A) (i : N) : list N :=
  match l with
  | [] => []
  | x :: r => if f x then failing_from f r (i + 1) else i :: failing_from f r (i + 1)
  end.
Definition failing {A : Type} (f : A -> bool) (l : list A) : list N := failing_from f l 0.

(* deterministic payload generator mirrored in harness/coqlit.py (pat) *)
Fixpoint pat_aux (n : nat) (x : N) : bytes :=
  match n with
  | O => []
  | S k => let x' := (x * 75 + 74) mod 65537 in (x' mod 256) :: pat_aux k x'
  end.
Definition pat (seed len : N) : bytes := pat_aux (N.to_nat len) seed.
