(* Lib/Text.v — the pieces of Python text handling the PDU codecs rely on:
   strict UTF-8 validity (bytes.decode()), str.strip() restricted to ASCII white space,
   bytes.strip(b'\0').  Non-ASCII Unicode white space (U+0085, U+00A0, U+2000...) at the ends of a
   UID is outside the modelled domain (DESIGN.md section 9). *)
From PND Require Import Lib.Base.

Definition rng (lo hi b : N) : bool := (lo <=? b) && (b <=? hi).
Definition cont (b : N) : bool := rng 128 191 b.

Fixpoint utf8_valid (s : bytes) : bool :=
  match s with
  | [] => true
  | a :: r =>
    if a <? 128 then utf8_valid r
    else if rng 194 223 a then
      match r with b :: r' => cont b && utf8_valid r' | _ => false end
    else if rng 224 239 a then
      match r with
      | b :: c :: r' =>
          (if a =? 224 then rng 160 191 b else if a =? 237 then rng 128 159 b else cont b)
          && cont c && utf8_valid r'
      | _ => false
      end
    else if rng 240 244 a then
      match r with
      | b :: c :: d :: r' =>
          (if a =? 240 then rng 144 191 b else if a =? 244 then rng 128 143 b else cont b)
          && cont c && cont d && utf8_valid r'
      | _ => false
      end
    else false
  end.

Fixpoint lstrip (p : N -> bool) (l : bytes) : bytes :=
  match l with
  | x :: r => if p x then lstrip p r else l
  | [] => []
  end.
Definition rstrip (p : N -> bool) (l : bytes) : bytes := rev (lstrip p (rev l)).
Definition strip (p : N -> bool) (l : bytes) : bytes := lstrip p (rstrip p l).

Definition is_ws (b : N) : bool := rng 9 13 b || rng 28 32 b.
Definition is_nul (b : N) : bool := b =? 0.

Definition strip_ws (l : bytes) : bytes := strip is_ws l.
Definition strip_nul (l : bytes) : bytes := strip is_nul l.

Definition is_ascii (l : bytes) : bool := forallb (fun b => b <? 128) l.
