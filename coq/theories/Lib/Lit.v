(* Lib/Lit.v — compact byte-string literals for generated case files.
   A byte string is written as (length, list of primitive 63-bit integers), each
   integer holding 7 bytes big-endian (the last one padded with zero bytes on the
   right).  Only generated Cases/*.v files use this; no static theorem depends on
   primitive integers. *)
From Coq Require Import Uint63.
From PND Require Import Lib.Base.

Definition int_to_N (i : int) : N := Z.to_N (Uint63.to_Z i).

Definition seven (x : N) : bytes :=
  [ x / 281474976710656;
    (x / 1099511627776) mod 256;
    (x / 4294967296) mod 256;
    (x / 16777216) mod 256;
    (x / 65536) mod 256;
    (x / 256) mod 256;
    x mod 256 ].

Fixpoint unpack7 (l : list int) : bytes :=
  match l with
  | [] => []
  | i :: r => seven (int_to_N i) ++ unpack7 r
  end.

Definition B (len : N) (l : list int) : bytes := take len (unpack7 l).
