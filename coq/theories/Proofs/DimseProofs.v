From PND Require Import Lib.Base Model.Dimse Proofs.BaseProofs.

Lemma is_nil_true {A} (l : list A) : is_nil l = true <-> l = [].
Proof. destruct l; simpl; split; intros; try reflexivity; discriminate. Qed.

(* ---- chunks: content, size bound, flags ------------------------------- *)
Lemma chunks_fuel_concat (size : N) : 1 <= size -> forall fuel s, (length s <= fuel)%nat ->
  concat (map fst (chunks_fuel fuel size s)) = s.
Proof.
  intros Hs. induction fuel as [|f IH]; intros s Hl.
  - destruct s; [reflexivity|simpl in Hl; lia].
  - cbn [chunks_fuel]. destruct s as [|x s']; [reflexivity|].
    cbn [map fst concat]. rewrite IH.
    + apply take_drop.
    + rewrite length_drop. simpl length in *. lia.
Qed.

Lemma chunks_fuel_size (size : N) : forall fuel s,
  Forall (fun cb => lenN (fst cb) <= size) (chunks_fuel fuel size s).
Proof.
  induction fuel as [|f IH]; intros s; [constructor|].
  cbn [chunks_fuel]. destruct s as [|x s']; [constructor|].
  constructor; [apply lenN_take_le | apply IH].
Qed.

Lemma chunks_fuel_nonempty (size : N) : 1 <= size -> forall fuel s,
  Forall (fun cb => fst cb <> []) (chunks_fuel fuel size s).
Proof.
  intros Hs. induction fuel as [|f IH]; intros s; [constructor|].
  cbn [chunks_fuel]. destruct s as [|x s']; [constructor|].
  constructor; [apply take_nonempty; [exact Hs|discriminate] | apply IH].
Qed.

(* has_next is true on every chunk but the final one *)
Fixpoint hasnext_ok (l : list (bytes * bool)) : bool :=
  match l with
  | [] => false
  | [cb] => negb (snd cb)
  | cb :: r => snd cb && hasnext_ok r
  end.

Lemma chunks_fuel_hasnext (size : N) : 1 <= size -> forall fuel s, (length s <= fuel)%nat -> s <> [] ->
  hasnext_ok (chunks_fuel fuel size s) = true.
Proof.
  intros Hs. induction fuel as [|f IH]; intros s Hl Hne.
  - destruct s; [contradiction|simpl in Hl; lia].
  - cbn [chunks_fuel]. destruct s as [|x s']; [contradiction|].
    remember (drop size (x :: s')) as r eqn:Er.
    assert (Hlr : (length r <= f)%nat).
    { subst r. rewrite length_drop. simpl length in *. lia. }
    destruct r as [|y r'].
    + (* final chunk *)
      destruct f; reflexivity.
    + specialize (IH (y :: r') Hlr ltac:(discriminate)).
      cbn [hasnext_ok is_nil negb snd].
      destruct (chunks_fuel f size (y :: r')) as [|c cs] eqn:Ec.
      * simpl in IH. discriminate.
      * cbn [andb]. exact IH.
Qed.

Lemma chunks_nil_iff (size : N) fuel s : s = [] -> chunks_fuel fuel size s = [].
Proof. intros ->. destruct fuel; reflexivity. Qed.

(* ---- fragments -------------------------------------------------------- *)
Definition tag (normal last : N) (cb : bytes * bool) : bytes * N :=
  (fst cb, if snd cb then normal else last).

Lemma flags_ok_mk (pc normal last : N) : normal <> last -> forall l,
  hasnext_ok l = true -> flags_ok normal last (mk_frags pc (map (tag normal last) l)) = true.
Proof.
  intros Hnl. induction l as [|cb r IH]; intros H; [discriminate|].
  destruct r as [|cb2 r'].
  - simpl in H. simpl. destruct (snd cb); [discriminate|]. apply N.eqb_refl.
  - cbn [hasnext_ok] in H. apply andb_prop in H. destruct H as [H1 H2].
    specialize (IH H2).
    change (flags_ok normal last (mk_frags pc (map (tag normal last) (cb :: cb2 :: r'))))
      with ((f_ctl {| f_ctx := pc; f_ctl := snd (tag normal last cb); f_payload := fst (tag normal last cb) |} =? normal)
            && flags_ok normal last (mk_frags pc (map (tag normal last) (cb2 :: r')))).
    rewrite IH. cbn [f_ctl tag snd]. rewrite H1. rewrite N.eqb_refl. reflexivity.
Qed.

Lemma concat_payload_mk (pc : N) (l : list (bytes * N)) :
  concat_payload (mk_frags pc l) = concat (map fst l).
Proof.
  unfold concat_payload, mk_frags. rewrite map_map. cbn [f_payload]. reflexivity.
Qed.

Lemma concat_payload_app a b : concat_payload (a ++ b) = concat_payload a ++ concat_payload b.
Proof. unfold concat_payload. rewrite map_app, concat_app. reflexivity. Qed.

Lemma map_fst_tag normal last l : map fst (map (tag normal last) l) = map fst l.
Proof. rewrite map_map. reflexivity. Qed.

Definition legal_max (m : N) : Prop := m = 0 \/ 7 <= m.

Lemma eff_max_legal (m : N) : legal_max m -> 7 <= eff_max m.
Proof. unfold eff_max. intros [->|H]; [cbn; lia|]. destruct (N.eqb_spec m 0); lia. Qed.

Lemma eff_max_id (m : N) : 7 <= m -> eff_max m = m.
Proof. unfold eff_max. intros H. destruct (N.eqb_spec m 0); [lia|reflexivity]. Qed.

Lemma fragment_ok (data : bytes) (m normal last : N) : legal_max m ->
  fragment data m normal last = Ok (map (tag normal last) (chunks (eff_max m - 6) data)).
Proof.
  intros Hm. apply eff_max_legal in Hm. unfold fragment. cbv zeta.
  destruct (N.eqb_spec (eff_max m) 6); [lia|]. destruct (N.ltb_spec (eff_max m) 6); [lia|]. reflexivity.
Qed.

(* what one stream of fragments (command or data) satisfies *)
Definition stream_ok (pc m normal last : N) (src : bytes) (fs : list frag) : Prop :=
  Forall (fun f => frag_pdu_length f <= m /\ f_ctx f = pc /\ f_payload f <> []
                   /\ (f_ctl f = normal \/ f_ctl f = last)) fs
  /\ concat_payload fs = src
  /\ (src <> [] -> flags_ok normal last fs = true)
  /\ (src = [] -> fs = []).

Lemma stream_of_chunks (pc m normal last : N) (src : bytes) : 7 <= m -> normal <> last ->
  stream_ok pc m normal last src (mk_frags pc (map (tag normal last) (chunks (m - 6) src))).
Proof.
  intros Hm Hnl. unfold stream_ok, chunks.
  assert (Hs : 1 <= m - 6) by lia.
  split; [|split; [|split]].
  - pose proof (chunks_fuel_size (m - 6) (length src) src) as Hsz.
    pose proof (chunks_fuel_nonempty (m - 6) Hs (length src) src) as Hne.
    induction (chunks_fuel (length src) (m - 6) src) as [|cb r IH]; [constructor|].
    inversion Hsz as [|? ? Hs1 Hs2]; subst. inversion Hne as [|? ? Hn1 Hn2]; subst.
    constructor; [|apply IH; assumption].
    cbn beta in Hs1, Hn1.
    unfold frag_pdu_length. cbn [f_ctx f_ctl f_payload tag fst snd].
    split; [lia|]. split; [reflexivity|]. split; [exact Hn1|].
    destruct (snd cb); [left|right]; reflexivity.
  - rewrite concat_payload_mk, map_fst_tag. apply chunks_fuel_concat; [exact Hs|lia].
  - intros Hne. apply flags_ok_mk; [exact Hnl|].
    apply chunks_fuel_hasnext; [exact Hs|lia|exact Hne].
  - intros ->. reflexivity.
Qed.

(* ---- the file variant equals the bytes variant ------------------------ *)
Lemma take1_nil_iff (s : bytes) : is_nil (take 1 s) = is_nil s.
Proof. destruct s; reflexivity. Qed.

Lemma frag_file_eq_chunks (size : N) : 1 <= size -> forall fuel s, (length s <= fuel)%nat ->
  frag_file_fuel (S fuel) size s = chunks_fuel fuel size s.
Proof.
  intros Hs. induction fuel as [|f IH]; intros s Hl.
  - destruct s; [|simpl in Hl; lia]. cbn [frag_file_fuel chunks_fuel take]. reflexivity.
  - cbn [chunks_fuel]. destruct s as [|x s'].
    + cbn [frag_file_fuel take]. reflexivity.
    + change (frag_file_fuel (S (S f)) size (x :: s'))
        with (let chunk := take size (x :: s') in
              match chunk with
              | [] => []
              | _ => (chunk, negb (is_nil (take 1 (drop size (x :: s'))))) ::
                     frag_file_fuel (S f) size (drop size (x :: s'))
              end).
      cbv zeta.
      destruct (take size (x :: s')) as [|y t] eqn:Et.
      * exfalso. revert Et. apply take_nonempty; [exact Hs|discriminate].
      * rewrite take1_nil_iff. rewrite IH; [reflexivity|].
        rewrite length_drop. simpl length in *. lia.
Qed.

Lemma fragment_file_eq (contents : bytes) (m normal last : N) : legal_max m ->
  Ok (fragment_file contents m normal last) = fragment contents m normal last.
Proof.
  intros Hm. rewrite fragment_ok by exact Hm. apply eff_max_legal in Hm. unfold fragment_file, chunks.
  rewrite frag_file_eq_chunks; [reflexivity|lia|lia].
Qed.

(* ---- the whole message ------------------------------------------------ *)
Lemma dimse_encode_ok (cmd data : bytes) (pc m : N) : legal_max m ->
  dimse_encode cmd data pc m =
    Ok (mk_frags pc (map (tag 1 3) (chunks (eff_max m - 6) cmd)) ++
        mk_frags pc (map (tag 0 2) (chunks (eff_max m - 6) data))).
Proof.
  intros Hm. unfold dimse_encode.
  replace (unusable_max m) with false by (unfold unusable_max; destruct Hm as [->|H7]; [reflexivity|]; symmetry;
    apply andb_false_intro2; apply N.ltb_ge; exact H7).
  rewrite fragment_ok by exact Hm. cbn [bind].
  destruct data as [|d ds].
  - cbn [bind]. unfold chunks at 2. reflexivity.
  - rewrite fragment_ok by exact Hm. reflexivity.
Qed.

(* all command fragments, then all data fragments; each stream well formed *)
Lemma fragmentation_spec (cmd data : bytes) (pc m : N) : legal_max m ->
  exists cs ds,
    dimse_encode cmd data pc m = Ok (cs ++ ds)
    /\ stream_ok pc (eff_max m) 1 3 cmd cs
    /\ stream_ok pc (eff_max m) 0 2 data ds.
Proof.
  intros Hm.
  exists (mk_frags pc (map (tag 1 3) (chunks (eff_max m - 6) cmd))),
         (mk_frags pc (map (tag 0 2) (chunks (eff_max m - 6) data))).
  split; [exact (dimse_encode_ok cmd data pc m Hm)|].
  apply eff_max_legal in Hm.
  split; apply stream_of_chunks; try exact Hm; discriminate.
Qed.
