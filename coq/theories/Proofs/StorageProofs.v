From PND Require Import Lib.Base Lib.Text Model.Storage Proofs.BaseProofs Proofs.TextProofs.

Lemma mem_name_In x l : mem_name x l = true <-> In x l.
Proof.
  induction l as [|y r IH]; cbn [mem_name In]; [split; [discriminate|contradiction]|].
  rewrite orb_true_iff, IH. split.
  - intros [H|H]; [left; symmetry; apply beq_bytes_eq; exact H|right; exact H].
  - intros [->|H]; [left; apply beq_bytes_refl|right; exact H].
Qed.

(* the name found is not one of the existing names: nothing is overwritten *)
Lemma find_free_fresh existing : forall fuel name i n,
  find_free fuel existing name i = Some n -> ~ In n existing.
Proof.
  induction fuel as [|f IH]; intros name i n H; [discriminate|].
  cbn [find_free] in H. destruct (mem_name name existing) eqn:E.
  - exact (IH _ _ _ H).
  - injection H as <-. intros Hin. apply mem_name_In in Hin. congruence.
Qed.

(* the candidate names, in the order the loop tries them *)
Fixpoint candidates (k : nat) (name : bytes) (i : N) : list bytes :=
  match k with
  | O => []
  | S k' => name :: candidates k' (next_name name (i + 1)) (i + 1)
  end.

Lemma next_name_longer name i : (length name < length (next_name name i))%nat.
Proof. unfold next_name. rewrite !app_length. cbn [length]. lia. Qed.

Lemma candidates_longer k : forall name i c, In c (candidates k (next_name name (i + 1)) (i + 1)) ->
  (length name < length c)%nat.
Proof.
  induction k as [|k IH]; intros name i c H; [destruct H|].
  cbn [candidates In] in H. destruct H as [<-|H]; [apply next_name_longer|].
  pose proof (IH _ _ _ H). pose proof (next_name_longer name (i + 1)). lia.
Qed.

Lemma candidates_NoDup k : forall name i, NoDup (candidates k name i).
Proof.
  induction k as [|k IH]; intros name i; [constructor|].
  cbn [candidates]. constructor; [|apply IH].
  intros H. pose proof (candidates_longer k name i name H). lia.
Qed.

Lemma find_free_none existing : forall fuel name i,
  find_free fuel existing name i = None -> incl (candidates fuel name i) existing.
Proof.
  induction fuel as [|f IH]; intros name i H; [intros x []|].
  cbn [find_free] in H. destruct (mem_name name existing) eqn:E; [|discriminate].
  cbn [candidates]. intros x [<-|Hx]; [apply mem_name_In; exact E|exact (IH _ _ H x Hx)].
Qed.

Lemma length_candidates k name i : length (candidates k name i) = k.
Proof. revert name i. induction k as [|k IH]; intros; [reflexivity|]. cbn [candidates length]. rewrite IH. reflexivity. Qed.

(* the search always ends: the candidate names are pairwise different, so at most |existing| of them exist *)
Lemma storage_name_total existing uid : exists n, storage_name existing uid = Some n.
Proof.
  unfold storage_name. destruct (find_free _ _ _ _) as [n|] eqn:E; [exists n; reflexivity|].
  exfalso. pose proof (find_free_none existing _ _ _ E) as Hinc.
  pose proof (NoDup_incl_length (candidates_NoDup _ _ _) Hinc) as Hlen.
  rewrite length_candidates in Hlen. lia.
Qed.

Lemma storage_name_fresh existing uid n : storage_name existing uid = Some n -> ~ In n existing.
Proof. unfold storage_name. apply find_free_fresh. Qed.

Lemma storage_no_clobber (existing : list bytes) (uid : bytes) :
  exists n, storage_name existing uid = Some n /\ ~ In n existing.
Proof.
  destruct (storage_name_total existing uid) as [n Hn].
  exists n. split; [exact Hn|exact (storage_name_fresh existing uid n Hn)].
Qed.
