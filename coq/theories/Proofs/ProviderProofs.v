(* Proofs/ProviderProofs.v — every run of the concrete provider model projects onto a run of the
   control model over legal inputs; so the invariants of Proofs/FsmProofs.v hold at every point of
   every concrete run (any script of any length). *)
From PND Require Import Lib.Base Lib.Text Model.Pdu Model.CmdSet Model.Decoder Spec.Ps38Table
  Model.Fsm Model.Provider Proofs.FsmProofs.

Definition legal_uitem (u : uitem) : bool := match u with UM [] => false | _ => true end.
Definition legal_op (o : op) : bool :=
  match o with User u => legal_uitem u | Kill => false | _ => true end.

Lemma ctl_apply_op s o : ctl (apply_op s o) = ctl s.
Proof. destruct o; try reflexivity. cbn [apply_op]. destruct (c_sock (ctl s)); reflexivity. Qed.

Lemma userq_apply_op s o : legal_op o = true -> forallb legal_uitem (userq s) = true ->
  forallb legal_uitem (userq (apply_op s o)) = true.
Proof.
  intros Ho Hq. destruct o; try exact Hq.
  - cbn [apply_op]. destruct (c_sock (ctl s)); exact Hq.
  - cbn [apply_op userq]. rewrite forallb_app, Hq. cbn [forallb legal_op] in *. rewrite Ho. reflexivity.
Qed.

Lemma kind_of_legal p : legal_kind (kind_of p) = true.
Proof. destruct p as [k| | | | |]; try reflexivity. destruct k; reflexivity. Qed.

Lemma classify_legal f : match fst (classify f) with NPdu k => legal_kind k | _ => true end = true.
Proof.
  unfold classify. destruct f as [|t r]; [reflexivity|].
  destruct (decode_as t (t :: r)); cbn [fst]; [apply kind_of_legal|reflexivity].
Qed.

Lemma net_poll_legal s :
  match fst (fst (fst (fst (fst (net_poll s))))) with NPdu k => legal_kind k | _ => true end = true.
Proof.
  unfold net_poll.
  destruct (frame_of (raw s)) as [[f rest]|].
  - pose proof (classify_legal f) as H. destruct (classify f) as [n p]. exact H.
  - destruct (pending s) as [|x r].
    + destruct (rst s); [reflexivity|]. destruct (eof s); reflexivity.
    + destruct (frame_of _) as [[f rest]|]; [|reflexivity].
      pose proof (classify_legal f) as H. destruct (classify f) as [n p]. exact H.
Qed.

(* the input handed to the control step is legal *)
Lemma iter_input_legal env s : forallb legal_uitem (userq s) = true ->
  legal_input (it_input (iter_parts env s false)) = true
  /\ forallb legal_uitem (it_userq (iter_parts env s false)) = true.
Proof.
  intros Hq. unfold iter_parts.
  pose proof (net_poll_legal s) as Hn.
  destruct (polls_net (ctl s) false).
  - destruct (net_poll s) as [[[[[n np] raw'] pend'] eof'] rst']. cbn [fst] in Hn.
    destruct (polls_out (ctl s) false n).
    + destruct (if c_gen (ctl s) then gen s else []) as [|p r].
      * destruct (userq s) as [|[p|[|p r]] q]; cbn [forallb legal_uitem] in Hq;
          try discriminate; unfold legal_input; cbn [it_input it_userq i_kill i_net i_usr negb andb];
          rewrite ?Hn, ?kind_of_legal; try (apply andb_prop in Hq; destruct Hq as [_ Hq]);
          split; try reflexivity; try exact Hq.
      * unfold legal_input; cbn [it_input it_userq i_kill i_net i_usr negb andb]. rewrite Hn. split; [reflexivity|exact Hq].
    + unfold legal_input; cbn [it_input it_userq i_kill i_net i_usr negb andb]. rewrite Hn. split; [reflexivity|exact Hq].
  - destruct (polls_out (ctl s) false NNone).
    + destruct (if c_gen (ctl s) then gen s else []) as [|p r].
      * destruct (userq s) as [|[p|[|p r]] q]; cbn [forallb legal_uitem] in Hq;
          try discriminate; unfold legal_input; cbn [it_input it_userq i_kill i_net i_usr negb andb];
          rewrite ?kind_of_legal; try (apply andb_prop in Hq; destruct Hq as [_ Hq]);
          split; try reflexivity; try exact Hq.
      * unfold legal_input; cbn [it_input it_userq i_kill i_net i_usr negb andb]. split; [reflexivity|exact Hq].
    + unfold legal_input; cbn [it_input it_userq i_kill i_net i_usr negb andb]. split; [reflexivity|exact Hq].
Qed.

Lemma ctl_iter env s o :
  ctl (iter env s o) = fst (cstep (ctl s) (it_input (iter_parts env (apply_op s o) (is_kill o)))).
Proof.
  unfold iter. rewrite ctl_apply_op.
  destruct (cstep (ctl s) _) as [c' outs]. destruct (interpret _ _ _ _ _ _) as [[a b] c]. reflexivity.
Qed.

Lemma userq_iter env s o :
  userq (iter env s o) = it_userq (iter_parts env (apply_op s o) (is_kill o)).
Proof.
  unfold iter. destruct (cstep _ _) as [c' outs]. destruct (interpret _ _ _ _ _ _) as [[a b] c]. reflexivity.
Qed.

Definition wf_pstate (s : pstate) : Prop := In (ctl s) reach /\ forallb legal_uitem (userq s) = true.

Lemma iter_wf env s o : legal_op o = true -> wf_pstate s -> wf_pstate (iter env s o).
Proof.
  intros Ho [Hr Hq]. assert (Hk : is_kill o = false) by (destruct o; try reflexivity; discriminate).
  pose proof (userq_apply_op s o Ho Hq) as Hq'.
  destruct (iter_input_legal env (apply_op s o) Hq') as [Hl Hu].
  split.
  - rewrite ctl_iter, Hk. apply step_in_reach; assumption.
  - rewrite userq_iter, Hk. exact Hu.
Qed.

Lemma run_wf env ops : forall s, forallb legal_op ops = true -> wf_pstate s ->
  wf_pstate (fold_left (iter env) ops s).
Proof.
  induction ops as [|o ops IH]; intros s Hl Hs; [exact Hs|].
  cbn [forallb] in Hl. apply andb_prop in Hl. destruct Hl as [Ho Hl].
  cbn [fold_left]. apply IH; [exact Hl|apply iter_wf; assumption].
Qed.

(* every concrete run, of any length, stays inside the verified control states *)
Theorem concrete_in_reach env requestor maxlen ops : forallb legal_op ops = true ->
  In (ctl (run_script env requestor maxlen ops)) reach.
Proof.
  intros Hl. unfold run_script.
  apply (run_wf env ops (p_init requestor maxlen) Hl).
  split; [apply reach_init|reflexivity].
Qed.
