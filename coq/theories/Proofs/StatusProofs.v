From PND Require Import Lib.Base Spec.StatusSpec Model.Status.

Lemma nrange_from_complete (n : nat) : forall (s c : N),
  s <= c -> c < s + N.of_nat n -> In c (nrange_from n s).
Proof.
  induction n as [|n IH]; intros s c Hle Hlt.
  - simpl in Hlt. lia.
  - cbn [nrange_from]. destruct (N.eq_dec s c) as [->|Hne]; [left; reflexivity|].
    right. apply IH; lia.
Qed.

Lemma nrange_complete (n : nat) (c : N) : c < N.of_nat n -> In c (nrange n).
Proof. intros H. unfold nrange. apply nrange_from_complete; lia. Qed.

Lemma codes_complete (bound c : N) : c < bound -> In c (codes bound).
Proof.
  intros H. unfold codes. apply nrange_complete. rewrite N2Nat.id. exact H.
Qed.

Lemma check_table_sound (bound : N) (cmds : list (option N)) (t : table) :
  check_table bound cmds t = true ->
  forall cmd code, In cmd cmds -> code < bound ->
    lookup t cmd code = Some (sig_of (spec_class cmd code)).
Proof.
  intros Hc cmd code Hin Hlt.
  unfold check_table in Hc. rewrite forallb_forall in Hc.
  specialize (Hc cmd Hin). unfold cmd_ok in Hc. rewrite forallb_forall in Hc.
  specialize (Hc code (codes_complete bound code Hlt)).
  unfold cell_ok in Hc. destruct (lookup t cmd code) as [sg|]; [|discriminate].
  apply N.eqb_eq in Hc. subst sg. reflexivity.
Qed.

Lemma sig_exactly_one (k : sclass) : count_true (flags_of_sig (sig_of k)) = 1%nat.
Proof. destruct k; reflexivity. Qed.

Lemma sig_int_roundtrip (k : sclass) : N.testbit (sig_of k) 5 = true.
Proof. destruct k; reflexivity. Qed.

Lemma sig_injective (a b : sclass) : sig_of a = sig_of b -> a = b.
Proof. destruct a, b; simpl; intros H; try reflexivity; discriminate. Qed.

(* the facts the property names explicitly, about the spec itself *)
Lemma spec_zero_success (cmd : option N) : spec_class cmd 0 = Success.
Proof.
  destruct cmd as [c|]; [|reflexivity]. unfold spec_class, service_class.
  destruct (c =? C_STORE_RSP); [reflexivity|].
  destruct (c =? C_FIND_RSP); [reflexivity|].
  destruct (c =? C_GET_RSP); [reflexivity|].
  destruct (c =? C_MOVE_RSP); reflexivity.
Qed.

Lemma spec_pending :
  spec_class (Some C_FIND_RSP) 65280 = Pending /\ spec_class (Some C_FIND_RSP) 65281 = Pending /\
  spec_class (Some C_GET_RSP) 65280 = Pending /\ spec_class (Some C_MOVE_RSP) 65280 = Pending.
Proof. repeat split; reflexivity. Qed.

Lemma spec_unknown_failure (code : N) : code <> 0 -> spec_class None code = Failure.
Proof.
  intros H. unfold spec_class, general_class. destruct (N.eqb_spec code 0); [contradiction|reflexivity].
Qed.
