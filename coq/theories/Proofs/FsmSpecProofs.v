(* Proofs/FsmSpecProofs.v — the control model handles every dispatched event exactly as PS3.8
   Table 9-10 prescribes (Spec/Ps38Table.v), in every reachable control state. *)
From PND Require Import Lib.Base Spec.Ps38Table Model.Fsm Proofs.FsmProofs.

Definition src_code (s : asrc) : N := match s with S0 => 0 | S2 => 2 | SOther => 1 end.

Definition wire_matches (w : wire) (outs : list output) : bool :=
  match w, filter (fun o => match o with OSend _ _ => true | _ => false end) outs with
  | WNone, [] => true
  | WPrim, [OSend _ false] => true
  | WFresh 5, [OSend KRelRq true] => true
  | WFresh 6, [OSend KRelRp true] => true
  | WAbort None, [OSend (KAbort _) true] => true
  | WAbort (Some n), [OSend (KAbort s) true] => src_code s =? n
  | _, _ => false
  end.

Definition user_matches (u : user) (outs : list output) : bool :=
  match u, filter is_ind outs with
  | Ps38Table.UNone, [] => true
  | UPrim, [OInd _ false] => true
  | UData, [OIndData] => true
  | UAbort None, [OInd (KAbort _) true] => true
  | UAbort (Some n), [OInd (KAbort s) true] => src_code s =? n
  | _, _ => false
  end.

Definition has_out (f : output -> bool) (outs : list output) : bool := existsb f outs.

Definition artim_matches (t : artim) (before after : bool) (outs : list output) : bool :=
  let started := has_out (fun o => match o with OTStart => true | _ => false end) outs in
  match t with
  | TNone => Bool.eqb after before && negb started
  | TStart | TStartOrRestart => after && started
  | TStop => negb after && negb started
  end.

Definition pk_of_dec (k : kind) (d : decans) : primkind :=
  match k with
  | KData => match d with DComplete => PkDataComplete | _ => PkDataPartial end
  | KRq => PkRq | KAc => PkAc | KRj => PkRj | KRelRq => PkRelRq | KRelRp => PkRelRp
  | KAbort s => PkAbort (src_code s) | KNone => PkNone
  end.

(* one dispatch in control state c (transport present, as in every reachable non-idle state) *)
Definition dispatch_conforms (c : ctrl) (e : N) (d : decans) : bool :=
  let (c', outs) := dispatch c e d in
  match table e (c_st c) with
  | None => beq_ctrl c' c && match outs with [] => true | _ => false end      (* undefined: ignored *)
  | Some a =>
      match a, d with
      | DT2, DError | AR6, DError => true    (* not a table action: the P-DATA was invalid -> AA-8 (see below) *)
      | _, _ =>
        let ef := effects_of a (c_req c) e (pk_of_dec (c_pk c) d) in
        wire_matches (e_wire ef) outs && user_matches (e_user ef) outs
        && Bool.eqb (e_close ef) (has_out (fun o => match o with OClose => true | _ => false end) outs)
        && Bool.eqb (e_open ef) (has_out (fun o => match o with OOpen => true | _ => false end) outs)
        && artim_matches (e_artim ef) (c_tmr c) (c_tmr c') outs
        && existsb (N.eqb (c_st c')) (e_next ef)
      end
  end.

(* a P-DATA-TF PDU that cannot be reassembled is treated as an invalid PDU: exactly AA-8 *)
Definition invalid_pdata_is_aa8 (c : ctrl) (e : N) : bool :=
  match table e (c_st c) with
  | Some DT2 | Some AR6 =>
      let (c', outs) := dispatch c e DError in
      let ef := effects_of AA8 (c_req c) 19 PkNone in
      wire_matches (e_wire ef) outs && user_matches (e_user ef) outs && (c_st c' =? 13) && c_tmr c'
  | _ => true
  end.

(* the event raised for a PDU / primitive of kind k (PDU_TYPES / PDU_TO_EVENT), and the events that
   do not concern the primitive slot *)
Definition consistent (e : N) (k : kind) : bool :=
  match evt_of_net k with Some x => x =? e | None => false end
  || match evt_of_usr k with Some x => x =? e | None => false end
  || ((e =? 2) && beq_kind k KRq)
  || (e =? 5) || (e =? 17) || (e =? 18) || (e =? 19).

Definition all_kinds : list kind := KNone :: pdu_kinds.

Definition spec_ok (c : ctrl) : bool :=
  forallb (fun e => forallb (fun k =>
    negb (consistent e k)
    || (forallb (dispatch_conforms (set_pk c k) e) all_dec && invalid_pdata_is_aa8 (set_pk c k) e))
    all_kinds) events.

Definition running (c : ctrl) : bool := beq_outcome (c_out c) Running.

Lemma reach_spec_ok : forallb (fun c => negb (running c) || spec_ok c) reach = true.
Proof. vm_compute. reflexivity. Qed.

(* whenever the loop dispatches an event, the primitive slot holds the PDU that raised it *)
Definition poll_consistent (c : ctrl) (i : input) : bool :=
  match c_pend c with
  | Some e => consistent e (c_pk c)
  | None => match poll c i with
            | (c1, Some e, _) => consistent e (c_pk c1)
            | _ => true
            end
  end.

Lemma reach_poll_consistent :
  forallb (fun c => negb (running c) || forall_inputs (poll_consistent c)) reach = true.
Proof. vm_compute. reflexivity. Qed.
