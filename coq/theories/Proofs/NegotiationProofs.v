From PND Require Import Lib.Base Lib.Text Proofs.BaseProofs Proofs.TextProofs.
From PND Require Import Model.Negotiation.

Lemma mem_b_In x l : mem_b x l = true <-> In x l.
Proof.
  induction l as [|y r IH]; cbn [mem_b In]; [split; [discriminate|contradiction]|].
  rewrite orb_true_iff, IH. split.
  - intros [H|H]; [left; symmetry; apply beq_bytes_eq; exact H|right; exact H].
  - intros [->|H]; [left; apply beq_bytes_refl|right; exact H].
Qed.

(* ---- C09: the acceptor's answers --------------------------------------------------------------- *)
Lemma answers_ids cfg ps : map an_id (answers cfg ps) = map p_id ps.
Proof.
  unfold answers. rewrite map_map. apply map_ext. intros p. unfold answer_one.
  destruct (mem_b (p_abs p) (a_served cfg)); [destruct (first_supported cfg (p_tss p))|]; reflexivity.
Qed.

Lemma first_supported_some cfg tss t : first_supported cfg tss = Some t -> In t tss /\ In t (a_ts cfg).
Proof.
  induction tss as [|x r IH]; [discriminate|]. cbn [first_supported].
  destruct (mem_b x (a_ts cfg)) eqn:E.
  - intros H. injection H as <-. split; [left; reflexivity|apply mem_b_In; exact E].
  - intros H. destruct (IH H) as [H1 H2]. split; [right; exact H1|exact H2].
Qed.

Lemma first_supported_none cfg tss : first_supported cfg tss = None -> forall t, In t tss -> ~ In t (a_ts cfg).
Proof.
  induction tss as [|x r IH]; [intros _ t []|]. cbn [first_supported].
  destruct (mem_b x (a_ts cfg)) eqn:E; [discriminate|].
  intros H t [<-|Ht]; [intros Hin; apply mem_b_In in Hin; congruence|apply IH; assumption].
Qed.

Definition acceptable (cfg : acfg) (p : proposal) : Prop :=
  In (p_abs p) (a_served cfg) /\ exists t, In t (p_tss p) /\ In t (a_ts cfg).

Lemma answer_one_spec cfg p :
  an_id (answer_one cfg p) = p_id p
  /\ (an_result (answer_one cfg p) = 0 <-> acceptable cfg p)
  /\ (an_result (answer_one cfg p) = 0 ->
        In (an_ts (answer_one cfg p)) (p_tss p) /\ In (an_ts (answer_one cfg p)) (a_ts cfg))
  /\ (an_result (answer_one cfg p) <> 0 -> an_result (answer_one cfg p) = 1).
Proof.
  unfold answer_one, acceptable.
  destruct (mem_b (p_abs p) (a_served cfg)) eqn:Es.
  - apply mem_b_In in Es.
    destruct (first_supported cfg (p_tss p)) as [t|] eqn:Ef; cbn [an_id an_result an_ts].
    + destruct (first_supported_some cfg _ t Ef) as [H1 H2].
      split; [reflexivity|]. split; [split; [intros _; split; [exact Es|exists t; split; assumption]|reflexivity]|].
      split; [intros _; split; assumption|intros H; contradiction].
    + split; [reflexivity|]. split.
      * split; [discriminate|]. intros [_ [t [H1 H2]]]. exfalso. exact (first_supported_none cfg _ Ef t H1 H2).
      * split; [discriminate|reflexivity].
  - cbn [an_id an_result an_ts]. split; [reflexivity|]. split.
    + split; [discriminate|]. intros [H _]. apply mem_b_In in H. congruence.
    + split; [discriminate|reflexivity].
Qed.

Lemma served_table_spec cfg ps : forall id abs ts,
  In (id, abs, ts) (served_table ps (answers cfg ps)) <->
  exists p, In p ps /\ p_id p = id /\ p_abs p = abs /\ an_result (answer_one cfg p) = 0
            /\ an_ts (answer_one cfg p) = ts.
Proof.
  induction ps as [|p r IH]; intros id abs ts.
  - cbn. split; [contradiction|intros [p [[] _]]].
  - cbn [answers map served_table]. fold (answers cfg r). unfold served_entry.
    destruct (N.eqb_spec (an_result (answer_one cfg p)) 0) as [Hz|Hnz].
    + cbn [In]. rewrite IH. split.
      * intros [H|[q [Hq Hr]]]; [injection H as <- <- <-; exists p; repeat split; [left; reflexivity|exact Hz]
                                |exists q; split; [right; exact Hq|exact Hr]].
      * intros [q [[<-|Hq] [H1 [H2 [H3 H4]]]]]; [left; subst; reflexivity|right; exists q; repeat split; assumption].
    + rewrite IH. split.
      * intros [q [Hq Hr]]. exists q. split; [right; exact Hq|exact Hr].
      * intros [q [[<-|Hq] [H1 [H2 [H3 H4]]]]]; [contradiction|exists q; repeat split; assumption].
Qed.

(* ---- C10: maximum lengths ------------------------------------------------------------------------ *)
Definition legal_max (n : N) : Prop := n = 0 \/ 7 <= n.

Lemma eff_limit_spec own peer : legal_max own -> legal_max peer ->
  legal_max (eff_limit own peer)
  /\ (peer <> 0 -> eff_limit own peer <> 0 /\ eff_limit own peer <= peer)
  /\ (own <> 0 -> eff_limit own peer <> 0 /\ eff_limit own peer <= own)
  /\ (eff_limit own peer = 0 -> own = 0 /\ peer = 0).
Proof.
  unfold eff_limit, legal_max. intros Ho Hp.
  destruct (N.eqb_spec own 0) as [->|Hno]; destruct (N.eqb_spec peer 0) as [->|Hnp]; repeat split; try lia.
Qed.

Lemma negotiate_spec own_r own_a : legal_max own_r -> legal_max own_a ->
  let n := negotiate own_r own_a in
  ann_r n = own_r
  /\ le_inf (ann_a n) own_a /\ le_inf (ann_r n) own_r        (* each side announces what it is prepared to receive *)
  /\ (ann_a n <> 0 -> lim_r n <> 0 /\ lim_r n <= ann_a n)    (* the requestor sends within the acceptor's announcement *)
  /\ (ann_r n <> 0 -> lim_a n <> 0 /\ lim_a n <= ann_r n)    (* the acceptor sends within the requestor's announcement *)
  /\ legal_max (lim_r n) /\ legal_max (lim_a n).             (* both can still send (C06 needs 0 or >= 7) *)
Proof.
  intros Hr Ha. cbv zeta. unfold negotiate. cbn [ann_r ann_a lim_r lim_a].
  destruct (eff_limit_spec own_a own_r Ha Hr) as [Hl1 [Hp1 [Ho1 Hz1]]].
  destruct (eff_limit_spec own_r (eff_limit own_a own_r) Hr Hl1) as [Hl2 [Hp2 [Ho2 Hz2]]].
  split; [reflexivity|]. split.
  { unfold le_inf. destruct (N.eq_dec own_a 0) as [->|Hn]; [left; reflexivity|right; apply Ho1; exact Hn]. }
  split.
  { unfold le_inf. destruct (N.eq_dec own_r 0) as [->|Hn]; [left; reflexivity|right; split; [exact Hn|lia]]. }
  split; [exact Hp2|]. split; [exact Hp1|]. split; assumption.
Qed.

(* ---- C11: the requester's proposal ----------------------------------------------------------------- *)
Lemma number_from_app s a b :
  number_from s (a ++ b) = number_from s a ++ number_from (s + 2 * lenN a) b.
Proof.
  revert s. induction a as [|x a IH]; intros s.
  - cbn [app number_from]. change (lenN (@nil (list N))) with 0. replace (s + 2 * 0) with s by lia. reflexivity.
  - cbn [app number_from]. rewrite IH. rewrite lenN_cons.
    replace (s + 2 + 2 * lenN a) with (s + 2 * (lenN a + 1)) by lia. reflexivity.
Qed.

Lemma max_id_number_from s cls : cls <> [] -> max_id (number_from s cls) = s + 2 * (lenN cls - 1).
Proof.
  revert s. induction cls as [|c r IH]; intros s Hne; [contradiction|].
  cbn [number_from max_id fold_right fst]. fold (max_id (number_from (s + 2) r)).
  destruct r as [|c2 r'].
  - cbn. lia.
  - rewrite IH by discriminate. rewrite !lenN_cons. lia.
Qed.

Lemma configure_from (calls : list (list bytes)) : forall acc,
  fold_left add_classes calls (number_from 1 acc) = number_from 1 (acc ++ concat calls).
Proof.
  induction calls as [|cls r IH]; intros acc.
  - cbn [fold_left concat]. rewrite app_nil_r. reflexivity.
  - cbn [fold_left concat]. rewrite app_assoc, <- IH. f_equal.
    unfold add_classes. rewrite number_from_app. f_equal.
    destruct acc as [|a acc'].
    + reflexivity.
    + cbn [number_from]. f_equal.
      change ((1, a) :: number_from (1 + 2) acc') with (number_from 1 (a :: acc')).
      rewrite max_id_number_from by discriminate. rewrite lenN_cons. lia.
Qed.

(* ids are 1, 3, 5, ... in the order the classes were configured, one context per class *)
Lemma configure_spec calls : configure calls = number_from 1 (concat calls).
Proof. unfold configure. exact (configure_from calls []). Qed.

Lemma number_from_nth s cls : forall i c, nth_error cls i = Some c ->
  nth_error (number_from s cls) i = Some (s + 2 * N.of_nat i, c).
Proof.
  revert s. induction cls as [|x r IH]; intros s i c H; [destruct i; discriminate|].
  destruct i as [|i]; cbn [nth_error number_from] in *.
  - injection H as <-. f_equal. f_equal. lia.
  - rewrite (IH (s + 2) i c H). f_equal. f_equal. lia.
Qed.

Lemma number_from_ids s cls : forall id c, In (id, c) (number_from s cls) ->
  s <= id /\ id <= s + 2 * (lenN cls - 1) /\ N.odd id = N.odd s.
Proof.
  revert s. induction cls as [|x r IH]; intros s id c H; [destruct H|].
  cbn [number_from In] in H. destruct H as [H|H].
  - injection H as <- <-. rewrite lenN_cons. repeat split; lia.
  - destruct (IH (s + 2) id c H) as [H1 [H2 H3]]. rewrite lenN_cons.
    assert (lenN r <> 0) by (destruct r; [destruct H|rewrite lenN_cons; lia]).
    split; [lia|]. split; [lia|]. rewrite H3. rewrite N.odd_add. cbn. destruct (N.odd s); reflexivity.
Qed.

Lemma number_from_classes s cls : map snd (number_from s cls) = cls.
Proof. revert s. induction cls as [|x r IH]; intros s; [reflexivity|]. cbn [number_from map snd]. rewrite IH. reflexivity. Qed.

Lemma number_from_NoDup s cls : NoDup (map fst (number_from s cls)).
Proof.
  revert s. induction cls as [|x r IH]; intros s; [constructor|].
  cbn [number_from map fst]. constructor; [|apply IH].
  intros Hin. apply in_map_iff in Hin. destruct Hin as [[id c] [Hid Hc]]. cbn [fst] in Hid. subst id.
  destruct (number_from_ids (s + 2) r s c Hc) as [H _]. lia.
Qed.

(* all ids fit in a byte exactly when at most 128 contexts are configured *)
Lemma ids_fit_iff cls : cls <> [] ->
  (forall id c, In (id, c) (number_from 1 cls) -> id <= 255) <-> lenN cls <= 128.
Proof.
  intros Hne. split.
  - intros H. destruct (exists_last Hne) as [pre [c Hc]].
    assert (Hn : nth_error cls (length pre) = Some c).
    { rewrite Hc. rewrite nth_error_app2 by lia. rewrite Nat.sub_diag. reflexivity. }
    pose proof (number_from_nth 1 cls _ c Hn) as Hnth. apply nth_error_In in Hnth.
    specialize (H _ _ Hnth). rewrite Hc, lenN_app, lenN_cons, lenN_nil. unfold lenN. lia.
  - intros H id c Hin. destruct (number_from_ids 1 cls id c Hin) as [_ [H2 _]]. lia.
Qed.

(* the reply: usable = accepted among the proposed, with the transfer syntax the peer chose *)
Lemma usable_spec ctxs reply : NoDup (map fst ctxs) -> forall id c t,
  In (id, c, t) (usable ctxs reply) <->
  exists a, In a reply /\ an_id a = id /\ an_result a = 0 /\ an_ts a = t /\ In (id, c) ctxs.
Proof.
  intros Hnd id c t. unfold usable. rewrite in_flat_map. split.
  - intros [a [Ha Hin]]. destruct (N.eqb_spec (an_result a) 0) as [Hz|]; [|destruct Hin].
    destruct (find (fun x => fst x =? an_id a) ctxs) as [[i cc]|] eqn:Ef; [|destruct Hin].
    destruct Hin as [Hin|[]]. injection Hin as <- <- <-.
    apply find_some in Ef. destruct Ef as [Hc Hi]. cbn [fst] in Hi. apply N.eqb_eq in Hi. subst i.
    exists a. repeat split; assumption.
  - intros [a [Ha [<- [Hz [<- Hc]]]]]. exists a. split; [exact Ha|].
    rewrite Hz. cbn [N.eqb].
    destruct (find (fun x => fst x =? an_id a) ctxs) as [[i cc]|] eqn:Ef.
    + apply find_some in Ef. destruct Ef as [Hc2 Hi]. cbn [fst] in Hi. apply N.eqb_eq in Hi. subst i.
      assert (cc = c).
      { clear - Hnd Hc Hc2. induction ctxs as [|[i x] r IH]; [destruct Hc|].
        cbn [map fst] in Hnd. inversion Hnd as [|? ? Hni Hr]; subst.
        destruct Hc as [Hc|Hc]; destruct Hc2 as [Hc2|Hc2].
        - congruence.
        - injection Hc as E1 E2. subst i x. exfalso. apply Hni. apply in_map_iff. exists (an_id a, cc). split; [reflexivity|exact Hc2].
        - injection Hc2 as E1 E2. subst i x. exfalso. apply Hni. apply in_map_iff. exists (an_id a, c). split; [reflexivity|exact Hc].
        - apply IH; assumption. }
      subst cc. left. reflexivity.
    + exfalso. apply (find_none _ _ Ef) in Hc. cbn [fst] in Hc. rewrite N.eqb_refl in Hc. discriminate.
Qed.

Lemma lookup_last_some cls u id t : lookup_last cls u = Some (id, t) -> In (id, cls, t) u.
Proof.
  induction u as [|[[i c] tt] r IH]; [discriminate|]. cbn [lookup_last].
  destruct (lookup_last cls r) as [x|] eqn:E.
  - intros H. injection H as ->. right. apply IH. reflexivity.
  - destruct (beq_bytes c cls) eqn:Eb; [|discriminate].
    intros H. injection H as <- <-. apply beq_bytes_eq in Eb. subst. left. reflexivity.
Qed.

Lemma lookup_last_none cls u : lookup_last cls u = None -> forall id t, ~ In (id, cls, t) u.
Proof.
  induction u as [|[[i c] tt] r IH]; [intros _ id t []|]. cbn [lookup_last].
  destruct (lookup_last cls r) as [x|] eqn:E; [discriminate|].
  destruct (beq_bytes c cls) eqn:Eb; [discriminate|].
  intros _ id t [H|H]; [injection H as -> -> ->; rewrite beq_bytes_refl in Eb; discriminate|].
  exact (IH eq_refl id t H).
Qed.

(* a service is obtained iff the class is configured as SCU and an accepted context for it exists *)
Lemma get_scu_spec scu u cls :
  (exists x, get_scu scu u cls = Some x) <-> (In cls scu /\ exists id t, In (id, cls, t) u).
Proof.
  unfold get_scu. split.
  - intros [[id t] H]. destruct (lookup_last cls u) as [[i tt]|] eqn:E; [|discriminate].
    destruct (mem_b cls scu) eqn:Em; [|discriminate]. injection H as <- <-.
    split; [apply mem_b_In; exact Em|exists i, tt; apply lookup_last_some; exact E].
  - intros [Hs [id [t Hin]]]. apply mem_b_In in Hs. rewrite Hs.
    destruct (lookup_last cls u) as [x|] eqn:E; [exists x; reflexivity|].
    exfalso. exact (lookup_last_none cls u E id t Hin).
Qed.

Lemma ids_spec (cls : list bytes) :
  NoDup (map fst (number_from 1 cls)) /\ map snd (number_from 1 cls) = cls
  /\ (forall id c, In (id, c) (number_from 1 cls) -> 1 <= id /\ N.odd id = true)
  /\ (forall i c, nth_error cls i = Some c -> nth_error (number_from 1 cls) i = Some (1 + 2 * N.of_nat i, c)).
Proof.
  split; [apply number_from_NoDup|]. split; [apply number_from_classes|]. split.
  - intros id c H. destruct (number_from_ids 1 cls id c H) as [H1 [_ H3]]. split; [exact H1|exact H3].
  - intros i c H. exact (number_from_nth 1 cls i c H).
Qed.

(* ---- requester and acceptor together -------------------------------------------------------- *)
(* the requester's proposal for its configured contexts *)
Definition proposals_of (tss : list bytes) (ctxs : list (N * bytes)) : list proposal :=
  map (fun c => mkprop (fst c) (snd c) tss) ctxs.

Lemma find_by_id (all : list (N * bytes)) : NoDup (map fst all) ->
  forall id c, In (id, c) all -> find (fun x => fst x =? id) all = Some (id, c).
Proof.
  induction all as [|[i d] r IH]; intros Hnd id c Hin; [contradiction|].
  cbn [map fst] in Hnd. inversion Hnd as [|x l Hni Hnd']; subst.
  cbn [find fst]. destruct (N.eqb_spec i id) as [->|Hne].
  - destruct Hin as [H|H]; [injection H as ->; reflexivity|].
    exfalso. apply Hni. apply in_map_iff. exists (id, c). split; [reflexivity|exact H].
  - destruct Hin as [H|H]; [injection H as -> ->; contradiction|]. apply IH; assumption.
Qed.

(* after negotiation both sides hold the same table of usable presentation contexts: what the requester
   regards as usable is exactly what the acceptor will serve — same ids, same abstract syntaxes, same
   transfer syntaxes, same order *)
Theorem both_sides_agree (cfg : acfg) (tss : list bytes) (all : list (N * bytes)) : NoDup (map fst all) ->
  forall ctxs, incl ctxs all ->
  usable all (answers cfg (proposals_of tss ctxs))
  = served_table (proposals_of tss ctxs) (answers cfg (proposals_of tss ctxs)).
Proof.
  intros Hnd. induction ctxs as [|[id c] r IH]; intros Hincl; [reflexivity|].
  assert (Hin : In (id, c) all) by (apply Hincl; left; reflexivity).
  assert (Hr : incl r all) by (intros x Hx; apply Hincl; right; exact Hx).
  cbn [proposals_of map answers usable flat_map served_table fst snd].
  fold (proposals_of tss r). fold (answers cfg (proposals_of tss r)).
  change (flat_map _ (answers cfg (proposals_of tss r))) with (usable all (answers cfg (proposals_of tss r))).
  rewrite (IH Hr).
  set (p := mkprop id c tss). unfold served_entry.
  assert (Hid : an_id (answer_one cfg p) = id).
  { unfold answer_one. destruct (mem_b _ _); [destruct (first_supported _ _)|]; reflexivity. }
  rewrite Hid. destruct (an_result (answer_one cfg p) =? 0).
  - rewrite (find_by_id all Hnd id c Hin). reflexivity.
  - reflexivity.
Qed.
