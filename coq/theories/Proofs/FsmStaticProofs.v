(* The control model against the standard, statically: in every cell of Table 9-10 (13 states x 19 events
   x both roles x every primitive kind that can raise the event x ARTIM running or not) the effects of
   Model.Fsm.dispatch conform to Spec.Ps38Table exactly as the observed cells of the real StateMachine
   are required to (Model.FsmCell.conforms). *)
From PND Require Import Lib.Base Spec.Ps38Table Model.FsmCell Model.Fsm Corr.CorrFsm.

Definition sent_of (p : primkind) (o : output) : list sent :=
  match o with
  | OSend k fresh => [mksent (type_code k) (if fresh then fresh_source k else prim_source p) 0 (negb fresh)]
  | _ => []
  end.
Definition given_of (p : primkind) (o : output) : list given :=
  match o with
  | OInd k fresh => [mkgiven (type_code k) (if fresh then fresh_source k else prim_source p) (negb fresh)]
  | OIndData => [mkgiven 100 0 false]
  | _ => []
  end.

Definition model_cell (s e : N) (rq : bool) (p : primkind) (tb : bool) : cell :=
  let c0 := mkcell s e rq p false s [] [] false false tb tb false in
  let (k, d) := kind_of_prim p in
  let (c', outs) := dispatch (cell_ctrl c0) e d in
  mkcell s e rq p (match c_out c' with Crashed => true | _ => false end) (c_st c')
         (flat_map (sent_of p) outs) (flat_map (given_of p) outs)
         (has (fun o => match o with OClose => true | _ => false end) outs)
         (has (fun o => match o with OOpen => true | _ => false end) outs)
         tb (c_tmr c') (has (fun o => match o with OTStart => true | _ => false end) outs).

Definition all_prims : list primkind :=
  [PkNone; PkRq; PkAc; PkRj; PkDataComplete; PkDataPartial; PkRelRq; PkRelRp; PkAbort 0; PkAbort 2; PkAbort 1].

(* the primitive kinds that can be in the slot when event e is dispatched: the PDU / request that raised it;
   events without a primitive (transport, timer, invalid PDU) leave whatever was there *)
Definition applicable (e : N) (p : primkind) : bool :=
  let k := fst (kind_of_prim p) in
  match evt_of_net k, evt_of_usr k with
  | Some a, Some b => (a =? e) || (b =? e) || existsb (N.eqb e) [2; 5; 17; 18; 19]
  | _, _ => existsb (N.eqb e) [2; 5; 17; 18; 19]
  end.

Definition cells_conform : bool :=
  forallb (fun s => forallb (fun e => forallb (fun rq => forallb (fun p => forallb (fun tb =>
    negb (applicable e p) || conforms (model_cell s e rq p tb)) [true; false]) all_prims) [true; false]) events) states.

Lemma cells_conform_true : cells_conform = true.
Proof. vm_compute. reflexivity. Qed.

Theorem model_conforms_everywhere (s e : N) (rq : bool) (p : primkind) (tb : bool) :
  In s states -> In e events -> In p all_prims -> applicable e p = true ->
  conforms (model_cell s e rq p tb) = true.
Proof.
  intros Hs He Hp Ha. pose proof cells_conform_true as H. unfold cells_conform in H.
  rewrite forallb_forall in H. specialize (H s Hs).
  rewrite forallb_forall in H. specialize (H e He).
  rewrite forallb_forall in H. specialize (H rq ltac:(destruct rq; cbn; auto)).
  rewrite forallb_forall in H. specialize (H p Hp).
  rewrite forallb_forall in H. specialize (H tb ltac:(destruct tb; cbn; auto)).
  rewrite Ha in H. exact H.
Qed.
