(* Proofs/ProviderIdleProofs.v — the concrete loop (Model.Provider.iter) in an iteration in which nothing arrives:
   nothing is read, nothing written, nothing indicated, the control state stays. *)
From PND Require Import Lib.Base Model.Pdu Model.Decoder Model.Fsm Model.Provider Proofs.FsmProofs Proofs.FsmStutterProofs Proofs.ProviderProofs.

(* no complete frame buffered, nothing waiting at the transport (no bytes, no close, no reset), no request of the local
   user queued, ARTIM not expired, the control state quiescent *)
Definition quiet (s : pstate) : bool :=
  quiescent (ctl s)
  && (match frame_of (raw s) with None => true | Some _ => false end)
  && (match pending s with [] => true | _ => false end) && negb (eof s) && negb (rst s)
  && (match userq s with [] => true | _ => false end)
  && negb (10 <? now s - tstart s).

Lemma idle_parts env s : quiet s = true ->
  let pt := iter_parts env s false in
  is_idle (it_input pt) = true /\ it_raw pt = raw s /\ it_pending pt = pending s
  /\ it_slot pt = prim s /\ it_userq pt = userq s.
Proof.
  unfold quiet. intros H.
  repeat (apply andb_prop in H; destruct H as [H ?]).
  match goal with Hx : negb (10 <? now s - tstart s) = true |- _ => apply negb_true_iff in Hx; rename Hx into Hexp end.
  destruct (userq s) as [|u0 uq] eqn:Eu; [|discriminate].
  match goal with Hx : negb (rst s) = true |- _ => apply negb_true_iff in Hx; rename Hx into Hrst end.
  match goal with Hx : negb (eof s) = true |- _ => apply negb_true_iff in Hx; rename Hx into Heof end.
  destruct (pending s) as [|b0 pd] eqn:Ep; [|discriminate].
  destruct (frame_of (raw s)) as [fr|] eqn:Ef; [discriminate|].
  unfold quiescent in H. destruct (c_pend (ctl s)) eqn:Epend; [discriminate|].
  apply andb_prop in H. destruct H as [Hgen _]. apply negb_true_iff in Hgen.
  unfold iter_parts, net_poll. rewrite Ef, Ep, Hrst, Heof, Eu, Hgen, Hexp.
  destruct (polls_net (ctl s) false); destruct (polls_out (ctl s) false NNone);
    cbn [it_input it_raw it_pending it_slot it_userq is_idle i_kill i_net i_usr i_expired negb andb];
    repeat split; reflexivity.
Qed.

Theorem idle_iteration_concrete env s :
  In (ctl s) reach -> quiet s = true ->
  let s' := iter env s Idle in
  ctl s' = ctl s /\ wire s' = wire s /\ given s' = given s /\ raw s' = raw s /\ pending s' = pending s
  /\ userq s' = userq s /\ prim s' = prim s /\ tstart s' = tstart s /\ now s' = now s.
Proof.
  intros Hr Hq. destruct (idle_parts env s Hq) as [Hi [Hraw [Hpend [Hslot Huq]]]].
  unfold quiet in Hq. assert (Hqc : quiescent (ctl s) = true).
  { repeat (apply andb_prop in Hq; destruct Hq as [Hq ?]). exact Hq. }
  cbv zeta. unfold iter. cbn [apply_op is_kill].
  rewrite (idle_step (ctl s) (it_input (iter_parts env s false)) Hr Hqc Hi).
  cbn [interpret existsb]. cbn [ctl wire given raw pending userq prim tstart now].
  repeat split; assumption || reflexivity.
Qed.

(* ---- the whole state: with no outgoing fragments left over either, the iteration is the identity ---------------- *)
Definition no_event_when_idle (c : ctrl) : bool :=
  negb (quiescent c)
  || match snd (fst (poll c (mkin false NNone UNone GEnd false DIncomplete))) with None => true | Some _ => false end.

Lemma reach_no_event : forallb no_event_when_idle reach = true.
Proof. vm_compute. reflexivity. Qed.

Definition quiet_all (s : pstate) : bool :=
  quiet s && (match gen s with [] => true | _ => false end).

Theorem idle_iteration_identity env s :
  In (ctl s) reach -> quiet_all s = true -> iter env s Idle = s.
Proof.
  intros Hr Hqa. unfold quiet_all in Hqa. apply andb_prop in Hqa. destruct Hqa as [Hq Hg].
  destruct (gen s) as [|g0 gr] eqn:Eg; [|discriminate]. clear Hg.
  pose proof Hq as Hq0.
  unfold quiet in Hq.
  repeat (apply andb_prop in Hq; destruct Hq as [Hq ?]).
  match goal with Hx : negb (10 <? now s - tstart s) = true |- _ => apply negb_true_iff in Hx; rename Hx into Hexp end.
  destruct (userq s) as [|u0 uq] eqn:Eu; [|discriminate].
  match goal with Hx : negb (rst s) = true |- _ => apply negb_true_iff in Hx; rename Hx into Hrst end.
  match goal with Hx : negb (eof s) = true |- _ => apply negb_true_iff in Hx; rename Hx into Heof end.
  destruct (pending s) as [|b0 pd] eqn:Ep; [|discriminate].
  destruct (frame_of (raw s)) as [fr|] eqn:Ef; [discriminate|].
  pose proof (proj1 (forallb_forall _ _) reach_no_event (ctl s) Hr) as Hne.
  unfold no_event_when_idle in Hne. rewrite Hq in Hne. cbn [negb orb] in Hne.
  pose proof Hq as Hqc.
  unfold quiescent in Hq. destruct (c_pend (ctl s)) eqn:Epend; [discriminate|].
  apply andb_prop in Hq. destruct Hq as [Hgen _]. apply negb_true_iff in Hgen.
  assert (Hparts : iter_parts env s false
                   = mkparts (mkin false NNone UNone GEnd false DIncomplete) (raw s) [] false false (prim s) [] [] (dec s) None None).
  { unfold iter_parts, net_poll. rewrite Ef, Ep, Hrst, Heof, Eu, Hgen, Hexp, Epend, Eg.
    destruct (snd (fst (poll (ctl s) (mkin false NNone UNone GEnd false DIncomplete)))) eqn:Epoll; [discriminate|].
    destruct (polls_net (ctl s) false); destruct (polls_out (ctl s) false NNone);
      rewrite ?Epoll; destruct (c_out (ctl s)); reflexivity. }
  unfold iter. cbn [apply_op is_kill]. rewrite Hparts. cbn [it_input it_slot it_msg it_evt it_raw it_pending it_eof it_rst it_userq it_gen it_dec].
  rewrite (idle_step (ctl s) (mkin false NNone UNone GEnd false DIncomplete) Hr Hqc eq_refl).
  cbn [interpret existsb].
  destruct s as [c rw pe eo rs nw ts pr uq gn dc ml wr gv tr].
  cbn [raw pending eof rst now tstart prim userq gen dec maxlen wire given trace ctl] in *.
  subst. reflexivity.
Qed.

(* lifted to scripts: an Idle operation inserted at a quiet point of ANY script changes nothing at all, whatever follows *)
Theorem idle_insertion_invisible env requestor maxlen (ops1 ops2 : list op) :
  forallb legal_op ops1 = true ->
  quiet_all (run_script env requestor maxlen ops1) = true ->
  run_script env requestor maxlen (ops1 ++ Idle :: ops2) = run_script env requestor maxlen (ops1 ++ ops2).
Proof.
  intros Hl Hq.
  pose proof (idle_iteration_identity env _ (concrete_in_reach env requestor maxlen ops1 Hl) Hq) as H.
  unfold run_script in *. rewrite !fold_left_app. cbn [fold_left]. rewrite H. reflexivity.
Qed.

(* non-vacuity: after the request has been read and indicated, the acceptor's state is quiet *)
Example quiet_somewhere :
  quiet_all (run_script (mkdenv [] [] [] []) false 65536 [Idle; Idle]) = true.
Proof. vm_compute. reflexivity. Qed.

(* non-vacuity in an established association: the request has been indicated, the local user has accepted, and the
   first three bytes of the peer's next PDU are in the buffer (an incomplete header): the state is quiet, in Sta6 *)
Definition ex_rq : pdu :=
  Assoc Pdu.KRq 0 1 0 [65] [66] [0;0;0;0;0;0;0;0]
        [AppCtx 0 [49;46;50]; PcRq 1 0 0 0 0 {| sy_reserved := 0; sy_name := [49;46;50;46;51] |} [{| sy_reserved := 0; sy_name := [49;46;50] |}];
         UserInfo 0 [MaxLen 0 4 16384]].
Definition ex_ac : pdu :=
  Assoc Pdu.KAc 0 1 0 [65] [66] [0;0;0;0;0;0;0;0]
        [AppCtx 0 [49;46;50]; PcAc 1 0 0 0 0 {| sy_reserved := 0; sy_name := [49;46;50] |}; UserInfo 0 [MaxLen 0 4 16384]].
Definition ex_ops : list op := [Seg (encode ex_rq); Idle; User (UP ex_ac); Idle; Seg [4; 0; 0]; Idle].

Example quiet_in_sta6 :
  let s := run_script (mkdenv [] [] [1] []) false 65536 ex_ops in
  quiet_all s = true /\ c_st (ctl s) = 6 /\ raw s = [4; 0; 0] /\ length (wire s) = 1%nat /\ length (given s) = 1%nat
  /\ forallb legal_op ex_ops = true.
Proof. vm_compute. repeat split. Qed.
