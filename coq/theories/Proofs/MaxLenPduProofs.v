(* Proofs/MaxLenPduProofs.v — the maximum-length negotiation at the level of PDU values: the Maximum Length
   sub-item is found wherever it stands among the user-information sub-items (PS3.7 Annex D fixes no order), the
   acceptor announces its own limit in exactly that sub-item and leaves every other sub-item alone, and the two
   functions on PDUs compute the abstract `negotiate` of Model/Negotiation.v. *)
From PND Require Import Lib.Base Lib.Text Model.Pdu Model.Negotiation Model.NegoPdu Corr.CorrNego.

Definition is_maxlen (s : subitem) : bool := match s with MaxLen _ _ _ => true | _ => false end.

Lemma find_set_maxlen v subs p : find_maxlen subs = Some p -> find_maxlen (set_maxlen v subs) = Some v.
Proof.
  induction subs as [|s r IH]; [discriminate|].
  destruct s; cbn [find_maxlen set_maxlen]; try exact IH. intros _. reflexivity.
Qed.

Lemma find_announce v subs : find_maxlen (announce v subs) = Some v.
Proof.
  unfold announce. destruct (find_maxlen subs) as [p|] eqn:E.
  - exact (find_set_maxlen v subs p E).
  - reflexivity.
Qed.

(* every other sub-item stays, in order *)
Lemma set_maxlen_others v subs :
  filter (fun s => negb (is_maxlen s)) (set_maxlen v subs) = filter (fun s => negb (is_maxlen s)) subs.
Proof.
  induction subs as [|s r IH]; [reflexivity|].
  destruct s; cbn [set_maxlen filter is_maxlen negb]; try (rewrite IH; reflexivity). reflexivity.
Qed.

Lemma announce_others v subs :
  filter (fun s => negb (is_maxlen s)) (announce v subs) = filter (fun s => negb (is_maxlen s)) subs.
Proof.
  unfold announce. destruct (find_maxlen subs); [apply set_maxlen_others|reflexivity].
Qed.

Lemma set_maxlen_length v subs : length (set_maxlen v subs) = length subs.
Proof. induction subs as [|s r IH]; [reflexivity|]. destruct s; cbn [set_maxlen length]; rewrite ?IH; reflexivity. Qed.

(* the position of the announcement is the position of the peer's: what stands before it is untouched and holds no
   Maximum Length sub-item, what stands behind it is untouched *)
Lemma set_maxlen_split v subs p : find_maxlen subs = Some p ->
  exists before mr ml after,
    subs = before ++ MaxLen mr ml p :: after
    /\ set_maxlen v subs = before ++ MaxLen mr ml v :: after
    /\ forallb (fun s => negb (is_maxlen s)) before = true.
Proof.
  induction subs as [|s r IH]; [discriminate|].
  destruct s as [mr ml q| | | | | | | |]; cbn [find_maxlen set_maxlen].
  1: { intros H. injection H as ->. exists [], mr, ml, r. repeat split. }
  all: intros H; destruct (IH H) as [b [mr [ml [a [H1 [H2 H3]]]]]];
    eexists (_ :: b), mr, ml, a; cbn [app forallb is_maxlen negb andb]; rewrite H1 at 1; rewrite H2; repeat split; exact H3.
Qed.

Definition user_subs (p : pdu) : list subitem :=
  match last (items_of p) (AppCtx 0 []) with UserInfo _ subs => subs | _ => [] end.

Lemma last_wrap {A} (first : A) (mid : list A) (x d : A) : last (first :: mid ++ [x]) d = x.
Proof. change (first :: mid ++ [x]) with ((first :: mid) ++ [x]). apply last_last. Qed.

(* the acceptor: whatever the order of the requestor's sub-items *)
Lemma accept_pdu_max cfg own rq m : accept_pdu cfg own rq = Some m ->
  acc_max m = eff_limit own (peer_announced (user_subs rq))
  /\ user_subs (acc_pdu m) = announce (acc_max m) (user_subs rq)
  /\ find_maxlen (user_subs (acc_pdu m)) = Some (acc_max m)
  /\ filter (fun s => negb (is_maxlen s)) (user_subs (acc_pdu m))
     = filter (fun s => negb (is_maxlen s)) (user_subs rq).
Proof.
  destruct rq as [k r1 v r2 called calling r3 items| | | | |]; try discriminate.
  unfold user_subs. cbn [accept_pdu items_of].
  destruct items as [|first rest]; [discriminate|].
  destruct (last (first :: rest) (AppCtx 0 [])) as [| | |ur subs]; try discriminate.
  destruct (map_opt (answer_item cfg) (middle (first :: rest))) as [ans|]; [|discriminate].
  destruct (map_opt proposal_of (middle (first :: rest))) as [props|]; [|discriminate].
  intros H. injection H as <-. cbn [acc_max acc_pdu items_of].
  change ([first] ++ ans ++ [UserInfo ur (announce (eff_limit own (peer_announced subs)) subs)])
    with (first :: ans ++ [UserInfo ur (announce (eff_limit own (peer_announced subs)) subs)]).
  rewrite last_wrap. repeat split.
  - apply find_announce.
  - apply announce_others.
Qed.

(* the requestor reading the reply *)
Lemma read_reply_max own ctxs ac r : read_reply own ctxs ac = Some r ->
  rep_max r = match find_maxlen (user_subs ac) with Some peer => eff_limit own peer | None => own end.
Proof.
  destruct ac as [k r1 v r2 called calling r3 items| | | | |]; try discriminate.
  unfold user_subs. cbn [read_reply items_of].
  destruct (last items (AppCtx 0 [])) as [| | |ur subs]; try discriminate.
  destruct (map_opt answer_of (middle items)); [|discriminate].
  intros H. injection H as <-. reflexivity.
Qed.

(* both together = the abstract negotiation, for a requestor that announces own_r anywhere among its sub-items *)
Lemma pdu_negotiation cfg own_r own_a ctxs rq m r :
  find_maxlen (user_subs rq) = Some own_r ->
  accept_pdu cfg own_a rq = Some m -> read_reply own_r ctxs (acc_pdu m) = Some r ->
  let n := negotiate own_r own_a in
  acc_max m = lim_a n /\ find_maxlen (user_subs (acc_pdu m)) = Some (ann_a n) /\ rep_max r = lim_r n.
Proof.
  intros Hf Ha Hr. destruct (accept_pdu_max cfg own_a rq m Ha) as [H1 [_ [H3 _]]].
  pose proof (read_reply_max own_r ctxs (acc_pdu m) r Hr) as H4. rewrite H3 in H4.
  unfold peer_announced in H1. rewrite Hf in H1.
  unfold negotiate. cbn [lim_a ann_a lim_r]. rewrite <- H1. repeat split; [exact H3|exact H4].
Qed.

(* a requestor that announces nothing is a requestor without limit *)
Lemma accept_without_announcement cfg own rq m :
  find_maxlen (user_subs rq) = None -> accept_pdu cfg own rq = Some m ->
  acc_max m = own /\ user_subs (acc_pdu m) = MaxLen 0 4 own :: user_subs rq.
Proof.
  intros Hf Ha. destruct (accept_pdu_max cfg own rq m Ha) as [H1 [H2 _]].
  unfold peer_announced in H1. rewrite Hf in H1.
  assert (E : eff_limit own 0 = own) by (unfold eff_limit; destruct (own =? 0) eqn:E0; [apply N.eqb_eq in E0; congruence|reflexivity]).
  rewrite E in H1. split; [exact H1|]. rewrite H2, H1. unfold announce. rewrite Hf. reflexivity.
Qed.

(* ---- the library talking to itself: the request it builds, answered by its own acceptor, read by its own requestor *)
From PND Require Import Proofs.NegoPduProofs.

Definition pcrq_of (ts_list : list bytes) (c : N * bytes) : item :=
  PcRq (fst c) 0 0 0 0 {| sy_reserved := 0; sy_name := snd c |}
       (map (fun t => {| sy_reserved := 0; sy_name := t |}) ts_list).

Lemma map_opt_proposals ts_list (ctxs : list (N * bytes)) :
  exists props, map_opt proposal_of (map (pcrq_of ts_list) ctxs) = Some props.
Proof.
  induction ctxs as [|c r [props IH]]; [exists []; reflexivity|].
  eexists. cbn [map map_opt pcrq_of proposal_of]. rewrite IH. reflexivity.
Qed.

Lemma map_opt_answer_items cfg ts_list (ctxs : list (N * bytes)) :
  exists ans, map_opt (answer_item cfg) (map (pcrq_of ts_list) ctxs) = Some ans.
Proof.
  induction ctxs as [|c r [ans IH]]; [exists []; reflexivity|].
  cbn [map map_opt]. rewrite IH. unfold pcrq_of, answer_item.
  destruct (mem_b _ (a_served cfg)); [destruct (chosen_item cfg _)|]; eexists; reflexivity.
Qed.

Lemma library_pair cfg called calling ctxs ts_list own_r own_a rest :
  let rq := request_pdu called calling ctxs ts_list (MaxLen 0 4 own_r :: rest) in
  exists m r,
    accept_pdu cfg own_a rq = Some m /\ read_reply own_r ctxs (acc_pdu m) = Some r
    /\ acc_max m = lim_a (negotiate own_r own_a) /\ rep_max r = lim_r (negotiate own_r own_a)
    /\ user_subs (acc_pdu m) = MaxLen 0 4 (ann_a (negotiate own_r own_a)) :: rest.
Proof.
  intros rq.
  destruct (map_opt_proposals ts_list ctxs) as [props Hp].
  destruct (map_opt_answer_items cfg ts_list ctxs) as [ans Ha].
  assert (Hitems : items_of rq = AppCtx 0 APP_CONTEXT :: map (pcrq_of ts_list) ctxs ++ [UserInfo 0 (MaxLen 0 4 own_r :: rest)])
    by reflexivity.
  assert (Hacc : exists m, accept_pdu cfg own_a rq = Some m).
  { unfold rq, request_pdu.
    change ([AppCtx 0 APP_CONTEXT] ++ map (fun c => PcRq (fst c) 0 0 0 0 {| sy_reserved := 0; sy_name := snd c |}
              (map (fun t => {| sy_reserved := 0; sy_name := t |}) ts_list)) ctxs ++ [UserInfo 0 (MaxLen 0 4 own_r :: rest)])
      with (AppCtx 0 APP_CONTEXT :: map (pcrq_of ts_list) ctxs ++ [UserInfo 0 (MaxLen 0 4 own_r :: rest)]).
    cbn [accept_pdu]. rewrite last_wrap, middle_wrap, Ha, Hp. eexists; reflexivity. }
  destruct Hacc as [m Hm]. exists m.
  destruct (accept_pdu_spec cfg own_a rq m Hm) as [props' [Hp' [Hans [_ [_ [_ Hhd]]]]]].
  destruct (accept_pdu_max cfg own_a rq m Hm) as [Hmax [Hsubs [Hfind _]]].
  assert (Hus : user_subs rq = MaxLen 0 4 own_r :: rest).
  { unfold user_subs. rewrite Hitems, last_wrap. reflexivity. }
  (* the reply is an Assoc PDU whose last item is the user information and whose middle items are answers *)
  assert (Hrep : exists r, read_reply own_r ctxs (acc_pdu m) = Some r).
  { revert Hm Hans. unfold rq, request_pdu.
    change ([AppCtx 0 APP_CONTEXT] ++ map (fun c => PcRq (fst c) 0 0 0 0 {| sy_reserved := 0; sy_name := snd c |}
              (map (fun t => {| sy_reserved := 0; sy_name := t |}) ts_list)) ctxs ++ [UserInfo 0 (MaxLen 0 4 own_r :: rest)])
      with (AppCtx 0 APP_CONTEXT :: map (pcrq_of ts_list) ctxs ++ [UserInfo 0 (MaxLen 0 4 own_r :: rest)]).
    cbn [accept_pdu]. rewrite last_wrap, middle_wrap, Ha, Hp. intros Hm. injection Hm as <-. cbn [acc_pdu items_of read_reply].
    change ([AppCtx 0 APP_CONTEXT] ++ ans ++ [UserInfo 0 (announce (eff_limit own_a (peer_announced (MaxLen 0 4 own_r :: rest))) (MaxLen 0 4 own_r :: rest))])
      with (AppCtx 0 APP_CONTEXT :: ans ++ [UserInfo 0 (announce (eff_limit own_a (peer_announced (MaxLen 0 4 own_r :: rest))) (MaxLen 0 4 own_r :: rest))]).
    rewrite last_wrap, middle_wrap. intros Hans. rewrite Hans. eexists; reflexivity. }
  destruct Hrep as [r Hr]. exists r.
  assert (Hf : find_maxlen (user_subs rq) = Some own_r) by (rewrite Hus; reflexivity).
  destruct (pdu_negotiation cfg own_r own_a ctxs rq m r Hf Hm Hr) as [H1 [H2 H3]].
  repeat split; try assumption.
  rewrite Hsubs, Hus, H1. unfold announce. cbn [find_maxlen set_maxlen]. reflexivity.
Qed.
