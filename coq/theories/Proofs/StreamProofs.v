From PND Require Import Lib.Base Lib.Text Model.Pdu Model.CmdSet Model.Decoder Spec.Ps38Table Model.Fsm Model.Provider
  Model.Framing Model.Stream Proofs.BaseProofs Proofs.FramingProofs.
Local Opaque take drop frame_of.

Lemma stream_apply_op s o : stream (apply_op s o) = stream s ++ delivered s o.
Proof.
  unfold stream, delivered. destruct o; cbn [apply_op]; try (rewrite app_nil_r; reflexivity).
  destruct (c_sock (ctl s)); cbn [raw pending]; [rewrite app_assoc|rewrite app_nil_r]; reflexivity.
Qed.

Definition np_raw (x : net * option pdu * bytes * bytes * bool * bool) : bytes :=
  let '(_, _, r, _, _, _) := x in r.
Definition np_pend (x : net * option pdu * bytes * bytes * bool * bool) : bytes :=
  let '(_, _, _, p, _, _) := x in p.
Definition np_net (x : net * option pdu * bytes * bytes * bool * bool) : net * option pdu :=
  let '(n, p, _, _, _, _) := x in (n, p).

(* one network poll: either a frame is taken from the head of the stream — the first frame of the
   stream by the PS3.8 length prefix — or the stream is untouched *)
Lemma net_poll_stream s :
  match poll_frame s with
  | Some f => frame_of (stream s) = Some (f, np_raw (net_poll s) ++ np_pend (net_poll s))
              /\ np_net (net_poll s) = classify f
  | None => np_raw (net_poll s) ++ np_pend (net_poll s) = stream s
  end.
Proof.
  unfold poll_frame, net_poll, stream.
  destruct (frame_of (raw s)) as [[f rest]|] eqn:E.
  - destruct (classify f) as [n p] eqn:Ec. cbn [np_raw np_pend np_net].
    split; [apply frame_of_app; exact E|reflexivity].
  - destruct (pending s) as [|x xs] eqn:Ep.
    + destruct (rst s); [|destruct (eof s)]; cbn [np_raw np_pend]; reflexivity.
    + set (rsize := if maxlen s =? 0 then 65536 else maxlen s).
      set (P := x :: xs).
      destruct (frame_of (raw s ++ take rsize P)) as [[f rest]|] eqn:E2.
      * destruct (classify f) as [n p] eqn:Ec. cbn [np_raw np_pend np_net].
        split; [|reflexivity].
        rewrite <- (take_drop rsize P) at 1. rewrite app_assoc.
        apply frame_of_app. exact E2.
      * cbn [np_raw np_pend]. rewrite <- app_assoc, take_drop. reflexivity.
Qed.

Lemma iter_parts_stream env s kill :
  let pt := iter_parts env s kill in
  match (if polls_net (ctl s) kill then poll_frame s else None) with
  | Some f => frame_of (stream s) = Some (f, it_raw pt ++ it_pending pt)
  | None => it_raw pt ++ it_pending pt = stream s
  end.
Proof.
  unfold iter_parts.
  destruct (polls_net (ctl s) kill) eqn:Ep.
  - pose proof (net_poll_stream s) as H.
    destruct (net_poll s) as [[[[[n np] raw'] pend'] eof'] rst'] eqn:En.
    cbn [np_raw np_pend np_net] in H.
    destruct (polls_out (ctl s) kill n);
      [destruct (if c_gen (ctl s) then gen s else []) as [|g0 gr];
       [destruct (userq s) as [|[p|[|p r]] q]|]|];
      cbn [it_raw it_pending]; (destruct (poll_frame s); [destruct H as [H _]|]; exact H).
  - destruct (polls_out (ctl s) kill NNone);
      [destruct (if c_gen (ctl s) then gen s else []) as [|g0 gr];
       [destruct (userq s) as [|[p|[|p r]] q]|]|];
      cbn [it_raw it_pending]; reflexivity.
Qed.

Lemma raw_iter env s o : raw (iter env s o) = it_raw (iter_parts env (apply_op s o) (is_kill o)).
Proof.
  unfold iter. destruct (cstep _ _) as [c' outs]. destruct (interpret _ _ _ _ _ _) as [[a b] c]. reflexivity.
Qed.
Lemma pending_iter env s o : pending (iter env s o) = it_pending (iter_parts env (apply_op s o) (is_kill o)).
Proof.
  unfold iter. destruct (cstep _ _) as [c' outs]. destruct (interpret _ _ _ _ _ _) as [[a b] c]. reflexivity.
Qed.

(* one iteration *)
Lemma iter_stream env s o :
  match iter_frame s o with
  | Some f => frame_of (stream s ++ delivered s o) = Some (f, stream (iter env s o))
  | None => stream (iter env s o) = stream s ++ delivered s o
  end.
Proof.
  unfold iter_frame. rewrite <- stream_apply_op.
  pose proof (iter_parts_stream env (apply_op s o) (is_kill o)) as H. cbv zeta in H.
  assert (Hs : stream (iter env s o) = it_raw (iter_parts env (apply_op s o) (is_kill o)) ++
                                       it_pending (iter_parts env (apply_op s o) (is_kill o)))
    by (unfold stream; rewrite raw_iter, pending_iter; reflexivity).
  rewrite Hs.
  destruct (polls_net (ctl (apply_op s o)) (is_kill o)); [destruct (poll_frame (apply_op s o))|]; exact H.
Qed.

(* nothing lost, duplicated or reordered: the frames taken so far, then what is still held, is what
   was held at the start plus what the transport delivered since *)
Theorem stream_conserved env : forall ops s,
  concat (run_frames env s ops) ++ stream (fold_left (iter env) ops s) = stream s ++ run_delivered env s ops.
Proof.
  induction ops as [|o ops IH]; intros s.
  - cbn. rewrite app_nil_r. reflexivity.
  - cbn [run_frames run_delivered fold_left].
    pose proof (iter_stream env s o) as H.
    destruct (iter_frame s o) as [f|].
    + apply frame_of_some in H. destruct H as [H _]. cbn [concat].
      rewrite <- app_assoc, IH, app_assoc, <- H, <- app_assoc. reflexivity.
    + rewrite IH, H, app_assoc. reflexivity.
Qed.

(* the frames recognised are the PS3.8 frames of the delivered content, whatever the segmentation
   and whatever else happened in between: a prefix of the frames of the whole stream, in order *)
Theorem frames_of_content env : forall ops s,
  exists tl, fst (frames (stream s ++ run_delivered env s ops)) = run_frames env s ops ++ tl.
Proof.
  induction ops as [|o ops IH]; intros s.
  - cbn [run_frames run_delivered app]. eexists. reflexivity.
  - cbn [run_frames run_delivered].
    pose proof (iter_stream env s o) as H. destruct (IH (iter env s o)) as [tl Htl].
    rewrite app_assoc.
    destruct (iter_frame s o) as [f|].
    + exists tl. rewrite frames_unfold.
      rewrite (frame_of_app _ (run_delivered env (iter env s o) ops) _ _ H).
      destruct (frames (stream (iter env s o) ++ run_delivered env (iter env s o) ops)) as [fs r].
      cbn [fst] in *. rewrite Htl. reflexivity.
    + exists tl. rewrite <- H. exact Htl.
Qed.

(* two runs whose delivered content is the same and which both consumed it entirely recognised the
   same PDUs *)
Corollary same_content_same_frames env ops1 ops2 s :
  run_delivered env s ops1 = run_delivered env s ops2 ->
  stream (fold_left (iter env) ops1 s) = stream (fold_left (iter env) ops2 s) ->
  concat (run_frames env s ops1) = concat (run_frames env s ops2).
Proof.
  intros Hd Hs. pose proof (stream_conserved env ops1 s) as H1. pose proof (stream_conserved env ops2 s) as H2.
  rewrite Hd, <- H2, Hs in H1. apply app_inv_tail in H1. exact H1.
Qed.

(* the network event of an iteration is the classification of the frame it took, nothing else *)
Lemma frame_classified env s o f : iter_frame s o = Some f ->
  i_net (it_input (iter_parts env (apply_op s o) (is_kill o))) = fst (classify f).
Proof.
  unfold iter_frame, iter_parts. destruct (polls_net _ _) eqn:Ep; [|discriminate]. intros Hf.
  pose proof (net_poll_stream (apply_op s o)) as H. rewrite Hf in H. destruct H as [_ H].
  destruct (net_poll (apply_op s o)) as [[[[[n np] raw'] pend'] eof'] rst'] eqn:En.
  cbn [np_net] in H. rewrite <- H.
  destruct (polls_out _ _ n);
    [destruct (if c_gen (ctl (apply_op s o)) then gen (apply_op s o) else []) as [|g0 gr];
     [destruct (userq (apply_op s o)) as [|[p|[|p r]] q]|]|];
    reflexivity.
Qed.

(* and when no frame was taken, no PDU event arises from the network *)
Lemma no_frame_no_pdu env s o : iter_frame s o = None ->
  match i_net (it_input (iter_parts env (apply_op s o) (is_kill o))) with NPdu _ | NBad => False | _ => True end.
Proof.
  unfold iter_frame, iter_parts. destruct (polls_net _ _) eqn:Ep.
  - intros Hf. unfold net_poll. unfold poll_frame in Hf.
    set (t := apply_op s o) in *.
    destruct (frame_of (raw t)) as [[f rest]|]; [discriminate|].
    destruct (pending t) as [|x xs].
    + destruct (rst t); [|destruct (eof t)];
      match goal with |- context [polls_out ?a ?b ?n] => destruct (polls_out a b n) end;
      try (destruct (if c_gen (ctl t) then gen t else []) as [|g0 gr]; [destruct (userq t) as [|[p|[|p r]] q]|]);
      exact I.
    + set (rsize := if maxlen t =? 0 then 65536 else maxlen t) in *.
      destruct (frame_of (raw t ++ take rsize (x :: xs))) as [[f rest]|]; [discriminate|].
      match goal with |- context [polls_out ?a ?b ?n] => destruct (polls_out a b n) end;
      try (destruct (if c_gen (ctl t) then gen t else []) as [|g0 gr]; [destruct (userq t) as [|[p|[|p r]] q]|]);
      exact I.
  - intros _.
    match goal with |- context [polls_out ?a ?b ?n] => destruct (polls_out a b n) end;
      try (destruct (if c_gen (ctl (apply_op s o)) then gen (apply_op s o) else []) as [|g0 gr];
           [destruct (userq (apply_op s o)) as [|[p|[|p r]] q]|]);
      exact I.
Qed.
