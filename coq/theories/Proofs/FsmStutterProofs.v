(* Proofs/FsmStutterProofs.v — iterations in which nothing arrives are invisible.
   How the transport cuts the peer's bytes decides how many iterations of the loop see "nothing yet" (no complete PDU,
   no local request, ARTIM not expired) between two PDUs.  In a quiescent control state (no event queued, no outgoing
   message in progress, not in Sta4) such an iteration changes nothing and emits nothing — by reflection over `reach`, hence in every
   state any history can lead to — so two histories that differ only in such iterations end in the same control state
   with the same sequence of outputs (PDUs written, indications given, transport opened / closed, ARTIM started). *)
From PND Require Import Lib.Base Model.Fsm Proofs.FsmProofs.

(* (Sta4 is left by the provider on its own: the transport connection it has just opened is confirmed in the next iteration) *)
Definition quiescent (c : ctrl) : bool :=
  match c_pend c with None => negb (c_gen c) && negb (c_st c =? 4) | Some _ => false end.

Definition is_idle (i : input) : bool :=
  negb (i_kill i) && (match i_net i with NNone => true | _ => false end)
  && (match i_usr i with UNone => true | _ => false end) && negb (i_expired i).

Definition idle_inputs : list input :=
  flat_map (fun g => map (fun d => mkin false NNone UNone g false d) all_dec) all_gen.

Definition nilb {A} (l : list A) : bool := match l with [] => true | _ => false end.

Definition stutters (c : ctrl) : bool :=
  negb (quiescent c)
  || forallb (fun i => beq_ctrl (fst (cstep c i)) c && nilb (snd (cstep c i))) idle_inputs.

Lemma reach_stutters : forallb stutters reach = true.
Proof. vm_compute. reflexivity. Qed.

Lemma is_idle_in (i : input) : is_idle i = true -> In i idle_inputs.
Proof.
  destruct i as [k n u g x d]. unfold is_idle. cbn [i_kill i_net i_usr i_expired].
  destruct k; [discriminate|]. destruct n; try discriminate. destruct u; try discriminate.
  destruct x; [discriminate|]. intros _.
  destruct g, d; cbn; tauto.
Qed.

Lemma idle_step (c : ctrl) (i : input) :
  In c reach -> quiescent c = true -> is_idle i = true -> cstep c i = (c, []).
Proof.
  intros Hc Hq Hi.
  pose proof (proj1 (forallb_forall _ _) reach_stutters c Hc) as H.
  unfold stutters in H. rewrite Hq in H. cbn [negb orb] in H.
  pose proof (proj1 (forallb_forall _ _) H i (is_idle_in i Hi)) as H2.
  apply andb_prop in H2. destruct H2 as [H3 H4]. apply beq_ctrl_eq in H3.
  destruct (cstep c i) as [c' o]. cbn [fst snd] in H3, H4. subst c'.
  destruct o; [reflexivity|discriminate].
Qed.

(* the outputs of a history *)
Fixpoint trace (c : ctrl) (is : list input) : list output :=
  match is with
  | [] => []
  | i :: r => snd (cstep c i) ++ trace (fst (cstep c i)) r
  end.

(* the history without its invisible iterations *)
Fixpoint strip (c : ctrl) (is : list input) : list input :=
  match is with
  | [] => []
  | i :: r => if quiescent c && is_idle i then strip c r else i :: strip (fst (cstep c i)) r
  end.

Lemma strip_same (is : list input) : forall c, In c reach -> forallb legal_input is = true ->
  run c (strip c is) = run c is /\ trace c (strip c is) = trace c is
  /\ forallb legal_input (strip c is) = true.
Proof.
  induction is as [|i r IH]; intros c Hc Hl; [repeat split|].
  cbn [forallb] in Hl. apply andb_prop in Hl. destruct Hl as [Hli Hlr].
  cbn [strip]. destruct (quiescent c && is_idle i) eqn:E.
  - apply andb_prop in E. destruct E as [Hq Hi].
    pose proof (idle_step c i Hc Hq Hi) as Hs.
    destruct (IH c Hc Hlr) as [H1 [H2 H3]].
    unfold run in *. cbn [fold_left trace]. rewrite Hs. cbn [fst snd app]. repeat split; assumption.
  - pose proof (step_in_reach c i Hc Hli) as Hc'.
    destruct (IH (fst (cstep c i)) Hc' Hlr) as [H1 [H2 H3]].
    unfold run in *. cbn [fold_left trace forallb]. rewrite H1, H2, H3, Hli. repeat split.
Qed.

(* two histories that differ only in invisible iterations: same control state, same outputs *)
Theorem same_up_to_idle (r : bool) (is1 is2 : list input) :
  forallb legal_input is1 = true -> forallb legal_input is2 = true ->
  strip (init r) is1 = strip (init r) is2 ->
  run (init r) is1 = run (init r) is2 /\ trace (init r) is1 = trace (init r) is2.
Proof.
  intros H1 H2 E.
  destruct (strip_same is1 (init r) (reach_init r) H1) as [A1 [B1 _]].
  destruct (strip_same is2 (init r) (reach_init r) H2) as [A2 [B2 _]].
  rewrite <- A1, <- A2, <- B1, <- B2, E. split; reflexivity.
Qed.

(* the premise is met: an established association, a PDU, and the same with idle iterations in between *)
Definition idle : input := mkin false NNone UNone GEnd false DIncomplete.
Definition pdu_in (k : kind) : input := mkin false (NPdu k) UNone GEnd false DIncomplete.
Definition usr_in (k : kind) : input := mkin false NNone (UPdu k) GEnd false DIncomplete.

Example stutter_example :
  let h1 := [idle; pdu_in KRq; usr_in KAc; pdu_in KRelRq; usr_in KRelRp] in
  let h2 := [idle; idle; pdu_in KRq; idle; idle; idle; usr_in KAc; idle; pdu_in KRelRq; idle; idle; usr_in KRelRp; idle] in
  strip (init false) h1 = strip (init false) h2 /\ trace (init false) h1 = trace (init false) h2
  /\ trace (init false) h1 <> [].
Proof. vm_compute. repeat split. discriminate. Qed.
