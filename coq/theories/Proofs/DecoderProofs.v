(* Proofs/DecoderProofs.v — reassembly is independent of how PDVs are grouped into P-DATA-TF PDUs. *)
From PND Require Import Lib.Base Lib.Text Model.Pdu Model.CmdSet Model.Decoder Corr.CorrDecoder.

Lemma loop_app env (a : list pdv) : forall d b,
  loop_pdvs env d (a ++ b) =
  match loop_pdvs env d a with
  | Err e => Err e
  | Ok (d', true) => Ok (d', true)
  | Ok (d', false) => loop_pdvs env d' b
  end.
Proof.
  induction a as [|v a IH]; intros d b; [reflexivity|].
  cbn [app loop_pdvs]. destruct (step_pdv env d v) as [[d' brk]|e]; cbn [bind]; [|reflexivity].
  destruct brk; [reflexivity|apply IH].
Qed.

(* no AttributeError after the loop: a completed data set always has its command set *)
Definition post_ok (d : dstate) : bool := negb (d_data_recv d && negb (d_cmd_recv d)).

(* the PDV sequence vs, processed from state d, completes exactly at its last PDV *)
Definition completes_at_end (env : denv) (d : dstate) (vs : list pdv) (dfin : dstate) : Prop :=
  loop_pdvs env d vs = Ok (dfin, true) /\ post_ok dfin = true
  /\ forall a b, vs = a ++ b -> b <> [] ->
       exists d', loop_pdvs env d a = Ok (d', false) /\ post_ok d' = true.

Definition msg_of (d : dstate) (cf : N) : dmsg :=
  match d_file d with
  | Some f => DMsg cf (d_cmd d) (if d_data_recv d then f else []) (d_data_recv d) (d_pc d)
  | None => DMsg cf (d_cmd d) (if d_data_recv d then d_data d else []) false (d_pc d)
  end.

Lemma process_more env d vs d' : loop_pdvs env d vs = Ok (d', false) -> post_ok d' = true ->
  process env d vs = DMore d'.
Proof.
  intros H Hp. unfold process. rewrite H. unfold post_ok in Hp. apply negb_true_iff in Hp. rewrite Hp. reflexivity.
Qed.

Lemma process_done env d vs d' cf : loop_pdvs env d vs = Ok (d', true) -> post_ok d' = true ->
  d_cf d' = Some cf -> process env d vs = DDone (msg_of d' cf).
Proof.
  intros H Hp Hc. unfold process. rewrite H. unfold post_ok in Hp. apply negb_true_iff in Hp. rewrite Hp, Hc.
  unfold msg_of. destruct (d_file d'); reflexivity.
Qed.

Fixpoint expected_flags {A} (groups : list A) : list bool :=
  match groups with
  | [] => []
  | [_] => [false]
  | _ :: r => true :: expected_flags r
  end.

Lemma concat_nonempty {A} (gs : list (list A)) :
  gs <> [] -> Forall (fun g => g <> []) gs -> concat gs <> [].
Proof.
  intros Hne Hall. destruct gs as [|g r]; [contradiction|].
  inversion Hall as [|? ? Hg Hr]; subst. cbn [concat]. destruct g; [contradiction|discriminate].
Qed.

(* Whatever the grouping of the PDVs into PDUs (every group non-empty), the decoder reports
   "still receiving" after every PDU but the last and delivers the message at the last one. *)
Lemma grouping_independent env cf : forall groups d dfin,
  groups <> [] -> Forall (fun g => g <> []) groups ->
  completes_at_end env d (concat groups) dfin -> d_cf dfin = Some cf ->
  feed env d groups = (expected_flags groups, Some (msg_of dfin cf)).
Proof.
  induction groups as [|g r IH]; intros d dfin Hne Hall [Hfin [Hpost Hpre]] Hcf; [contradiction|].
  inversion Hall as [|? ? Hg Hr]; subst.
  destruct r as [|g2 r'].
  - cbn [concat] in Hfin. rewrite app_nil_r in Hfin.
    cbn [feed]. rewrite (process_done env d g dfin cf Hfin Hpost Hcf). reflexivity.
  - assert (Hrest : concat (g2 :: r') <> []) by (apply concat_nonempty; [discriminate|exact Hr]).
    destruct (Hpre g (concat (g2 :: r')) eq_refl Hrest) as [d' [Hd' Hp']].
    change (feed env d (g :: g2 :: r')) with
      (match process env d g with
       | DMore d0 => let (fl, m) := feed env d0 (g2 :: r') in (true :: fl, m)
       | DDone m => (false :: map (fun _ => false) (g2 :: r'), Some m)
       | DFail _ => ([], None)
       end).
    rewrite (process_more env d g d' Hd' Hp').
    assert (Hc : completes_at_end env d' (concat (g2 :: r')) dfin).
    { split; [|split].
      - change (concat (g :: g2 :: r')) with (g ++ concat (g2 :: r')) in Hfin.
        rewrite loop_app, Hd' in Hfin. exact Hfin.
      - exact Hpost.
      - intros a b Hab Hb.
        destruct (Hpre (g ++ a) b) as [d'' [Hd'' Hp'']].
        { change (concat (g :: g2 :: r')) with (g ++ concat (g2 :: r')). rewrite Hab, app_assoc. reflexivity. }
        { exact Hb. }
        exists d''. split; [|exact Hp'']. rewrite loop_app, Hd' in Hd''. exact Hd''. }
    assert (Hne2 : g2 :: r' <> []) by discriminate.
    rewrite (IH d' dfin Hne2 Hr Hc Hcf). reflexivity.
Qed.
