(* the strict length-driven reference parser reads every layout of a well-formed PDU back to exactly
   the encoded value *)
From PND Require Import Lib.Base Lib.Text Model.Pdu Model.PduWf Spec.Ps38Layout
  Proofs.BaseProofs Proofs.TextProofs Proofs.PduProofs Proofs.LayoutProofs.

Lemma cut_app (v rest : bytes) : cut (lenN v) (v ++ rest) = Some (v, rest).
Proof.
  unfold cut. rewrite lenN_app.
  destruct (N.ltb_spec (lenN v + lenN rest) (lenN v)); [lia|].
  rewrite take_app_exact, drop_app_exact. reflexivity.
Qed.

Lemma cut_exact (v : bytes) : cut (lenN v) v = Some (v, []).
Proof. rewrite <- (app_nil_r v) at 2. apply cut_app. Qed.

Lemma p_tlv_ok t r (v rest : bytes) : p_tlv (tlv t r v ++ rest) = Some (t, r, v, rest).
Proof.
  unfold tlv, be16. cbn [app p_tlv]. rewrite un16_hdr. rewrite cut_app. reflexivity.
Qed.

Lemma p_text_ok v : utf8_valid v = true -> p_text v = Some v.
Proof. intros H. unfold p_text. rewrite H. reflexivity. Qed.

Ltac wf_parts H := unfold wf_sub, wf_uid, wf_ascii, wf_utf8 in H; split_andb.

Lemma p_sub_value_ok (x : subitem) : wf_sub x = true -> fixed_len_ok x = true ->
  exists v, layout_sub x = tlv (sub_type x) (match x with
     | MaxLen r _ _ | ImplClass r _ | AsyncOps r _ _ _ | RoleSel r _ _ _ | ImplVersion r _
     | ExtNeg r _ _ | UserId r _ _ _ _ | UserIdAc r _ | Generic _ r _ => r end) v
    /\ p_sub_value (sub_type x) (match x with
     | MaxLen r _ _ | ImplClass r _ | AsyncOps r _ _ _ | RoleSel r _ _ _ | ImplVersion r _
     | ExtNeg r _ _ | UserId r _ _ _ _ | UserIdAc r _ | Generic _ r _ => r end) v = Some x.
Proof.
  intros Hwf Hfix.
  destruct x as [r l m | r u | r l a b | r u a b | r n | r u ai | r ty rq p s | r s | t r d];
    cbn [layout_sub sub_type fixed_len_ok] in *; eexists; (split; [reflexivity|]); unfold p_sub_value; eval_tests.
  - apply N.eqb_eq in Hfix. subst l. unfold be32. rewrite un32_be. reflexivity.
  - wf_parts Hwf. rewrite p_text_ok by (apply ascii_utf8; assumption). reflexivity.
  - apply N.eqb_eq in Hfix. subst l. unfold be16. cbn [app]. rewrite !un16_hdr. reflexivity.
  - wf_parts Hwf. unfold be16. cbn [app]. rewrite un16_hdr, cut_app.
    rewrite p_text_ok by (apply ascii_utf8; assumption). reflexivity.
  - wf_parts Hwf. rewrite p_text_ok by (apply ascii_utf8; assumption). reflexivity.
  - wf_parts Hwf. unfold be16. cbn [app]. rewrite un16_hdr, cut_app.
    rewrite p_text_ok by (apply ascii_utf8; assumption). reflexivity.
  - wf_parts Hwf. unfold be16. cbn [app]. rewrite un16_hdr, cut_app. cbn [app]. rewrite un16_hdr, cut_exact.
    rewrite !p_text_ok by assumption. reflexivity.
  - wf_parts Hwf. unfold be16. cbn [app]. rewrite un16_hdr, cut_exact.
    rewrite p_text_ok by assumption. reflexivity.
  - unfold wf_sub in Hwf. split_andb.
    match goal with H : negb (known_sub_type t) = true |- _ => apply negb_true_iff in H; unfold known_sub_type in H;
      repeat (apply orb_false_elim in H; destruct H as [H ?Hk]) end.
    repeat match goal with H : (t =? _) = false |- _ => rewrite H; clear H end. reflexivity.
Qed.

Definition sub_reserved (x : subitem) : N :=
  match x with
  | MaxLen r _ _ | ImplClass r _ | AsyncOps r _ _ _ | RoleSel r _ _ _ | ImplVersion r _
  | ExtNeg r _ _ | UserId r _ _ _ _ | UserIdAc r _ | Generic _ r _ => r
  end.

Lemma p_subs_step f (s : bytes) : s <> [] ->
  p_subs (S f) s = match p_tlv s with
                   | Some (t, r, v, rest) =>
                       match p_sub_value t r v, p_subs f rest with
                       | Some x, Some xs => Some (x :: xs)
                       | _, _ => None
                       end
                   | None => None
                   end.
Proof. destruct s; [contradiction|reflexivity]. Qed.

Lemma p_tss_step f (s : bytes) : s <> [] ->
  p_tss (S f) s = match p_syntax 64 s with
                  | Some (x, rest) => option_map (cons x) (p_tss f rest)
                  | None => None
                  end.
Proof. destruct s; [contradiction|reflexivity]. Qed.

Lemma p_items_step f (s : bytes) : s <> [] ->
  p_items (S f) s = match p_tlv s with
                    | Some (t, r, v, rest) =>
                        match p_item_value t r v, p_items f rest with
                        | Some x, Some xs => Some (x :: xs)
                        | _, _ => None
                        end
                    | None => None
                    end.
Proof. destruct s; [contradiction|reflexivity]. Qed.

Lemma tlv_app_nonempty t r v rest : tlv t r v ++ rest <> [].
Proof. unfold tlv. cbn [app]. discriminate. Qed.

Lemma p_subs_ok (subs : list subitem) : forall fuel,
  forallb wf_sub subs = true -> forallb fixed_len_ok subs = true -> (length subs < fuel)%nat ->
  p_subs fuel (concat (map layout_sub subs)) = Some subs.
Proof.
  induction subs as [|x r IH]; intros fuel Hwf Hfix Hf.
  - destruct fuel; [lia|]. reflexivity.
  - destruct fuel as [|f]; [cbn [length] in Hf; lia|].
    cbn [forallb] in Hwf, Hfix. apply andb_prop in Hwf. apply andb_prop in Hfix.
    destruct Hwf as [Hx Hr]. destruct Hfix as [Fx Fr].
    destruct (p_sub_value_ok x Hx Fx) as [v [Hl Hp]].
    cbn [map concat]. rewrite Hl.
    change (match x with
            | MaxLen r _ _ | ImplClass r _ | AsyncOps r _ _ _ | RoleSel r _ _ _ | ImplVersion r _
            | ExtNeg r _ _ | UserId r _ _ _ _ | UserIdAc r _ | Generic _ r _ => r end) with (sub_reserved x) in *.
    rewrite p_subs_step by apply tlv_app_nonempty. rewrite p_tlv_ok, Hp. rewrite IH; [reflexivity|exact Hr|exact Fr|cbn [length] in Hf; lia].
Qed.

Lemma p_syntax_ok t (x : syntax_item) rest : wf_syntax x = true ->
  p_syntax t (layout_syntax t x ++ rest) = Some (x, rest).
Proof.
  unfold wf_syntax, wf_uid. intros H. split_andb. unfold p_syntax, layout_syntax.
  rewrite p_tlv_ok, N.eqb_refl. rewrite p_text_ok by (apply ascii_utf8; assumption).
  destruct x; reflexivity.
Qed.

Lemma p_tss_ok (ts : list syntax_item) : forall fuel, forallb wf_syntax ts = true -> (length ts < fuel)%nat ->
  p_tss fuel (concat (map (layout_syntax 64) ts)) = Some ts.
Proof.
  induction ts as [|x r IH]; intros fuel Hwf Hf.
  - destruct fuel; [lia|]. reflexivity.
  - destruct fuel as [|f]; [cbn [length] in Hf; lia|].
    cbn [forallb] in Hwf. apply andb_prop in Hwf. destruct Hwf as [Hx Hr].
    cbn [map concat]. rewrite p_tss_step by (unfold layout_syntax; apply tlv_app_nonempty).
    rewrite p_syntax_ok by exact Hx. rewrite IH; [reflexivity|exact Hr|cbn [length] in Hf; lia].
Qed.

Definition item_reserved (x : item) : N :=
  match x with AppCtx r _ => r | PcRq _ r1 _ _ _ _ _ => r1 | PcAc _ r1 _ _ _ _ => r1 | UserInfo r _ => r end.

Lemma p_item_value_ok (x : item) : wf_item x = true -> fixed_lens_item x = true ->
  exists v, layout_item x = tlv (item_type x) (item_reserved x) v
            /\ p_item_value (item_type x) (item_reserved x) v = Some x.
Proof.
  intros Hwf Hfix. unfold wf_item in Hwf. apply andb_prop in Hwf. destruct Hwf as [Hp Hw].
  destruct x as [r n | id r1 r2 r3 r4 a ts | id r1 r2 res r3 t | r subs];
    cbn [layout_item item_type item_reserved] in *; eexists; (split; [reflexivity|]); unfold p_item_value; eval_tests.
  - unfold wf_ascii in Hw. rewrite p_text_ok by (apply ascii_utf8; exact Hw). reflexivity.
  - apply andb_prop in Hw. destruct Hw as [Ha Hts]. cbn [app].
    rewrite p_syntax_ok by exact Ha. rewrite p_tss_ok; [reflexivity|exact Hts|].
    pose proof (length_concat_ge (layout_syntax 64) ts) as Hl.
    assert (Hx : forall x, (1 <= length (layout_syntax 64 x))%nat)
      by (intros x; unfold layout_syntax, tlv; cbn [app length]; lia).
    specialize (Hl Hx). lia.
  - cbn [app]. rewrite <- (app_nil_r (layout_syntax 64 t)). rewrite p_syntax_ok by exact Hw. reflexivity.
  - cbn [fixed_lens_item] in Hfix. rewrite p_subs_ok; [reflexivity|exact Hw|exact Hfix|].
    pose proof (length_concat_ge layout_sub subs) as Hl.
    assert (Hx : forall x, (1 <= length (layout_sub x))%nat).
    { intros x. destruct x; cbn [layout_sub]; unfold tlv; cbn [app length]; lia. }
    specialize (Hl Hx). lia.
Qed.

Lemma p_items_ok (l : list item) : forall fuel,
  forallb wf_item l = true -> forallb fixed_lens_item l = true -> (length l < fuel)%nat ->
  p_items fuel (concat (map layout_item l)) = Some l.
Proof.
  induction l as [|x r IH]; intros fuel Hwf Hfix Hf.
  - destruct fuel; [lia|]. reflexivity.
  - destruct fuel as [|f]; [cbn [length] in Hf; lia|].
    cbn [forallb] in Hwf, Hfix. apply andb_prop in Hwf. apply andb_prop in Hfix.
    destruct Hwf as [Hx Hr]. destruct Hfix as [Fx Fr].
    destruct (p_item_value_ok x Hx Fx) as [v [Hl Hp]].
    cbn [map concat]. rewrite Hl. rewrite p_items_step by apply tlv_app_nonempty. rewrite p_tlv_ok, Hp. rewrite IH; [reflexivity|exact Hr|exact Fr|cbn [length] in Hf; lia].
Qed.

(* ---- P-DATA-TF ------------------------------------------------------------------------------- *)
Lemma p_pdvs_ok (vs : list pdv) : forall fuel, (length vs < fuel)%nat ->
  p_pdvs fuel (concat (map layout_pdv vs)) = Some vs.
Proof.
  induction vs as [|v r IH]; intros fuel Hf.
  - destruct fuel; [lia|]. reflexivity.
  - destruct fuel as [|f]; [cbn [length] in Hf; lia|].
    cbn [map concat]. unfold layout_pdv at 1. cbv zeta. unfold be32. cbn [app p_pdvs].
    rewrite un32_be.
    change (pdv_ctx v :: pdv_data v ++ concat (map layout_pdv r))
      with ((pdv_ctx v :: pdv_data v) ++ concat (map layout_pdv r)).
    rewrite cut_app. rewrite IH by (cbn [length] in Hf; lia). destruct v; reflexivity.
Qed.

(* ---- AE title fields --------------------------------------------------------------------------- *)
Lemma length_lstrip p l : (length (lstrip p l) <= length l)%nat.
Proof. induction l as [|x r IH]; [cbn; lia|]. cbn [lstrip]. destruct (p x); cbn [length]; lia. Qed.

Lemma lstrip_id_iff p l : length (lstrip p l) = length l -> lstrip p l = l.
Proof.
  destruct l as [|x r]; [reflexivity|]. cbn [lstrip]. destruct (p x); [|reflexivity].
  intros H. pose proof (length_lstrip p r). cbn [length] in H. lia.
Qed.

Lemma length_rstrip p l : (length (rstrip p l) <= length l)%nat.
Proof. unfold rstrip. rewrite rev_length. pose proof (length_lstrip p (rev l)). rewrite rev_length in H. exact H. Qed.

Lemma strip_id_rstrip p l : strip p l = l -> rstrip p l = l.
Proof.
  unfold strip. intros H.
  assert (Hl : length (rstrip p l) = length l).
  { pose proof (length_lstrip p (rstrip p l)). pose proof (length_rstrip p l). rewrite H in H0. lia. }
  unfold rstrip in *. rewrite rev_length in Hl.
  assert (E : lstrip p (rev l) = rev l) by (apply lstrip_id_iff; rewrite Hl, rev_length; reflexivity).
  rewrite E. apply rev_involutive.
Qed.

Lemma p_ae_ok (t : bytes) : wf_ae t = true -> p_ae (ae16 t) = t.
Proof.
  unfold wf_ae. intros H. split_andb. unfold p_ae, ae16.
  rewrite rstrip_repeat by reflexivity.
  apply strip_id_rstrip. apply beq_bytes_eq. assumption.
Qed.

Lemma lenN_ae16 (t : bytes) : lenN t <= 16 -> lenN (ae16 t) = 16.
Proof. intros H. unfold ae16. rewrite lenN_app. unfold lenN in *. rewrite repeat_length. lia. Qed.

Lemma cut_len (n : N) (a b : bytes) : lenN a = n -> cut n (a ++ b) = Some (a, b).
Proof. intros <-. apply cut_app. Qed.

(* ---- the whole PDU ------------------------------------------------------------------------------- *)
Lemma parse_layout (p : pdu) : wf_pdu p = true -> fixed_lens p = true -> parse (layout p) = Some p.
Proof.
  intros Hwf Hfix.
  destruct p as [k r1 ver r2 c1 c2 r3 items | r1 r2 a b c | r vs | r1 r2 | r1 r2 | r1 r2 r3 a b];
    cbn [layout]; unfold frame, be32 at 1; cbn [app parse]; rewrite un32_be, N.eqb_refl; cbn [negb].
  - unfold wf_pdu in Hwf. apply andb_prop in Hwf. destruct Hwf as [Hp Hw]. cbn [packable] in Hp. split_andb.
    match goal with H : (lenN r3 =? 8) = true |- _ => apply N.eqb_eq in H; rename H into Hr3 end.
    assert (Hc1 : lenN c1 <= 16) by (unfold wf_ae in *; split_andb; apply N.leb_le; assumption).
    assert (Hc2 : lenN c2 <= 16) by (unfold wf_ae in *; split_andb; apply N.leb_le; assumption).
    cbn [fixed_lens] in Hfix.
    assert (Ht : ((kind_code k =? 1) || (kind_code k =? 2)) = true) by (destruct k; reflexivity).
    rewrite Ht. unfold be16. cbn [app].
    rewrite (cut_len 16 (ae16 c1)) by (apply lenN_ae16; exact Hc1).
    rewrite (cut_len 16 (ae16 c2)) by (apply lenN_ae16; exact Hc2).
    rewrite (cut_len 32 (concat (map be32 r3))) by (rewrite lenN_be32s, Hr3; reflexivity).
    rewrite p_items_ok; [|assumption|assumption|].
    2:{ pose proof (length_concat_ge layout_item items) as Hl.
        assert (Hx : forall x, (1 <= length (layout_item x))%nat).
        { intros x. destruct x; cbn [layout_item]; unfold tlv; cbn [app length]; lia. }
        specialize (Hl Hx). lia. }
    cbn [option_map]. rewrite !un16_hdr, !p_ae_ok, un32s_be32s by assumption.
    destruct k; reflexivity.
  - reflexivity.
  - eval_tests. cbn [orb]. rewrite p_pdvs_ok; [reflexivity|].
    pose proof (length_concat_ge layout_pdv vs) as Hl.
    assert (Hx : forall x, (1 <= length (layout_pdv x))%nat)
      by (intros x; unfold layout_pdv, be32; cbn [app length]; lia).
    specialize (Hl Hx). lia.
  - unfold be32. cbn [app]. eval_tests. cbn [orb]. rewrite un32_be. reflexivity.
  - unfold be32. cbn [app]. eval_tests. cbn [orb]. rewrite un32_be. reflexivity.
  - reflexivity.
Qed.

(* the strict parser applied to what the model encoder emits *)
Lemma parse_encode (p : pdu) : wf_pdu p = true -> fixed_lens p = true -> parse (encode p) = Some p.
Proof. intros Hwf Hfix. rewrite (encode_layout p Hwf Hfix). apply parse_layout; assumption. Qed.
