(* Proofs/ProviderTheorems.v — the reflective facts of FsmProofs / FsmSpecProofs lifted to every
   history (control model) and every script (concrete model). *)
From PND Require Import Lib.Base Lib.Text Model.Pdu Model.Decoder Spec.Ps38Table Model.Fsm Model.Provider
  Proofs.FsmProofs Proofs.FsmSpecProofs Proofs.ProviderProofs.

Lemma in_reach_inv c : In c reach -> inv_state c = true.
Proof. intros H. pose proof reach_inv_state as R. rewrite forallb_forall in R. apply R. exact H. Qed.

Lemma in_reach_step c i : In c reach -> legal_input i = true -> inv_step c i = true.
Proof.
  intros H Hi. pose proof reach_inv_step as R. rewrite forallb_forall in R. specialize (R c H).
  unfold forall_inputs in R. rewrite forallb_forall in R. apply R. apply legal_in_all. exact Hi.
Qed.

Lemma in_reach_spec c : In c reach -> running c = true -> spec_ok c = true.
Proof.
  intros H Hr. pose proof reach_spec_ok as R. rewrite forallb_forall in R. specialize (R c H).
  rewrite Hr in R. exact R.
Qed.

Lemma in_reach_consistent c i : In c reach -> running c = true -> legal_input i = true ->
  poll_consistent c i = true.
Proof.
  intros H Hr Hi. pose proof reach_poll_consistent as R. rewrite forallb_forall in R. specialize (R c H).
  rewrite Hr in R. cbn [negb orb] in R. unfold forall_inputs in R. rewrite forallb_forall in R.
  apply R. apply legal_in_all. exact Hi.
Qed.

Lemma in_reach_eof c : In c reach -> after_eof c = true.
Proof. intros H. pose proof reach_eof as R. rewrite forallb_forall in R. apply R. exact H. Qed.

Lemma in_reach_artim c : In c reach -> after_artim c = true.
Proof. intros H. pose proof reach_artim as R. rewrite forallb_forall in R. apply R. exact H. Qed.

(* ---- control model, every history -------------------------------------------------------------- *)
Lemma history_inv r is : forallb legal_input is = true -> inv_state (run (init r) is) = true.
Proof. intros H. apply in_reach_inv, reachable_in_reach, H. Qed.

Lemma history_step r is i : forallb legal_input is = true -> legal_input i = true ->
  inv_step (run (init r) is) i = true.
Proof. intros H Hi. apply in_reach_step; [apply reachable_in_reach, H|exact Hi]. Qed.

Lemma history_spec r is : forallb legal_input is = true -> running (run (init r) is) = true ->
  spec_ok (run (init r) is) = true.
Proof. intros H Hr. apply in_reach_spec; [apply reachable_in_reach, H|exact Hr]. Qed.

Lemma history_consistent r is i : forallb legal_input is = true -> running (run (init r) is) = true ->
  legal_input i = true -> poll_consistent (run (init r) is) i = true.
Proof. intros H Hr Hi. apply in_reach_consistent; [apply reachable_in_reach, H|exact Hr|exact Hi]. Qed.

Lemma history_eof r is : forallb legal_input is = true -> after_eof (run (init r) is) = true.
Proof. intros H. apply in_reach_eof, reachable_in_reach, H. Qed.

Lemma history_artim r is : forallb legal_input is = true -> after_artim (run (init r) is) = true.
Proof. intros H. apply in_reach_artim, reachable_in_reach, H. Qed.

(* ---- concrete model, every script ------------------------------------------------------------ *)
Lemma script_inv env requestor maxlen ops : forallb legal_op ops = true ->
  inv_state (ctl (run_script env requestor maxlen ops)) = true.
Proof. intros H. apply in_reach_inv, concrete_in_reach, H. Qed.

Lemma script_eof env requestor maxlen ops : forallb legal_op ops = true ->
  after_eof (ctl (run_script env requestor maxlen ops)) = true.
Proof. intros H. apply in_reach_eof, concrete_in_reach, H. Qed.

Lemma script_artim env requestor maxlen ops : forallb legal_op ops = true ->
  after_artim (ctl (run_script env requestor maxlen ops)) = true.
Proof. intros H. apply in_reach_artim, concrete_in_reach, H. Qed.

Lemma script_spec env requestor maxlen ops : forallb legal_op ops = true ->
  spec_ok (ctl (run_script env requestor maxlen ops)) = true.
Proof.
  intros H. pose proof (concrete_in_reach env requestor maxlen ops H) as Hin.
  apply in_reach_spec; [exact Hin|].
  pose proof (in_reach_inv _ Hin) as Hi. unfold inv_state in Hi.
  repeat (apply andb_prop in Hi; destruct Hi as [Hi ?]).
  (* a script without Kill never returns and never crashes *)
  unfold running. clear - Hin H Hi.
  (* outcome is Running: Returned needs a kill input, which legal scripts do not contain *)
  assert (Hrun : forall c, In c reach -> beq_outcome (c_out c) Running = true).
  { pose proof (eq_refl : forallb (fun c => beq_outcome (c_out c) Running) reach = true) as R.
    intros c Hc. rewrite forallb_forall in R. apply R. exact Hc. }
  apply Hrun. exact Hin.
Qed.

(* ---- C12 / C13 facts lifted to every history ----------------------------------------------------- *)
From PND Require Import Proofs.FsmProofs2 Model.PduWf.

Lemma lift_inputs (P : ctrl -> input -> bool) :
  forallb (fun c => forall_inputs (P c)) reach = true ->
  forall r is i, forallb legal_input is = true -> legal_input i = true -> P (run (init r) is) i = true.
Proof.
  intros R r is i H Hi. rewrite forallb_forall in R. specialize (R _ (reachable_in_reach r is H)).
  unfold forall_inputs in R. rewrite forallb_forall in R. apply R. apply legal_in_all. exact Hi.
Qed.

Lemma history_bad_pdu : forall r is i, forallb legal_input is = true -> legal_input i = true ->
  bad_pdu_aborted (run (init r) is) i = true.
Proof. exact (lift_inputs bad_pdu_aborted reach_bad_pdu). Qed.

Lemma history_bad_data : forall r is i, forallb legal_input is = true -> legal_input i = true ->
  bad_data_aborted (run (init r) is) i = true.
Proof. exact (lift_inputs bad_data_aborted reach_bad_data). Qed.

Lemma history_told : forall r is i, forallb legal_input is = true -> legal_input i = true ->
  told_when_gone (run (init r) is) i = true.
Proof. exact (lift_inputs told_when_gone reach_told). Qed.

(* every PDU the provider builds by itself is well-formed and encodable *)
Lemma fresh_wf (k : kind) : wf_pdu (fresh_pdu k) = true.
Proof. destruct k as [| | | | | | |s]; try reflexivity. destruct s; reflexivity. Qed.

(* decoding is total: whatever the bytes, the outcome is a PDU value or one of the error kinds, and the
   network poll classifies it as a PDU of a known kind or as invalid (Evt19) — never anything else *)
Lemma classify_total (f : bytes) :
  (exists k p, classify f = (NPdu k, Some p) /\ legal_kind k = true) \/ classify f = (NBad, None).
Proof.
  unfold classify. destruct f as [|t r]; [right; reflexivity|].
  destruct (decode_as t (t :: r)) as [p|e]; [left|right; reflexivity].
  exists (kind_of p), p. split; [reflexivity|apply kind_of_legal].
Qed.
