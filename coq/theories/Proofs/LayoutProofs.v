From PND Require Import Lib.Base Lib.Text Model.Pdu Model.PduWf Spec.Ps38Layout
  Proofs.BaseProofs Proofs.TextProofs Proofs.PduProofs.

Lemma lenN_concat_map {A} (f : A -> bytes) (g : A -> N) (l : list A) :
  (forall x, lenN (f x) = g x) -> lenN (concat (map f l)) = sum_map g l.
Proof.
  intros H. induction l as [|x l IH]; [reflexivity|].
  cbn [map concat]. rewrite lenN_app, H, IH. reflexivity.
Qed.

Lemma lenN_4 {A} (a b c d : A) (l : list A) : lenN (a :: b :: c :: d :: l) = 4 + lenN l.
Proof. unfold lenN. cbn [length]. lia. Qed.
Lemma lenN_2 {A} (a b : A) (l : list A) : lenN (a :: b :: l) = 2 + lenN l.
Proof. unfold lenN. cbn [length]. lia. Qed.
Lemma lenN_be16 n : lenN (be16 n) = 2. Proof. reflexivity. Qed.
Lemma lenN_be32 n : lenN (be32 n) = 4. Proof. reflexivity. Qed.

(* ---- sub-items ---------------------------------------------------------- *)
Lemma lenN_1 {A} (a : A) (l : list A) : lenN (a :: l) = 1 + lenN l.
Proof. unfold lenN. cbn [length]. lia. Qed.

Ltac lens := repeat rewrite ?lenN_app, ?lenN_be16, ?lenN_be32, ?lenN_4, ?lenN_2, ?lenN_1, ?lenN_nil.

Lemma encode_sub_layout (x : subitem) : fixed_len_ok x = true -> encode_sub x = layout_sub x.
Proof.
  intros H. destruct x as [r l m | r u | r l a b | r u a b | r n | r u ai | r ty rq p s | r s | t r d];
    cbn [encode_sub layout_sub fixed_len_ok] in *; unfold tlv, hdr4.
  - apply N.eqb_eq in H. subst l. reflexivity.
  - reflexivity.
  - apply N.eqb_eq in H. subst l. reflexivity.
  - replace (lenN (be16 (lenN u) ++ u ++ [a; b])) with (4 + lenN u) by (lens; lia). reflexivity.
  - reflexivity.
  - replace (lenN (be16 (lenN u) ++ u ++ ai)) with (2 + lenN u + lenN ai) by (lens; lia). reflexivity.
  - replace (lenN ([ty; rq] ++ be16 (lenN p) ++ p ++ be16 (lenN s) ++ s)) with (6 + lenN p + lenN s)
      by (lens; lia). reflexivity.
  - replace (lenN (be16 (lenN s) ++ s)) with (2 + lenN s) by (lens; lia). reflexivity.
  - reflexivity.
Qed.

Lemma lenN_layout_sub (x : subitem) : fixed_len_ok x = true -> lenN (layout_sub x) = sub_total_length x.
Proof.
  intros H. destruct x as [r l m | r u | r l a b | r u a b | r n | r u ai | r ty rq p s | r s | t r d];
    cbn [layout_sub sub_total_length sub_item_length fixed_len_ok] in *; unfold tlv;
    try (apply N.eqb_eq in H; subst l); lens; lia.
Qed.

Lemma lenN_encode_sub (x : subitem) : fixed_len_ok x = true -> lenN (encode_sub x) = sub_total_length x.
Proof. intros H. rewrite encode_sub_layout by exact H. apply lenN_layout_sub. exact H. Qed.

Lemma encode_syntax_layout t x : encode_syntax t x = layout_syntax t x.
Proof. reflexivity. Qed.

Lemma lenN_encode_syntax t x : lenN (encode_syntax t x) = syntax_total_length x.
Proof. unfold encode_syntax, hdr4, syntax_total_length. cbn [app]. rewrite lenN_4. reflexivity. Qed.

Lemma sum_map_ext_in {A} (f g : A -> N) (l : list A) :
  (forall x, In x l -> f x = g x) -> sum_map f l = sum_map g l.
Proof.
  induction l as [|x l IH]; intros H; [reflexivity|].
  cbn [sum_map fold_right]. fold (sum_map f l). fold (sum_map g l).
  rewrite H by (left; reflexivity). rewrite IH; [reflexivity|]. intros y Hy. apply H. right. exact Hy.
Qed.

Lemma concat_map_ext_in {A} (f g : A -> bytes) (l : list A) :
  (forall x, In x l -> f x = g x) -> concat (map f l) = concat (map g l).
Proof.
  induction l as [|x l IH]; intros H; [reflexivity|].
  cbn [map concat]. rewrite H by (left; reflexivity). rewrite IH; [reflexivity|].
  intros y Hy. apply H. right. exact Hy.
Qed.

Lemma lenN_subs (subs : list subitem) : forallb fixed_len_ok subs = true ->
  lenN (concat (map encode_sub subs)) = sum_map sub_total_length subs.
Proof.
  intros H. induction subs as [|x l IH]; [reflexivity|].
  cbn [forallb] in H. apply andb_prop in H. destruct H as [Hx Hl].
  cbn [map concat]. rewrite lenN_app, lenN_encode_sub by exact Hx.
  rewrite IH by exact Hl. reflexivity.
Qed.

(* ---- items -------------------------------------------------------------- *)
Lemma encode_item_layout (x : item) : fixed_lens_item x = true -> encode_item x = layout_item x.
Proof.
  intros H. destruct x as [r n | id r1 r2 r3 r4 a ts | id r1 r2 res r3 t | r subs];
    cbn [encode_item layout_item item_length fixed_lens_item] in *; unfold tlv, hdr4, be16 at 1.
  - reflexivity.
  - assert (E : lenN ([id; r2; r3; r4] ++ layout_syntax 48 a ++ concat (map (layout_syntax 64) ts))
                = 4 + (syntax_total_length a + sum_map syntax_total_length ts)).
    { rewrite !lenN_app. rewrite (lenN_concat_map (layout_syntax 64) syntax_total_length)
        by (intros; apply lenN_encode_syntax).
      rewrite <- encode_syntax_layout, lenN_encode_syntax. reflexivity. }
    rewrite E. reflexivity.
  - assert (E : lenN ([id; r2; res; r3] ++ layout_syntax 64 t) = 4 + syntax_total_length t).
    { rewrite lenN_app, <- encode_syntax_layout, lenN_encode_syntax. reflexivity. }
    rewrite E. reflexivity.
  - assert (Hc : concat (map encode_sub subs) = concat (map layout_sub subs)).
    { apply concat_map_ext_in. intros x Hx. apply encode_sub_layout.
      rewrite forallb_forall in H. apply H. exact Hx. }
    rewrite <- Hc. rewrite lenN_subs by exact H. reflexivity.
Qed.

Lemma lenN_encode_item (x : item) : fixed_lens_item x = true -> lenN (encode_item x) = item_total_length x.
Proof.
  intros H. destruct x as [r n | id r1 r2 r3 r4 a ts | id r1 r2 res r3 t | r subs];
    unfold item_total_length; cbn [encode_item item_length fixed_lens_item] in *; unfold hdr4; cbn [app];
    rewrite lenN_4.
  - reflexivity.
  - rewrite lenN_4, lenN_app, lenN_encode_syntax.
    rewrite (lenN_concat_map (encode_syntax 64) syntax_total_length) by (intros; apply lenN_encode_syntax).
    reflexivity.
  - rewrite lenN_4, lenN_encode_syntax. reflexivity.
  - rewrite lenN_subs by exact H. reflexivity.
Qed.

Lemma lenN_items (l : list item) : forallb fixed_lens_item l = true ->
  lenN (concat (map encode_item l)) = sum_map item_total_length l.
Proof.
  intros H. induction l as [|x l IH]; [reflexivity|].
  cbn [forallb] in H. apply andb_prop in H. destruct H as [Hx Hl].
  cbn [map concat]. rewrite lenN_app, lenN_encode_item by exact Hx. rewrite IH by exact Hl. reflexivity.
Qed.

(* ---- PDUs ---------------------------------------------------------------- *)
Lemma encode_pdv_layout v : encode_pdv v = layout_pdv v.
Proof.
  unfold encode_pdv, layout_pdv. cbv zeta. rewrite lenN_cons. cbn [app]. reflexivity.
Qed.

Lemma lenN_encode_pdv v : lenN (encode_pdv v) = pdv_total_length v.
Proof. unfold encode_pdv, pdv_total_length. lens. lia. Qed.

Lemma pad16_ae16 (t : bytes) : lenN t <= 16 -> pad16 t = ae16 t.
Proof. intros H. rewrite pad16_eq by exact H. reflexivity. Qed.

Lemma encode_layout (p : pdu) : wf_pdu p = true -> fixed_lens p = true -> encode p = layout p.
Proof.
  intros Hwf Hfix.
  destruct p as [k r1 ver r2 c1 c2 r3 items | r1 r2 a b c | r vs | r1 r2 | r1 r2 | r1 r2 r3 a b];
    cbn [encode layout pdu_length]; unfold frame; try reflexivity.
  - unfold wf_pdu in Hwf. apply andb_prop in Hwf. destruct Hwf as [Hp Hw]. cbn [packable] in Hp. split_andb.
    match goal with H : (lenN r3 =? 8) = true |- _ => apply N.eqb_eq in H; rename H into Hr3 end.
    assert (Hc1 : lenN c1 <= 16) by (unfold wf_ae in *; split_andb; apply N.leb_le; assumption).
    assert (Hc2 : lenN c2 <= 16) by (unfold wf_ae in *; split_andb; apply N.leb_le; assumption).
    cbn [fixed_lens] in Hfix.
    assert (Hi : concat (map encode_item items) = concat (map layout_item items)).
    { apply concat_map_ext_in. intros x Hx. apply encode_item_layout.
      rewrite forallb_forall in Hfix. apply Hfix. exact Hx. }
    rewrite <- Hi, <- !pad16_ae16 by assumption.
    rewrite !lenN_app, !lenN_be16, !lenN_pad16, lenN_be32s, Hr3, lenN_items by assumption.
    replace (2 + (2 + (16 + (16 + (4 * 8 + sum_map item_total_length items)))))
      with (68 + sum_map item_total_length items) by lia.
    reflexivity.
  - assert (Hv : concat (map encode_pdv vs) = concat (map layout_pdv vs)).
    { apply concat_map_ext_in. intros; apply encode_pdv_layout. }
    rewrite <- Hv. rewrite (lenN_concat_map encode_pdv pdv_total_length) by apply lenN_encode_pdv.
    reflexivity.
Qed.

Lemma total_length_bytes (p : pdu) : wf_pdu p = true -> fixed_lens p = true ->
  total_length p = lenN (encode p).
Proof.
  intros Hwf Hfix. unfold total_length.
  destruct p as [k r1 ver r2 c1 c2 r3 items | r1 r2 a b c | r vs | r1 r2 | r1 r2 | r1 r2 r3 a b];
    cbn [encode pdu_length]; try reflexivity.
  - unfold wf_pdu in Hwf. apply andb_prop in Hwf. destruct Hwf as [Hp Hw]. cbn [packable] in Hp. split_andb.
    match goal with H : (lenN r3 =? 8) = true |- _ => apply N.eqb_eq in H; rename H into Hr3 end.
    assert (Hc1 : lenN c1 <= 16) by (unfold wf_ae in *; split_andb; apply N.leb_le; assumption).
    assert (Hc2 : lenN c2 <= 16) by (unfold wf_ae in *; split_andb; apply N.leb_le; assumption).
    cbn [fixed_lens] in Hfix.
    rewrite !lenN_app, lenN_2, lenN_be32, !lenN_be16, !lenN_pad16, lenN_be32s, Hr3, lenN_items by assumption.
    rewrite lenN_nil. lia.
  - rewrite !lenN_app, lenN_2, lenN_be32, lenN_nil.
    rewrite (lenN_concat_map encode_pdv pdv_total_length) by apply lenN_encode_pdv. lia.
Qed.
