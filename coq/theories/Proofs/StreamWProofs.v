(* Proofs/StreamWProofs.v — Proofs/StreamProofs.v again for the transport that can refuse writes and whose
   peer may reset the connection right behind its last bytes (Model/ProviderW.v): whatever the pattern of
   refused writes, no byte the transport delivered is lost, duplicated or reordered, and the frames
   recognised are the PS3.8 frames of the delivered content — in particular the bytes that arrive
   immediately before a reset are still framed (the end of the connection does not overtake the data). *)
From PND Require Import Lib.Base Lib.Text Model.Pdu Model.CmdSet Model.Decoder Spec.Ps38Table Model.Fsm Model.Provider
  Model.Framing Model.Stream Model.ProviderW Proofs.BaseProofs Proofs.FramingProofs Proofs.StreamProofs.
Local Opaque take drop frame_of.

(* what the transport accepted from the peer in one operation *)
Definition deliveredw (s : pstate) (w : wop) : bytes :=
  match w with
  | Plain o => delivered s o
  | SegReset b => if c_sock (ctl s) then b else []
  end.

Fixpoint run_deliveredw (strict : bool) (env : denv) (s : pstate) (ops : list wop) : bytes :=
  match ops with
  | [] => []
  | o :: r => deliveredw s o ++ run_deliveredw strict env (iterw strict env s o) r
  end.

Lemma stream_apply_wop s w : stream (apply_wop s w) = stream s ++ deliveredw s w.
Proof.
  destruct w as [o|b]; cbn [apply_wop deliveredw].
  - apply stream_apply_op.
  - rewrite stream_apply_op. cbn [delivered]. rewrite app_nil_r. rewrite stream_apply_op. reflexivity.
Qed.

Lemma raw_iterw strict env s w :
  raw (iterw strict env s w) = it_raw (iter_parts env (apply_wop s w) (wop_kill w)).
Proof.
  unfold iterw. destruct (cstepw _ _ _) as [c' outs]. destruct (interpret _ _ _ _ _ _) as [[a b] c]. reflexivity.
Qed.
Lemma pending_iterw strict env s w :
  pending (iterw strict env s w) = it_pending (iter_parts env (apply_wop s w) (wop_kill w)).
Proof.
  unfold iterw. destruct (cstepw _ _ _) as [c' outs]. destruct (interpret _ _ _ _ _ _) as [[a b] c]. reflexivity.
Qed.

Lemma iterw_stream strict env s w :
  match iter_framew s w with
  | Some f => frame_of (stream s ++ deliveredw s w) = Some (f, stream (iterw strict env s w))
  | None => stream (iterw strict env s w) = stream s ++ deliveredw s w
  end.
Proof.
  unfold iter_framew. rewrite <- stream_apply_wop.
  pose proof (iter_parts_stream env (apply_wop s w) (wop_kill w)) as H. cbv zeta in H.
  assert (Hs : stream (iterw strict env s w) = it_raw (iter_parts env (apply_wop s w) (wop_kill w)) ++
                                              it_pending (iter_parts env (apply_wop s w) (wop_kill w)))
    by (unfold stream; rewrite raw_iterw, pending_iterw; reflexivity).
  rewrite Hs.
  destruct (polls_net (ctl (apply_wop s w)) (wop_kill w)); [destruct (poll_frame (apply_wop s w))|]; exact H.
Qed.

Theorem stream_conservedw strict env : forall ops s,
  concat (run_framesw strict env s ops) ++ stream (fold_left (iterw strict env) ops s)
  = stream s ++ run_deliveredw strict env s ops.
Proof.
  induction ops as [|o ops IH]; intros s.
  - cbn. rewrite app_nil_r. reflexivity.
  - cbn [run_framesw run_deliveredw fold_left].
    pose proof (iterw_stream strict env s o) as H.
    destruct (iter_framew s o) as [f|].
    + apply frame_of_some in H. destruct H as [H _]. cbn [concat].
      rewrite <- app_assoc, IH, app_assoc, <- H, <- app_assoc. reflexivity.
    + rewrite IH, H, app_assoc. reflexivity.
Qed.

Theorem frames_of_contentw strict env : forall ops s,
  exists tl, fst (frames (stream s ++ run_deliveredw strict env s ops)) = run_framesw strict env s ops ++ tl.
Proof.
  induction ops as [|o ops IH]; intros s.
  - cbn [run_framesw run_deliveredw app]. eexists. reflexivity.
  - cbn [run_framesw run_deliveredw].
    pose proof (iterw_stream strict env s o) as H. destruct (IH (iterw strict env s o)) as [tl Htl].
    rewrite app_assoc.
    destruct (iter_framew s o) as [f|].
    + exists tl. rewrite frames_unfold.
      rewrite (frame_of_app _ (run_deliveredw strict env (iterw strict env s o) ops) _ _ H).
      destruct (frames (stream (iterw strict env s o) ++ run_deliveredw strict env (iterw strict env s o) ops)) as [fs r].
      cbn [fst] in *. rewrite Htl. reflexivity.
    + exists tl. rewrite <- H. exact Htl.
Qed.

(* two deliveries of the same content — e.g. whole with the reset right behind it, and per PDU followed by
   the reset — that both consumed it entirely recognised the same PDUs *)
Corollary same_content_same_framesw strict env ops1 ops2 s :
  run_deliveredw strict env s ops1 = run_deliveredw strict env s ops2 ->
  stream (fold_left (iterw strict env) ops1 s) = stream (fold_left (iterw strict env) ops2 s) ->
  concat (run_framesw strict env s ops1) = concat (run_framesw strict env s ops2).
Proof.
  intros Hd Hs. pose proof (stream_conservedw strict env ops1 s) as H1.
  pose proof (stream_conservedw strict env ops2 s) as H2.
  rewrite Hd, <- H2, Hs in H1. apply app_inv_tail in H1. exact H1.
Qed.
