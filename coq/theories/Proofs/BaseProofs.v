From PND Require Import Lib.Base.

Lemma lenN_nil {A} : lenN (@nil A) = 0. Proof. reflexivity. Qed.
Lemma lenN_cons {A} (x : A) l : lenN (x :: l) = lenN l + 1.
Proof. unfold lenN. cbn [length]. lia. Qed.
Lemma lenN_app {A} (a b : list A) : lenN (a ++ b) = lenN a + lenN b.
Proof. unfold lenN. rewrite app_length. lia. Qed.

Lemma take_firstn (s : bytes) : forall n, take n s = firstn (N.to_nat n) s.
Proof.
  induction s as [|x r IH]; intros n.
  - cbn [take]. rewrite firstn_nil. reflexivity.
  - cbn [take]. destruct (N.eqb_spec n 0) as [->|Hn]; [reflexivity|].
    replace (N.to_nat n) with (S (N.to_nat (n - 1))) by lia. cbn [firstn]. rewrite IH. reflexivity.
Qed.

Lemma drop_skipn (s : bytes) : forall n, drop n s = skipn (N.to_nat n) s.
Proof.
  induction s as [|x r IH]; intros n.
  - cbn [drop]. rewrite skipn_nil. reflexivity.
  - cbn [drop]. destruct (N.eqb_spec n 0) as [->|Hn]; [reflexivity|].
    replace (N.to_nat n) with (S (N.to_nat (n - 1))) by lia. cbn [skipn]. apply IH.
Qed.

Lemma take_drop (n : N) (s : bytes) : take n s ++ drop n s = s.
Proof. rewrite take_firstn, drop_skipn. apply firstn_skipn. Qed.

Lemma lenN_take_le (n : N) (s : bytes) : lenN (take n s) <= n.
Proof. rewrite take_firstn. unfold lenN. rewrite firstn_length. lia. Qed.

Lemma lenN_take (n : N) (s : bytes) : lenN (take n s) = N.min n (lenN s).
Proof. rewrite take_firstn. unfold lenN. rewrite firstn_length. lia. Qed.

Lemma length_drop (n : N) (s : bytes) : length (drop n s) = (length s - N.to_nat n)%nat.
Proof. rewrite drop_skipn. apply skipn_length. Qed.

Lemma lenN_drop (n : N) (s : bytes) : lenN (drop n s) = lenN s - n.
Proof. unfold lenN. rewrite length_drop. lia. Qed.

Lemma take_nonempty (n : N) (s : bytes) : 1 <= n -> s <> [] -> take n s <> [].
Proof.
  intros Hn Hs. destruct s as [|x s]; [contradiction|]. cbn [take].
  destruct (N.eqb_spec n 0); [lia|discriminate].
Qed.

Lemma take_app_exact (a b : bytes) : take (lenN a) (a ++ b) = a.
Proof.
  rewrite take_firstn. unfold lenN. rewrite Nat2N.id.
  rewrite firstn_app, Nat.sub_diag, firstn_all. cbn [firstn]. apply app_nil_r.
Qed.

Lemma drop_app_exact (a b : bytes) : drop (lenN a) (a ++ b) = b.
Proof.
  rewrite drop_skipn. unfold lenN. rewrite Nat2N.id.
  rewrite skipn_app, Nat.sub_diag, skipn_all. reflexivity.
Qed.

Lemma take_all (s : bytes) n : lenN s <= n -> take n s = s.
Proof. intros H. rewrite take_firstn. apply firstn_all2. unfold lenN in H. lia. Qed.

Lemma drop_all (s : bytes) n : lenN s <= n -> drop n s = [].
Proof. intros H. rewrite drop_skipn. apply skipn_all2. unfold lenN in H. lia. Qed.

Lemma take_0 (s : bytes) : take 0 s = [].
Proof. destruct s; reflexivity. Qed.
Lemma drop_0 (s : bytes) : drop 0 s = s.
Proof. destruct s; reflexivity. Qed.

Lemma take_app_len (a b : bytes) (n : N) : lenN a = n -> take n (a ++ b) = a.
Proof. intros <-. apply take_app_exact. Qed.
Lemma drop_app_len (a b : bytes) (n : N) : lenN a = n -> drop n (a ++ b) = b.
Proof. intros <-. apply drop_app_exact. Qed.
