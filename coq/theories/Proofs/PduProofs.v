From PND Require Import Lib.Base Lib.Text Model.Pdu Model.PduWf Proofs.BaseProofs Proofs.TextProofs.

(* ---- arithmetic of big-endian fields ---------------------------------- *)
Lemma un16_hdr (n : N) : un16 (n / 256) (n mod 256) = n.
Proof. unfold un16. pose proof (N.div_mod n 256 ltac:(discriminate)). lia. Qed.

Lemma un32_be (n : N) :
  un32 (n / 16777216) ((n / 65536) mod 256) ((n / 256) mod 256) (n mod 256) = n.
Proof.
  unfold un32.
  replace (n / 65536) with (n / 256 / 256) by (rewrite N.div_div by discriminate; reflexivity).
  replace (n / 16777216) with (n / 256 / 256 / 256)
    by (rewrite !N.div_div by discriminate; reflexivity).
  pose proof (N.div_mod n 256 ltac:(discriminate)) as H1.
  pose proof (N.div_mod (n / 256) 256 ltac:(discriminate)) as H2.
  pose proof (N.div_mod (n / 256 / 256) 256 ltac:(discriminate)) as H3.
  lia.
Qed.

(* ---- reads ------------------------------------------------------------ *)
Lemma read_exact_app (n : N) (h rest : bytes) : lenN h = n ->
  read_exact n (h ++ rest) = Ok (h, rest).
Proof.
  intros <-. unfold read_exact. rewrite take_app_exact, drop_app_exact, N.eqb_refl. reflexivity.
Qed.

Ltac split_andb :=
  repeat match goal with
  | H : _ && _ = true |- _ => apply andb_prop in H; destruct H
  end.

(* evaluate closed comparisons of literals *)
Ltac eval_tests :=
  repeat match goal with
  | |- context [?a =? ?b] =>
      let v := eval vm_compute in (a =? b) in
      match v with
      | true => change (a =? b) with true
      | false => change (a =? b) with false
      end
  end; cbv iota.

Lemma dec_text_ok (t : bytes) : utf8_valid t = true -> dec_text t = Ok t.
Proof. intros H. unfold dec_text. rewrite H. reflexivity. Qed.

Lemma dec_uid_ok (t : bytes) : wf_uid t = true -> dec_uid t = Ok t.
Proof.
  unfold wf_uid. intros H. split_andb. unfold dec_uid.
  rewrite dec_text_ok by (apply ascii_utf8; assumption). cbn [bind].
  f_equal. apply beq_bytes_eq. assumption.
Qed.

Lemma split4_hdr (t r len : N) (rest : bytes) :
  split4 (hdr4 t r len ++ rest) = Ok (t, r, len, rest).
Proof.
  unfold split4, hdr4. rewrite read_exact_app by reflexivity. cbn [bind]. rewrite un16_hdr. reflexivity.
Qed.

Lemma app_assoc4 {A} (a b c d : list A) : (a ++ b ++ c) ++ d = a ++ b ++ c ++ d.
Proof. rewrite <- !app_assoc. reflexivity. Qed.

(* ---- user-information sub-items ---------------------------------------- *)
Definition sub_type (x : subitem) : N :=
  match x with
  | MaxLen _ _ _ => 81 | ImplClass _ _ => 82 | AsyncOps _ _ _ _ => 83 | RoleSel _ _ _ _ => 84
  | ImplVersion _ _ => 85 | ExtNeg _ _ _ => 86 | UserId _ _ _ _ _ => 88 | UserIdAc _ _ => 89
  | Generic t _ _ => t
  end.

Lemma encode_sub_cons (x : subitem) : exists tl, encode_sub x = sub_type x :: tl.
Proof. destruct x; cbn [encode_sub hdr4 app sub_type]; eexists; reflexivity. Qed.

Lemma dec_sub_ok (x : subitem) (rest : bytes) : wf_sub x = true ->
  dec_sub (sub_type x) (encode_sub x ++ rest) = Ok (x, rest).
Proof.
  intros Hwf. unfold wf_sub in Hwf. apply andb_prop in Hwf. destruct Hwf as [Hp Hw].
  destruct x as [r l m | r u | r l a b | r u a b | r n | r u ai | r ty rq p s | r s | t r d];
    cbn [sub_type encode_sub]; unfold dec_sub.
  - (* MaxLen *)
    eval_tests. unfold hdr4, be32.
    change ([81; r; l / 256; l mod 256] ++
            [m / 16777216; (m / 65536) mod 256; (m / 256) mod 256; m mod 256])
      with [81; r; l / 256; l mod 256; m / 16777216; (m / 65536) mod 256; (m / 256) mod 256; m mod 256].
    rewrite read_exact_app by reflexivity. cbn [bind].
    rewrite un16_hdr, un32_be. reflexivity.
  - (* ImplClass *)
    eval_tests. rewrite <- app_assoc, split4_hdr. cbn [bind].
    rewrite take_app_exact, drop_app_exact, dec_uid_ok by exact Hw. reflexivity.
  - (* AsyncOps *)
    eval_tests. unfold hdr4, be16.
    change (([83; r; l / 256; l mod 256] ++ [a / 256; a mod 256] ++ [b / 256; b mod 256]) ++ rest)
      with ([83; r; l / 256; l mod 256; a / 256; a mod 256; b / 256; b mod 256] ++ rest).
    rewrite read_exact_app by reflexivity. cbn [bind]. rewrite !un16_hdr. reflexivity.
  - (* RoleSel *)
    eval_tests. unfold hdr4, be16.
    change (([84; r; (4 + lenN u) / 256; (4 + lenN u) mod 256] ++ [lenN u / 256; lenN u mod 256] ++ u ++ [a; b]) ++ rest)
      with ([84; r; (4 + lenN u) / 256; (4 + lenN u) mod 256; lenN u / 256; lenN u mod 256] ++ ((u ++ [a; b]) ++ rest)).
    rewrite read_exact_app by reflexivity. cbn [bind]. rewrite un16_hdr.
    rewrite <- app_assoc. rewrite take_app_exact, drop_app_exact, dec_uid_ok by exact Hw. cbn [bind].
    change ([a; b] ++ rest) with ([a; b] ++ rest). rewrite read_exact_app by reflexivity. reflexivity.
  - (* ImplVersion *)
    eval_tests. rewrite <- app_assoc, split4_hdr. cbn [bind].
    rewrite take_app_exact, drop_app_exact, dec_text_ok by (apply ascii_utf8; exact Hw). reflexivity.
  - (* ExtNeg *)
    eval_tests. unfold hdr4, be16.
    change (([86; r; (2 + lenN u + lenN ai) / 256; (2 + lenN u + lenN ai) mod 256] ++
             [lenN u / 256; lenN u mod 256] ++ u ++ ai) ++ rest)
      with ([86; r; (2 + lenN u + lenN ai) / 256; (2 + lenN u + lenN ai) mod 256; lenN u / 256; lenN u mod 256]
            ++ ((u ++ ai) ++ rest)).
    rewrite read_exact_app by reflexivity. cbn [bind]. rewrite !un16_hdr.
    rewrite <- app_assoc. rewrite take_app_exact, drop_app_exact, dec_uid_ok by exact Hw. cbn [bind].
    destruct (N.ltb_spec (2 + lenN u + lenN ai) (lenN u + 2)) as [Hlt|Hge]; [lia|].
    replace (2 + lenN u + lenN ai - lenN u - 2) with (lenN ai) by lia.
    rewrite take_app_exact, drop_app_exact. reflexivity.
  - (* UserId *)
    eval_tests. unfold hdr4, be16. cbn [wf_utf8] in Hw. split_andb.
    change (([88; r; (6 + lenN p + lenN s) / 256; (6 + lenN p + lenN s) mod 256] ++ [ty; rq] ++
             [lenN p / 256; lenN p mod 256] ++ p ++ [lenN s / 256; lenN s mod 256] ++ s) ++ rest)
      with ([88; r; (6 + lenN p + lenN s) / 256; (6 + lenN p + lenN s) mod 256; ty; rq; lenN p / 256; lenN p mod 256]
            ++ ((p ++ [lenN s / 256; lenN s mod 256] ++ s) ++ rest)).
    rewrite read_exact_app by reflexivity. cbn [bind]. rewrite un16_hdr.
    rewrite <- app_assoc. rewrite take_app_exact, drop_app_exact.
    rewrite <- app_assoc. rewrite read_exact_app by reflexivity. cbn [bind]. rewrite un16_hdr.
    rewrite take_app_exact, drop_app_exact.
    unfold wf_utf8 in *. rewrite !dec_text_ok by assumption. reflexivity.
  - (* UserIdAc *)
    eval_tests. unfold hdr4, be16.
    change (([89; r; (2 + lenN s) / 256; (2 + lenN s) mod 256] ++ [lenN s / 256; lenN s mod 256] ++ s) ++ rest)
      with ([89; r; (2 + lenN s) / 256; (2 + lenN s) mod 256; lenN s / 256; lenN s mod 256] ++ (s ++ rest)).
    rewrite read_exact_app by reflexivity. cbn [bind]. rewrite un16_hdr.
    rewrite take_app_exact, drop_app_exact. unfold wf_utf8 in Hw. rewrite dec_text_ok by exact Hw. reflexivity.
  - (* Generic *)
    apply andb_prop in Hw. destruct Hw as [_ Hk]. apply negb_true_iff in Hk.
    unfold known_sub_type in Hk.
    repeat (apply orb_false_elim in Hk; destruct Hk as [Hk ?Hk']).
    rewrite Hk, Hk', Hk'0, Hk'1, Hk'2, Hk'3, Hk'4, Hk'5.
    rewrite <- app_assoc, split4_hdr. cbn [bind]. rewrite take_app_exact, drop_app_exact. reflexivity.
Qed.

Lemma sub_type_nonzero (x : subitem) : wf_sub x = true -> (sub_type x =? 0) = false.
Proof.
  intros H. destruct x; try reflexivity.
  unfold wf_sub in H. split_andb. cbn [sub_type]. apply negb_true_iff. assumption.
Qed.

Lemma encode_sub_nonempty (x : subitem) : (1 <= length (encode_sub x))%nat.
Proof. destruct (encode_sub_cons x) as [tl ->]. cbn [length]. lia. Qed.

Lemma length_concat_ge {A B} (f : A -> list B) (l : list A) :
  (forall x, 1 <= length (f x))%nat -> (length l <= length (concat (map f l)))%nat.
Proof.
  intros Hf. induction l as [|x l IH]; [cbn; lia|].
  cbn [map concat length]. rewrite app_length. specialize (Hf x). lia.
Qed.

Lemma dec_subs_step (f : nat) (x : subitem) (rest : bytes) : wf_sub x = true ->
  dec_subs (S f) (encode_sub x ++ rest) =
  (let* (y, r) := dec_sub (sub_type x) (encode_sub x ++ rest) in
   let* (ys, r') := dec_subs f r in Ok (y :: ys, r')).
Proof.
  intros Hx. destruct (encode_sub_cons x) as [tl Htl]. rewrite Htl. cbn [app dec_subs].
  rewrite (sub_type_nonzero x Hx). reflexivity.
Qed.

Lemma dec_subs_ok (xs : list subitem) : forall fuel,
  forallb wf_sub xs = true -> (length xs < fuel)%nat ->
  dec_subs fuel (concat (map encode_sub xs)) = Ok (xs, []).
Proof.
  induction xs as [|x xs IH]; intros fuel Hwf Hf.
  - destruct fuel; [lia|]. reflexivity.
  - destruct fuel as [|f]; [lia|]. cbn [forallb] in Hwf. apply andb_prop in Hwf. destruct Hwf as [Hx Hxs].
    cbn [map concat]. rewrite dec_subs_step by exact Hx.
    rewrite dec_sub_ok by exact Hx. cbn [bind].
    rewrite IH; [reflexivity|exact Hxs|cbn [length] in Hf; lia].
Qed.

(* ---- syntax sub-items -------------------------------------------------- *)
Lemma dec_syntax_ok (t : N) (x : syntax_item) (rest : bytes) : wf_syntax x = true ->
  dec_syntax (encode_syntax t x ++ rest) = Ok (x, rest).
Proof.
  unfold wf_syntax. intros H. split_andb. unfold dec_syntax, encode_syntax.
  rewrite <- app_assoc, split4_hdr. cbn [bind].
  rewrite take_app_exact, drop_app_exact, dec_uid_ok by assumption. cbn [bind].
  destruct x; reflexivity.
Qed.

Definition hd_not64 (s : bytes) : Prop :=
  match s with t :: _ => (t =? 64) = false | [] => True end.

Lemma dec_tss_ok (ts : list syntax_item) (rest : bytes) : forall fuel,
  forallb wf_syntax ts = true -> hd_not64 rest -> (length ts < fuel)%nat ->
  dec_tss fuel (concat (map (encode_syntax 64) ts) ++ rest) = Ok (ts, rest).
Proof.
  induction ts as [|x ts IH]; intros fuel Hwf Hr Hf.
  - destruct fuel; [lia|]. cbn [map concat app dec_tss].
    destruct rest as [|t r]; [reflexivity|]. cbn [hd_not64] in Hr. rewrite Hr. reflexivity.
  - destruct fuel as [|f]; [lia|]. cbn [forallb] in Hwf. apply andb_prop in Hwf. destruct Hwf as [Hx Hxs].
    cbn [map concat]. rewrite <- app_assoc.
    unfold encode_syntax at 1. unfold hdr4. cbn [app dec_tss]. eval_tests.
    change (64 :: sy_reserved x :: lenN (sy_name x) / 256 :: lenN (sy_name x) mod 256 ::
            sy_name x ++ concat (map (encode_syntax 64) ts) ++ rest)
      with (encode_syntax 64 x ++ (concat (map (encode_syntax 64) ts) ++ rest)).
    rewrite dec_syntax_ok by exact Hx. cbn [bind].
    rewrite IH; [reflexivity|exact Hxs|exact Hr|cbn [length] in Hf; lia].
Qed.

(* ---- variable items ---------------------------------------------------- *)
Definition item_type (x : item) : N :=
  match x with AppCtx _ _ => 16 | PcRq _ _ _ _ _ _ _ => 32 | PcAc _ _ _ _ _ _ => 33 | UserInfo _ _ => 80 end.

Lemma encode_item_cons (x : item) : exists tl, encode_item x = item_type x :: tl.
Proof. destruct x; cbn [encode_item hdr4 app item_type]; eexists; reflexivity. Qed.

Lemma encode_syntax_nonempty t x : (1 <= length (encode_syntax t x))%nat.
Proof. unfold encode_syntax, hdr4. cbn [app length]. lia. Qed.

Lemma dec_item_ok (x : item) (rest : bytes) : wf_item x = true -> is_userinfo x = false ->
  hd_not64 rest -> dec_item (item_type x) (encode_item x ++ rest) = Ok (x, rest).
Proof.
  intros Hwf Hnu Hr. unfold wf_item in Hwf. apply andb_prop in Hwf. destruct Hwf as [Hp Hw].
  destruct x as [r n | id r1 r2 r3 r4 a ts | id r1 r2 res r3 t | r subs]; [| | |discriminate];
    cbn [item_type]; unfold dec_item; eval_tests.
  - (* AppCtx *)
    cbn [encode_item]. rewrite <- app_assoc, split4_hdr. cbn [bind].
    rewrite take_app_exact, drop_app_exact, dec_text_ok by (apply ascii_utf8; exact Hw). reflexivity.
  - (* PcRq *)
    apply andb_prop in Hw. destruct Hw as [Ha Hts].
    cbn [encode_item]. set (L := item_length (PcRq id r1 r2 r3 r4 a ts)). unfold hdr4.
    change (([32; r1; L / 256; L mod 256] ++ [id; r2; r3; r4] ++ encode_syntax 48 a ++
             concat (map (encode_syntax 64) ts)) ++ rest)
      with ([32; r1; L / 256; L mod 256; id; r2; r3; r4] ++
            ((encode_syntax 48 a ++ concat (map (encode_syntax 64) ts)) ++ rest)).
    rewrite read_exact_app by reflexivity. cbn [bind].
    rewrite <- app_assoc. rewrite dec_syntax_ok by exact Ha. cbn [bind].
    rewrite dec_tss_ok; [reflexivity|exact Hts|exact Hr|].
    rewrite app_length. pose proof (length_concat_ge (encode_syntax 64) ts (encode_syntax_nonempty 64)). lia.
  - (* PcAc *)
    cbn [encode_item]. set (L := item_length (PcAc id r1 r2 res r3 t)). unfold hdr4.
    change (([33; r1; L / 256; L mod 256] ++ [id; r2; res; r3] ++ encode_syntax 64 t) ++ rest)
      with ([33; r1; L / 256; L mod 256; id; r2; res; r3] ++ (encode_syntax 64 t ++ rest)).
    rewrite read_exact_app by reflexivity. cbn [bind].
    rewrite dec_syntax_ok by exact Hw. reflexivity.
Qed.

Lemma dec_item_userinfo (r : N) (subs : list subitem) : wf_item (UserInfo r subs) = true ->
  dec_item 80 (encode_item (UserInfo r subs)) = Ok (UserInfo r subs, []).
Proof.
  intros Hwf. unfold wf_item in Hwf. apply andb_prop in Hwf. destruct Hwf as [Hp Hw].
  unfold dec_item. eval_tests. cbn [encode_item]. rewrite split4_hdr. cbn [bind].
  rewrite dec_subs_ok; [reflexivity|exact Hw|].
  pose proof (length_concat_ge encode_sub subs encode_sub_nonempty). lia.
Qed.

Lemma item_type_not64 (x : item) : (item_type x =? 64) = false.
Proof. destruct x; reflexivity. Qed.
Lemma item_type_nonzero (x : item) : (item_type x =? 0) = false.
Proof. destruct x; reflexivity. Qed.

Lemma encode_item_nonempty (x : item) : (1 <= length (encode_item x))%nat.
Proof. destruct (encode_item_cons x) as [tl ->]. cbn [length]. lia. Qed.

Lemma hd_not64_items (l : list item) : hd_not64 (concat (map encode_item l)).
Proof.
  destruct l as [|x l]; [exact I|]. cbn [map concat].
  destruct (encode_item_cons x) as [tl ->]. cbn [app hd_not64]. apply item_type_not64.
Qed.

Lemma dec_items_step (f : nat) (x : item) (rest : bytes) :
  dec_items (S f) (encode_item x ++ rest) =
  (let* (y, r) := dec_item (item_type x) (encode_item x ++ rest) in
   let* ys := dec_items f r in Ok (y :: ys)).
Proof.
  destruct (encode_item_cons x) as [tl Htl]. rewrite Htl. cbn [app dec_items].
  rewrite item_type_nonzero. reflexivity.
Qed.

Lemma dec_items_ok (l : list item) : forall fuel,
  forallb wf_item l = true -> userinfo_last l = true -> (length l < fuel)%nat ->
  dec_items fuel (concat (map encode_item l)) = Ok l.
Proof.
  induction l as [|x l IH]; intros fuel Hwf Hul Hf.
  - destruct fuel; [lia|]. reflexivity.
  - destruct fuel as [|f]; [lia|]. cbn [forallb] in Hwf. apply andb_prop in Hwf. destruct Hwf as [Hx Hl].
    cbn [map concat]. rewrite dec_items_step.
    destruct l as [|y l'].
    + (* last item: anything, User Information included *)
      cbn [map concat]. rewrite app_nil_r.
      destruct (is_userinfo x) eqn:Eu.
      * destruct x; try discriminate. cbn [item_type]. rewrite dec_item_userinfo by exact Hx.
        cbn [bind]. destruct f; [cbn [length] in Hf; lia|]. reflexivity.
      * rewrite <- (app_nil_r (encode_item x)). rewrite dec_item_ok; [|exact Hx|exact Eu|exact I].
        cbn [bind]. destruct f; [cbn [length] in Hf; lia|]. reflexivity.
    + cbn [userinfo_last] in Hul. apply andb_prop in Hul. destruct Hul as [Hnu Hul].
      apply negb_true_iff in Hnu.
      rewrite dec_item_ok; [|exact Hx|exact Hnu|apply hd_not64_items].
      cbn [bind]. rewrite IH; [reflexivity|exact Hl|exact Hul|cbn [length] in *; lia].
Qed.

(* ---- A-ASSOCIATE-RQ / -AC --------------------------------------------- *)
Lemma pad16_eq (t : bytes) : lenN t <= 16 -> pad16 t = t ++ repeat 0 (16 - length t).
Proof.
  intros H. unfold pad16. rewrite take_firstn. change (N.to_nat 16) with 16%nat.
  apply take_app_repeat; unfold lenN in H; cbn [repeat length]; lia.
Qed.

Lemma lenN_pad16 (t : bytes) : lenN t <= 16 -> lenN (pad16 t) = 16.
Proof.
  intros H. rewrite pad16_eq by exact H. rewrite lenN_app. unfold lenN in *.
  rewrite repeat_length. lia.
Qed.

Lemma strip_pad16 (t : bytes) : wf_ae t = true -> strip_nul (pad16 t) = t.
Proof.
  unfold wf_ae. intros H. split_andb.
  rewrite pad16_eq by (apply N.leb_le; assumption).
  unfold strip_nul. rewrite strip_repeat by reflexivity.
  apply beq_bytes_eq. assumption.
Qed.

Lemma un32s_be32s (l : list N) : un32s (concat (map be32 l)) = l.
Proof.
  induction l as [|x l IH]; [reflexivity|].
  cbn [map concat]. unfold be32 at 1. cbn [app un32s]. rewrite un32_be, IH. reflexivity.
Qed.

Lemma lenN_be32s (l : list N) : lenN (concat (map be32 l)) = 4 * lenN l.
Proof.
  induction l as [|x l IH]; [reflexivity|].
  cbn [map concat]. rewrite lenN_app, IH, lenN_cons. unfold be32, lenN. cbn [length]. lia.
Qed.

Lemma dec_assoc_ok k r1 ver r2 called calling r3 items :
  wf_pdu (Assoc k r1 ver r2 called calling r3 items) = true ->
  dec_assoc k (encode (Assoc k r1 ver r2 called calling r3 items))
  = Ok (Assoc k r1 ver r2 called calling r3 items).
Proof.
  intros Hwf. unfold wf_pdu in Hwf. apply andb_prop in Hwf. destruct Hwf as [Hp Hw].
  cbn [packable] in Hp. split_andb.
  assert (Hc1 : lenN called <= 16) by (unfold wf_ae in *; split_andb; apply N.leb_le; assumption).
  assert (Hc2 : lenN calling <= 16) by (unfold wf_ae in *; split_andb; apply N.leb_le; assumption).
  match goal with H : (lenN r3 =? 8) = true |- _ => apply N.eqb_eq in H; rename H into Hr3 end.
  unfold dec_assoc. cbn [encode]. set (L := pdu_length _).
  unfold be32 at 1. unfold be16.
  change ([kind_code k; r1] ++ [L / 16777216; (L / 65536) mod 256; (L / 256) mod 256; L mod 256] ++
          [ver / 256; ver mod 256] ++ [r2 / 256; r2 mod 256] ++
          pad16 called ++ pad16 calling ++ concat (map be32 r3) ++ concat (map encode_item items))
    with ([kind_code k; r1; L / 16777216; (L / 65536) mod 256; (L / 256) mod 256; L mod 256;
           ver / 256; ver mod 256; r2 / 256; r2 mod 256] ++
          pad16 called ++ pad16 calling ++ concat (map be32 r3) ++ concat (map encode_item items)).
  replace ([kind_code k; r1; L / 16777216; (L / 65536) mod 256; (L / 256) mod 256; L mod 256;
            ver / 256; ver mod 256; r2 / 256; r2 mod 256] ++
           pad16 called ++ pad16 calling ++ concat (map be32 r3) ++ concat (map encode_item items))
    with (([kind_code k; r1; L / 16777216; (L / 65536) mod 256; (L / 256) mod 256; L mod 256;
            ver / 256; ver mod 256; r2 / 256; r2 mod 256] ++
           pad16 called ++ pad16 calling ++ concat (map be32 r3)) ++ concat (map encode_item items))
    by (rewrite <- !app_assoc; reflexivity).
  rewrite read_exact_app.
  2:{ rewrite !lenN_app, !lenN_pad16, lenN_be32s, Hr3 by assumption. reflexivity. }
  cbn [bind app].
  rewrite (take_app_len (pad16 called)) by (apply lenN_pad16; exact Hc1).
  rewrite (drop_app_len (pad16 called)) by (apply lenN_pad16; exact Hc1).
  rewrite (take_app_len (pad16 calling)) by (apply lenN_pad16; exact Hc2).
  rewrite (drop_app_len (pad16 calling)) by (apply lenN_pad16; exact Hc2).
  rewrite !strip_pad16 by assumption.
  rewrite !dec_text_ok by (apply ascii_utf8; unfold wf_ae in *; split_andb; assumption).
  cbn [bind].
  rewrite dec_items_ok; [|assumption|assumption|].
  2:{ pose proof (length_concat_ge encode_item items encode_item_nonempty). lia. }
  cbn [bind]. rewrite !un16_hdr, un32s_be32s. reflexivity.
Qed.

(* ---- P-DATA-TF --------------------------------------------------------- *)
Definition wf_pdv (v : pdv) : bool := b8 (pdv_ctx v) && b32 (lenN (pdv_data v) + 1).

Lemma dec_pdv_ok (v : pdv) (rest : bytes) :
  dec_pdv (encode_pdv v ++ rest) = Ok (v, rest).
Proof.
  unfold dec_pdv, encode_pdv. set (n := lenN (pdv_data v) + 1). unfold be32.
  change (([n / 16777216; (n / 65536) mod 256; (n / 256) mod 256; n mod 256] ++ [pdv_ctx v] ++ pdv_data v) ++ rest)
    with ([n / 16777216; (n / 65536) mod 256; (n / 256) mod 256; n mod 256; pdv_ctx v] ++ (pdv_data v ++ rest)).
  rewrite read_exact_app by reflexivity. cbn [bind]. rewrite un32_be.
  destruct (N.eqb_spec n 0) as [Hz|Hnz]; [subst n; lia|].
  replace (n - 1) with (lenN (pdv_data v)) by (subst n; lia).
  rewrite take_app_exact, drop_app_exact. destruct v; reflexivity.
Qed.

Lemma dec_pdvs_ok (vs : list pdv) : forall fuel acc, (length vs < fuel)%nat ->
  dec_pdvs fuel acc (acc + sum_map pdv_total_length vs) (concat (map encode_pdv vs)) = Ok vs.
Proof.
  induction vs as [|v vs IH]; intros fuel acc Hf.
  - destruct fuel; [lia|]. cbn [sum_map fold_right dec_pdvs]. rewrite N.add_0_r, N.eqb_refl. reflexivity.
  - destruct fuel as [|f]; [lia|]. cbn [map concat dec_pdvs].
    unfold sum_map. cbn [fold_right]. fold (sum_map pdv_total_length vs).
    destruct (N.eqb_spec acc (acc + (pdv_total_length v + sum_map pdv_total_length vs))) as [He|_].
    + unfold pdv_total_length in He at 1. lia.
    + rewrite dec_pdv_ok. cbn [bind].
      replace (acc + (pdv_total_length v + sum_map pdv_total_length vs))
        with ((acc + pdv_total_length v) + sum_map pdv_total_length vs) by lia.
      rewrite IH; [reflexivity|cbn [length] in Hf; lia].
Qed.

Lemma encode_pdv_nonempty (v : pdv) : (1 <= length (encode_pdv v))%nat.
Proof. unfold encode_pdv, be32. cbn [app length]. lia. Qed.

Lemma dec_pdata_ok r vs : dec_pdata (encode (PData r vs)) = Ok (PData r vs).
Proof.
  unfold dec_pdata. cbn [encode]. set (L := pdu_length _). unfold be32.
  change ([4; r] ++ [L / 16777216; (L / 65536) mod 256; (L / 256) mod 256; L mod 256] ++ concat (map encode_pdv vs))
    with ([4; r; L / 16777216; (L / 65536) mod 256; (L / 256) mod 256; L mod 256] ++ concat (map encode_pdv vs)).
  rewrite read_exact_app by reflexivity. cbn [bind]. rewrite un32_be.
  subst L. cbn [pdu_length]. change (sum_map pdv_total_length vs) with (0 + sum_map pdv_total_length vs).
  rewrite dec_pdvs_ok; [reflexivity|].
  pose proof (length_concat_ge encode_pdv vs encode_pdv_nonempty). lia.
Qed.

(* ---- the whole codec ----------------------------------------------------- *)
Lemma decode_encode (p : pdu) : wf_pdu p = true -> decode_as (type_of p) (encode p) = Ok p.
Proof.
  intros Hwf. destruct p as [k r1 ver r2 c1 c2 r3 items | r1 r2 a b c | r vs | r1 r2 | r1 r2 | r1 r2 r3 a b].
  - destruct k; cbn [type_of kind_code]; unfold decode_as; eval_tests; apply dec_assoc_ok; exact Hwf.
  - cbn [type_of]. unfold decode_as. eval_tests. cbn [orb]. unfold dec_fixed. cbn [encode]. unfold be32.
    cbn [app]. rewrite <- (app_nil_r [3; r1; _; _; _; _; r2; a; b; c]).
    rewrite read_exact_app by reflexivity. cbn [bind]. eval_tests. reflexivity.
  - cbn [type_of]. unfold decode_as. eval_tests. apply dec_pdata_ok.
  - cbn [type_of]. unfold decode_as. eval_tests. cbn [orb]. unfold dec_fixed. cbn [encode]. unfold be32.
    cbn [app]. rewrite <- (app_nil_r [5; r1; _; _; _; _; _; _; _; _]).
    rewrite read_exact_app by reflexivity. cbn [bind]. eval_tests. rewrite un32_be. reflexivity.
  - cbn [type_of]. unfold decode_as. eval_tests. cbn [orb]. unfold dec_fixed. cbn [encode]. unfold be32.
    cbn [app]. rewrite <- (app_nil_r [6; r1; _; _; _; _; _; _; _; _]).
    rewrite read_exact_app by reflexivity. cbn [bind]. eval_tests. rewrite un32_be. reflexivity.
  - cbn [type_of]. unfold decode_as. eval_tests. cbn [orb]. unfold dec_fixed. cbn [encode]. unfold be32.
    cbn [app]. rewrite <- (app_nil_r [7; r1; _; _; _; _; r2; r3; a; b]).
    rewrite read_exact_app by reflexivity. cbn [bind]. eval_tests. reflexivity.
Qed.
