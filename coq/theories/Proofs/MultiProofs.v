From PND Require Import Lib.Base Model.Multi.

Section MultiProofs.
  Variables (cfg state input : Type).
  Variable step : cfg -> state -> input -> state.
  Notation get := (get state).
  Notation set := (set state).

  Lemma get_set_same i x s : (exists y, get i s = Some y) -> get i (set i x s) = Some x.
  Proof.
    induction s as [|[j y] r IH]; intros [z H]; [discriminate|].
    cbn [Multi.get Multi.set] in *. destruct (N.eqb_spec i j) as [->|Hne].
    - cbn [Multi.get]. rewrite N.eqb_refl. reflexivity.
    - cbn [Multi.get]. destruct (N.eqb_spec i j); [contradiction|]. apply IH. exists z. exact H.
  Qed.

  Lemma get_set_other i k x s : i <> k -> get i (set k x s) = get i s.
  Proof.
    intros Hne. induction s as [|[j y] r IH]; [reflexivity|].
    cbn [Multi.get Multi.set]. destruct (N.eqb_spec k j) as [->|Hkj].
    - cbn [Multi.get]. destruct (N.eqb_spec i j); [contradiction|reflexivity].
    - cbn [Multi.get]. destruct (N.eqb_spec i j); [reflexivity|exact IH].
  Qed.

  (* non-interference: whatever the interleaving, association i ends in the state it reaches alone on
     its own inputs — the other associations (also aborting ones) do not disturb it *)
  Lemma isolation (c : cfg) (sched : list (N * input)) : forall (s : system state) (i : N) (x : state),
    get i s = Some x ->
    get i (run_system cfg state input step c sched s)
    = Some (run_single cfg state input step c x (project input i sched)).
  Proof.
    induction sched as [|[k inp] r IH]; intros s i x Hx; [exact Hx|].
    cbn [run_system fold_left]. unfold sys_step at 2. cbn [fst snd].
    unfold project. cbn [filter fst].
    destruct (N.eqb_spec k i) as [->|Hne].
    - rewrite Hx. cbn [map snd run_single fold_left].
      apply (IH _ i (step c x inp)). apply get_set_same. exists x. exact Hx.
    - destruct (get k s) as [y|] eqn:Ek.
      + apply (IH _ i x). rewrite get_set_other by (intros ->; contradiction). exact Hx.
      + apply (IH _ i x). exact Hx.
  Qed.
End MultiProofs.

(* message ids: strictly increasing, hence unique within a thread *)
Lemma msg_ids_from k : forall n, msg_ids k (Some n) = map (fun j => n + 1 + N.of_nat j) (seq 0 k).
Proof.
  induction k as [|k IH]; intros n; [reflexivity|].
  cbn [msg_ids new_msg_id seq map]. rewrite IH. f_equal; [lia|].
  rewrite <- seq_shift, map_map. apply map_ext. intros j. lia.
Qed.

Lemma msg_ids_fresh k : msg_ids k None = map (fun j => 1 + N.of_nat j) (seq 0 k).
Proof.
  destruct k as [|k]; [reflexivity|]. cbn [msg_ids new_msg_id seq map]. rewrite msg_ids_from. f_equal.
  rewrite <- seq_shift, map_map. apply map_ext. intros j. lia.
Qed.

Lemma msg_ids_unique k c : NoDup (msg_ids k c).
Proof.
  assert (H : forall (f : nat -> N) l, (forall a b, f a = f b -> a = b) -> NoDup l -> NoDup (map f l)).
  { intros f l Hinj Hl. induction Hl as [|x l Hx Hl IH]; [constructor|]. cbn [map]. constructor; [|exact IH].
    intros Hin. apply in_map_iff in Hin. destruct Hin as [y [Hy Hin]]. apply Hinj in Hy. subst. contradiction. }
  destruct c as [n|]; [rewrite msg_ids_from|rewrite msg_ids_fresh]; apply H; try apply seq_NoDup; intros a b E; lia.
Qed.
