From PND Require Import Lib.Base Lib.Text Proofs.BaseProofs.

Lemma beq_bytes_eq (a : bytes) : forall b, beq_bytes a b = true -> a = b.
Proof.
  induction a as [|x a IH]; intros [|y b] H; try discriminate; [reflexivity|].
  cbn [beq_bytes] in H. apply andb_prop in H. destruct H as [H1 H2].
  apply N.eqb_eq in H1. subst y. f_equal. apply IH. exact H2.
Qed.

Lemma beq_bytes_refl (a : bytes) : beq_bytes a a = true.
Proof. induction a as [|x a IH]; [reflexivity|]. cbn [beq_bytes]. rewrite N.eqb_refl. exact IH. Qed.

Lemma ascii_utf8 (t : bytes) : is_ascii t = true -> utf8_valid t = true.
Proof.
  induction t as [|a r IH]; intros H; [reflexivity|].
  cbn [is_ascii forallb] in H. apply andb_prop in H. destruct H as [Ha Hr].
  cbn [utf8_valid]. rewrite Ha. apply IH. exact Hr.
Qed.

(* ---- stripping -------------------------------------------------------- *)
Lemma lstrip_repeat (p : N -> bool) (z : N) (k : nat) (l : bytes) :
  p z = true -> lstrip p (repeat z k ++ l) = lstrip p l.
Proof.
  intros Hz. induction k as [|k IH]; [reflexivity|].
  cbn [repeat app lstrip]. rewrite Hz. exact IH.
Qed.

Lemma rev_repeat {A} (z : A) (k : nat) : rev (repeat z k) = repeat z k.
Proof.
  induction k as [|k IH]; [reflexivity|].
  cbn [repeat rev]. rewrite IH. clear IH.
  induction k as [|k IH]; [reflexivity|]. cbn [repeat app]. rewrite IH. reflexivity.
Qed.

Lemma rstrip_repeat (p : N -> bool) (z : N) (k : nat) (l : bytes) :
  p z = true -> rstrip p (l ++ repeat z k) = rstrip p l.
Proof.
  intros Hz. unfold rstrip. rewrite rev_app_distr, rev_repeat, lstrip_repeat by exact Hz. reflexivity.
Qed.

Lemma strip_repeat (p : N -> bool) (z : N) (k : nat) (l : bytes) :
  p z = true -> strip p (l ++ repeat z k) = strip p l.
Proof. intros Hz. unfold strip. rewrite rstrip_repeat by exact Hz. reflexivity. Qed.

Lemma take_app_repeat (t : bytes) (z : N) (n k : nat) :
  (length t <= n)%nat -> (n <= length t + k)%nat ->
  firstn n (t ++ repeat z k) = t ++ repeat z (n - length t).
Proof.
  intros H1 H2. rewrite firstn_app.
  rewrite firstn_all2 by lia. f_equal.
  remember (n - length t)%nat as j eqn:Ej. assert (Hj : (j <= k)%nat) by lia. clear - Hj.
  revert k Hj. induction j as [|j IH]; intros k Hj; [reflexivity|].
  destruct k as [|k]; [lia|]. cbn [repeat firstn]. f_equal. apply IH. lia.
Qed.
