From PND Require Import Lib.Base Model.Negotiation Model.Dimse Proofs.NegotiationProofs Proofs.DimseProofs.

Lemma every_message_within : forall (lim ann : N) (cmd data : bytes) (pc : N),
  DimseProofs.legal_max lim -> (ann <> 0 -> lim <> 0 /\ lim <= ann) ->
  exists cs ds,
    dimse_encode cmd data pc lim = Ok (cs ++ ds)
    /\ concat_payload cs = cmd /\ concat_payload ds = data
    /\ Forall (fun f => ann = 0 \/ frag_pdu_length f <= ann) (cs ++ ds).
Proof.
  intros lim ann cmd data pc Hl Hann.
  exists (mk_frags pc (map (tag 1 3) (chunks (eff_max lim - 6) cmd))),
         (mk_frags pc (map (tag 0 2) (chunks (eff_max lim - 6) data))).
  split; [exact (dimse_encode_ok cmd data pc lim Hl)|].
  pose proof (eff_max_legal lim Hl) as H7.
  destruct (stream_of_chunks pc (eff_max lim) 1 3 cmd H7 ltac:(discriminate)) as [Hc1 [Hc2 _]].
  destruct (stream_of_chunks pc (eff_max lim) 0 2 data H7 ltac:(discriminate)) as [Hd1 [Hd2 _]].
  split; [exact Hc2|]. split; [exact Hd2|].
  apply Forall_app. split.
  - eapply Forall_impl; [|exact Hc1]. intros f [Hf _].
    destruct (N.eq_dec ann 0) as [->|Hn]; [left; reflexivity|right].
    destruct (Hann Hn) as [Hnz Hle]. rewrite eff_max_id in Hf by (destruct Hl; lia). lia.
  - eapply Forall_impl; [|exact Hd1]. intros f [Hf _].
    destruct (N.eq_dec ann 0) as [->|Hn]; [left; reflexivity|right].
    destruct (Hann Hn) as [Hnz Hle]. rewrite eff_max_id in Hf by (destruct Hl; lia). lia.
Qed.

(* both directions at once: after negotiating from ANY pair of configured maxima, EVERY message either
   side sends is complete and stays within what the other side announced *)
Lemma both_directions_within (own_r own_a : N) (cmd data : bytes) (pc : N) :
  NegotiationProofs.legal_max own_r -> NegotiationProofs.legal_max own_a ->
  let n := negotiate own_r own_a in
  (exists cs ds, dimse_encode cmd data pc (lim_r n) = Ok (cs ++ ds)
     /\ concat_payload cs = cmd /\ concat_payload ds = data
     /\ Forall (fun f => ann_a n = 0 \/ frag_pdu_length f <= ann_a n) (cs ++ ds))
  /\ (exists cs ds, dimse_encode cmd data pc (lim_a n) = Ok (cs ++ ds)
     /\ concat_payload cs = cmd /\ concat_payload ds = data
     /\ Forall (fun f => ann_r n = 0 \/ frag_pdu_length f <= ann_r n) (cs ++ ds)).
Proof.
  intros Hr Ha n. destruct (negotiate_spec own_r own_a Hr Ha) as [_ [_ [_ [H1 [H2 [L1 L2]]]]]].
  split; apply every_message_within; assumption.
Qed.
