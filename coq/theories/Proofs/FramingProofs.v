From PND Require Import Lib.Base Lib.Text Model.Pdu Model.Provider Model.Framing Proofs.BaseProofs.
Local Opaque take drop.

Lemma frame_of_some (buf f rest : bytes) : frame_of buf = Some (f, rest) ->
  buf = f ++ rest /\ 6 <= lenN f.
Proof.
  unfold frame_of. destruct buf as [|x0 [|x1 [|a [|b [|c [|d r]]]]]]; try discriminate.
  set (full := un32 a b c d + 6). set (B := x0 :: x1 :: a :: b :: c :: d :: r).
  destruct (N.ltb_spec (lenN B) full) as [Hlt|Hge]; [discriminate|].
  intros H. injection H as <- <-. split; [symmetry; apply take_drop|].
  rewrite lenN_take. subst full. lia.
Qed.

Lemma frame_of_app (a b f rest : bytes) : frame_of a = Some (f, rest) ->
  frame_of (a ++ b) = Some (f, rest ++ b).
Proof.
  unfold frame_of. destruct a as [|x0 [|x1 [|p [|q [|r [|s t]]]]]]; try discriminate.
  cbn [app]. set (full := un32 p q r s + 6).
  set (A := x0 :: x1 :: p :: q :: r :: s :: t).
  change (x0 :: x1 :: p :: q :: r :: s :: t ++ b) with (A ++ b).
  destruct (N.ltb_spec (lenN A) full) as [Hlt|Hge]; [discriminate|].
  intros H. injection H as <- <-.
  destruct (N.ltb_spec (lenN (A ++ b)) full) as [Hlt2|_]; [rewrite lenN_app in Hlt2; lia|].
  rewrite !take_firstn, !drop_skipn.
  assert (Hn : (N.to_nat full <= length A)%nat) by (unfold lenN in Hge; lia).
  rewrite firstn_app, skipn_app.
  replace (N.to_nat full - length A)%nat with 0%nat by lia.
  cbn [firstn skipn]. rewrite app_nil_r. reflexivity.
Qed.

Lemma frames_fuel_none fuel buf : frame_of buf = None -> frames_fuel fuel buf = ([], buf).
Proof. intros H. destruct fuel; [reflexivity|]. cbn [frames_fuel]. rewrite H. reflexivity. Qed.

Lemma length_rest (buf f rest : bytes) : frame_of buf = Some (f, rest) -> (length rest + 6 <= length buf)%nat.
Proof.
  intros H. apply frame_of_some in H. destruct H as [-> H6]. rewrite app_length. unfold lenN in H6. lia.
Qed.

(* enough fuel is enough *)
Lemma frames_fuel_enough : forall f1 f2 buf, (length buf < f1)%nat -> (length buf < f2)%nat ->
  frames_fuel f1 buf = frames_fuel f2 buf.
Proof.
  induction f1 as [|f1 IH]; intros f2 buf H1 H2; [lia|].
  destruct f2 as [|f2]; [lia|]. cbn [frames_fuel].
  destruct (frame_of buf) as [[fr rest]|] eqn:E; [|reflexivity].
  pose proof (length_rest _ _ _ E) as Hl.
  rewrite (IH f2 rest) by lia. reflexivity.
Qed.

Lemma frames_unfold buf : frames buf =
  match frame_of buf with
  | Some (fr, rest) => let (fs, r) := frames rest in (fr :: fs, r)
  | None => ([], buf)
  end.
Proof.
  unfold frames at 1. cbn [frames_fuel].
  destruct (frame_of buf) as [[fr rest]|] eqn:E; [|reflexivity].
  pose proof (length_rest _ _ _ E) as Hl.
  unfold frames. rewrite (frames_fuel_enough (length buf) (S (length rest)) rest) by lia. reflexivity.
Qed.

(* the leftover of `frames` holds no complete frame *)
Lemma frames_leftover : forall n buf, (length buf < n)%nat -> frame_of (snd (frames buf)) = None.
Proof.
  induction n as [|n IH]; intros buf Hn; [lia|].
  rewrite frames_unfold. destruct (frame_of buf) as [[fr rest]|] eqn:E; [|exact E].
  pose proof (length_rest _ _ _ E) as Hl. specialize (IH rest ltac:(lia)).
  destruct (frames rest) as [fs r]. exact IH.
Qed.

(* frames of a ++ b: those of a, then those of (leftover of a) ++ b *)
Lemma frames_app : forall n a b, (length a < n)%nat ->
  frames (a ++ b) =
  (let (fs, r) := frames a in let (gs, r') := frames (r ++ b) in (fs ++ gs, r')).
Proof.
  induction n as [|n IH]; intros a b Hn; [lia|].
  rewrite (frames_unfold a).
  destruct (frame_of a) as [[fr rest]|] eqn:E.
  - rewrite (frames_unfold (a ++ b)), (frame_of_app a b fr rest E).
    pose proof (length_rest _ _ _ E) as Hl.
    rewrite (IH rest b) by lia.
    destruct (frames rest) as [fs r]. destruct (frames (r ++ b)) as [gs r']. reflexivity.
  - cbn [app]. destruct (frames (a ++ b)) as [gs r']. reflexivity.
Qed.

Lemma frames_app' a b :
  frames (a ++ b) = (let (fs, r) := frames a in let (gs, r') := frames (r ++ b) in (fs ++ gs, r')).
Proof. apply (frames_app (S (length a))). lia. Qed.

(* feeding any partition of a stream yields the frames of the whole stream, in order, and the same
   leftover: no byte lost, duplicated or reordered *)
Lemma feed_frames : forall segs buf, frame_of buf = None ->
  feed buf segs = frames (buf ++ concat segs).
Proof.
  induction segs as [|s segs IH]; intros buf Hb.
  - cbn [feed concat]. rewrite app_nil_r. reflexivity.
  - cbn [feed concat]. rewrite app_assoc. rewrite (frames_app' (buf ++ s) (concat segs)).
    pose proof (frames_leftover (S (length (buf ++ s))) (buf ++ s) ltac:(lia)) as Hl.
    destruct (frames (buf ++ s)) as [fs b']. cbn [snd] in Hl.
    rewrite (IH b' Hl). reflexivity.
Qed.

Theorem feed_any_partition (segs : list bytes) : feed [] segs = frames (concat segs).
Proof. apply feed_frames. reflexivity. Qed.

Corollary partition_independent (segs1 segs2 : list bytes) :
  concat segs1 = concat segs2 -> feed [] segs1 = feed [] segs2.
Proof. intros H. rewrite !feed_any_partition, H. reflexivity. Qed.
