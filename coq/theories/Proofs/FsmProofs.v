(* Proofs/FsmProofs.v — invariants of the control model for ALL input sequences of ANY length:
   the set `reach` of control states is computed (vm_compute), shown to contain the initial states
   and to be closed under `cstep` for every legal input (a finite check by reflection), hence — by
   induction over the input sequence — it contains every reachable state; properties checked on
   `reach` (and on every step out of it) therefore hold along every history. *)
From PND Require Import Lib.Base Spec.Ps38Table Model.Fsm.

(* ---- decidable equality -------------------------------------------------------------------- *)
Definition beq_src (a b : asrc) : bool :=
  match a, b with S0, S0 | S2, S2 | SOther, SOther => true | _, _ => false end.
Definition beq_kind (a b : kind) : bool :=
  match a, b with
  | KNone, KNone | KRq, KRq | KAc, KAc | KRj, KRj | KData, KData | KRelRq, KRelRq | KRelRp, KRelRp => true
  | KAbort x, KAbort y => beq_src x y
  | _, _ => false
  end.
Definition beq_outcome (a b : outcome) : bool :=
  match a, b with Running, Running | Returned, Returned | Crashed, Crashed => true | _, _ => false end.
Definition beq_optN (a b : option N) : bool :=
  match a, b with Some x, Some y => x =? y | None, None => true | _, _ => false end.
Definition beq_ctrl (a b : ctrl) : bool :=
  (c_st a =? c_st b) && Bool.eqb (c_sock a) (c_sock b) && Bool.eqb (c_tmr a) (c_tmr b)
  && beq_optN (c_pend a) (c_pend b) && beq_kind (c_pk a) (c_pk b) && Bool.eqb (c_gen a) (c_gen b)
  && Bool.eqb (c_rcv a) (c_rcv b) && Bool.eqb (c_req a) (c_req b) && beq_outcome (c_out a) (c_out b).

Lemma beq_src_eq a b : beq_src a b = true -> a = b.
Proof. destruct a, b; simpl; intros; try reflexivity; discriminate. Qed.
Lemma beq_kind_eq a b : beq_kind a b = true -> a = b.
Proof.
  destruct a, b; simpl; intros H; try reflexivity; try discriminate.
  apply beq_src_eq in H. subst. reflexivity.
Qed.
Lemma beq_outcome_eq a b : beq_outcome a b = true -> a = b.
Proof. destruct a, b; simpl; intros; try reflexivity; discriminate. Qed.
Lemma beq_optN_eq a b : beq_optN a b = true -> a = b.
Proof.
  destruct a, b; simpl; intros H; try reflexivity; try discriminate.
  apply N.eqb_eq in H. subst. reflexivity.
Qed.
Lemma beq_ctrl_eq a b : beq_ctrl a b = true -> a = b.
Proof.
  unfold beq_ctrl. intros H.
  repeat match goal with H : _ && _ = true |- _ => apply andb_prop in H; destruct H end.
  destruct a, b; cbn in *.
  repeat match goal with
  | H : (_ =? _) = true |- _ => apply N.eqb_eq in H
  | H : Bool.eqb _ _ = true |- _ => apply Bool.eqb_prop in H
  | H : beq_optN _ _ = true |- _ => apply beq_optN_eq in H
  | H : beq_kind _ _ = true |- _ => apply beq_kind_eq in H
  | H : beq_outcome _ _ = true |- _ => apply beq_outcome_eq in H
  end. subst. reflexivity.
Qed.

Definition mem (c : ctrl) (l : list ctrl) : bool := existsb (beq_ctrl c) l.
Lemma mem_In c l : mem c l = true -> In c l.
Proof.
  unfold mem. intros H. apply existsb_exists in H. destruct H as [x [Hin He]].
  apply beq_ctrl_eq in He. subst. exact Hin.
Qed.

(* ---- legal inputs: what the environment can deliver ------------------------------------------ *)
(* the user hands the provider PDUs of a known type or non-empty DIMSE fragment generators
   (C06: a message encoded with a maximum length >= 7 has at least one fragment) *)
Definition legal_kind (k : kind) : bool := match k with KNone => false | _ => true end.
Definition legal_input (i : input) : bool :=
  negb (i_kill i) &&
  match i_net i with NPdu k => legal_kind k | _ => true end
  && match i_usr i with UPdu k => legal_kind k | UMsgEmpty => false | _ => true end.

Definition forall_inputs (P : input -> bool) : bool := forallb P all_inputs.

Lemma legal_in_all (i : input) : legal_input i = true -> In i all_inputs.
Proof.
  destruct i as [k n u g x d]. unfold legal_input. cbn [i_net i_usr]. intros H.
  apply andb_prop in H. destruct H as [Hk Hu]. apply andb_prop in Hk. destruct Hk as [Hk Hn].
  cbn [i_kill] in Hk. destruct k; [discriminate|].
  unfold all_inputs.
  apply in_flat_map. exists n. split.
  { destruct n as [| | | |kk]; try (simpl; tauto).
    destruct kk as [| | | | | | |s]; try discriminate; try (simpl; tauto). destruct s; simpl; tauto. }
  apply in_flat_map. exists u. split.
  { destruct u as [|kk| |]; try discriminate; try (simpl; tauto).
    destruct kk as [| | | | | | |s]; try discriminate; try (simpl; tauto). destruct s; simpl; tauto. }
  apply in_flat_map. exists g. split; [destruct g; simpl; tauto|].
  apply in_flat_map. exists x. split; [destruct x; simpl; tauto|].
  apply in_map_iff. exists d. split; [reflexivity|destruct d; simpl; tauto].
Qed.

(* ---- reachable set by breadth-first search ---------------------------------------------------- *)
Fixpoint dedupe (l acc : list ctrl) : list ctrl :=
  match l with
  | [] => acc
  | c :: r => if mem c acc then dedupe r acc else dedupe r (c :: acc)
  end.

Lemma dedupe_in (l : list ctrl) : forall acc x, In x l \/ In x acc -> In x (dedupe l acc).
Proof.
  induction l as [|c r IH]; intros acc x H.
  - destruct H as [[]|H]; exact H.
  - cbn [dedupe]. destruct (mem c acc) eqn:E.
    + apply IH. destruct H as [[->|H]|H]; [right; apply mem_In; exact E|left; exact H|right; exact H].
    + apply IH. destruct H as [[->|H]|H]; [right; left; reflexivity|left; exact H|right; right; exact H].
Qed.

(* the distinct successors of a control state over all legal inputs *)
Definition succs (c : ctrl) : list ctrl := dedupe (map (fun i => fst (cstep c i)) all_inputs) [].

Lemma succs_complete c i : legal_input i = true -> In (fst (cstep c i)) (succs c).
Proof.
  intros H. unfold succs. apply dedupe_in. left.
  apply in_map_iff. exists i. split; [reflexivity|apply legal_in_all; exact H].
Qed.

Fixpoint add_new (cs : list ctrl) (seen : list ctrl) : list ctrl * list ctrl :=
  match cs with
  | [] => ([], seen)
  | c :: r => if mem c seen then add_new r seen
              else let (n, s) := add_new r (c :: seen) in (c :: n, s)
  end.

Fixpoint bfs (fuel : nat) (frontier seen : list ctrl) : list ctrl :=
  match fuel with
  | O => seen
  | S f =>
    match frontier with
    | [] => seen
    | _ =>
      let (new, seen') := add_new (flat_map succs frontier) seen in
      bfs f new seen'
    end
  end.

Definition reach : list ctrl :=
  Eval vm_compute in bfs 40 [init true; init false] [init true; init false].

Definition closed (R : list ctrl) : bool :=
  forallb (fun c => forallb (fun c' => mem c' R) (succs c)) R.

Lemma reach_closed : closed reach = true.
Proof. vm_compute. reflexivity. Qed.

Lemma reach_init r : In (init r) reach.
Proof. destruct r; apply mem_In; vm_compute; reflexivity. Qed.

Definition run (c : ctrl) (is : list input) : ctrl := fold_left (fun c i => fst (cstep c i)) is c.

Lemma step_in_reach c i : In c reach -> legal_input i = true -> In (fst (cstep c i)) reach.
Proof.
  intros Hc Hi. pose proof reach_closed as H. unfold closed in H. rewrite forallb_forall in H.
  specialize (H c Hc). rewrite forallb_forall in H.
  apply mem_In. apply H. apply succs_complete. exact Hi.
Qed.

Lemma run_in_reach is : forall c, In c reach -> forallb legal_input is = true -> In (run c is) reach.
Proof.
  induction is as [|i is IH]; intros c Hc Hl; [exact Hc|].
  cbn [forallb] in Hl. apply andb_prop in Hl. destruct Hl as [Hi Hl].
  cbn [run fold_left]. apply IH; [apply step_in_reach; assumption|exact Hl].
Qed.

(* every history, of any length, from either initial state *)
Theorem reachable_in_reach (r : bool) (is : list input) :
  forallb legal_input is = true -> In (run (init r) is) reach.
Proof. intros H. apply run_in_reach; [apply reach_init|exact H]. Qed.

(* ---- invariants --------------------------------------------------------------------------------- *)
Definition in_states (l : list N) (s : N) : bool := existsb (N.eqb s) l.

Definition inv_state (c : ctrl) : bool :=
  (* the loop never dies from an unhandled error *)
  negb (beq_outcome (c_out c) Crashed)
  (* ARTIM runs exactly while awaiting the first PDU (Sta2) or the peer's close (Sta13) *)
  && Bool.eqb (c_tmr c) (in_states [2; 13] (c_st c))
  (* an idle provider has closed its connection (the acceptor's not yet processed transport
     indication excepted), and a provider that is not idle has one *)
  && (if c_st c =? 1 then negb (c_sock c) || beq_optN (c_pend c) (Some 5) else c_sock c)
  (* the event deque is empty except for the initial transport indication *)
  && (beq_optN (c_pend c) None || (beq_optN (c_pend c) (Some 5) && (c_st c =? 1)))
  && true.

Definition is_ind (o : output) : bool :=
  match o with OInd _ _ | OIndData => true | _ => false end.
Definition beq_output_senddata (o : output) : bool :=
  match o with OSend KData _ => true | _ => false end.
Definition beq_output_inddata (o : output) : bool :=
  match o with OIndData => true | _ => false end.

Definition inv_step (c : ctrl) (i : input) : bool :=
  let outs := snd (cstep c i) in
  (* P-DATA is sent only in Sta6 / Sta8 and indicated only in Sta6 / Sta7 *)
  (negb (existsb beq_output_senddata outs) || in_states [6; 8] (c_st c))
  && (negb (existsb beq_output_inddata outs) || in_states [6; 7] (c_st c))
  (* once the association is over (Sta13) or there is none (Sta1), nothing is indicated *)
  && (negb (in_states [1; 13] (c_st c)) || negb (existsb is_ind outs)).

(* a stop request is honoured at the next iteration head, in every state *)
Lemma kill_returns (c : ctrl) (i : input) : c_out c = Running -> i_kill i = true ->
  c_out (fst (cstep c i)) = Returned /\ snd (cstep c i) = [].
Proof.
  intros Hr Hk. destruct c as [st so tm pe pk ge rc rq ou]. destruct i as [k n u g x d].
  cbn [c_out i_kill] in Hr, Hk. subst ou k. split; reflexivity.
Qed.

Lemma reach_inv_state : forallb inv_state reach = true.
Proof. vm_compute. reflexivity. Qed.

Lemma reach_inv_step : forallb (fun c => forall_inputs (inv_step c)) reach = true.
Proof. vm_compute. reflexivity. Qed.

(* ---- termination of every ending ---------------------------------------------------------------- *)
Definition at_rest (c : ctrl) : bool := (c_st c =? 1) && negb (c_sock c) && negb (c_tmr c).

(* the peer's close (EOF at every network poll) brings any running provider to rest in <= 2
   iterations, whatever else happens in them *)
Definition eof_inputs : list input :=
  flat_map (fun u => flat_map (fun g => flat_map (fun x => map (fun d => mkin false NEof u g x d) all_dec)
    [true; false]) all_gen) all_usr.
Definition after_eof (c : ctrl) : bool :=
  negb (c_sock c) || negb (beq_outcome (c_out c) Running)
  || forallb (fun c1 => at_rest c1 || forallb (fun j => at_rest (fst (cstep c1 j))) eof_inputs)
             (dedupe (map (fun i => fst (cstep c i)) eof_inputs) []).

Lemma reach_eof : forallb after_eof reach = true.
Proof. vm_compute. reflexivity. Qed.

(* ARTIM expiry with a quiet user closes the connection in one iteration *)
Definition quiet_expired : input := mkin false NNone UNone GEnd true DIncomplete.
Definition after_artim (c : ctrl) : bool :=
  negb (in_states [2; 13] (c_st c)) || negb (beq_outcome (c_out c) Running)
  || at_rest (fst (cstep c quiet_expired)).
Lemma reach_artim : forallb after_artim reach = true.
Proof. vm_compute. reflexivity. Qed.
