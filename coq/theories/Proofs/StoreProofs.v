(* Proofs/StoreProofs.v — C-STORE end to end as a composition of the fragmentation (C06), codec (C01)
   and reassembly (C07) theorems and of the storage provider's response (C17). *)
From PND Require Import Lib.Base Lib.Text Model.Pdu Model.PduWf Model.CmdSet Model.Decoder Model.Dimse
  Model.Services Corr.CorrDecoder Proofs.BaseProofs Proofs.PduProofs Proofs.DimseProofs
  Proofs.DecoderProofs Proofs.DecoderProofs2 Proofs.ServicesProofs.

Lemma concat_singletons {A} (l : list A) : concat (map (fun x => [x]) l) = l.
Proof. induction l as [|x r IH]; [reflexivity|]. cbn [map concat app]. rewrite IH. reflexivity. Qed.

Lemma chunks_nonempty sz src : 1 <= sz -> src <> [] -> chunks sz src <> [].
Proof.
  intros Hs Hne H. pose proof (chunks_fuel_hasnext sz Hs (length src) src (le_n _) Hne) as Hh.
  unfold chunks in H. rewrite H in Hh. discriminate.
Qed.

(* every fragment travels as its own P-DATA-TF PDU and is decoded back to exactly that PDV *)
Lemma fragment_pdu_roundtrip (f : frag) : f_ctx f < 256 -> lenN (f_payload f) + 8 < 4294967296 ->
  decode_as 4 (encode (PData 0 [pdv_of_frag f])) = Ok (PData 0 [pdv_of_frag f]).
Proof.
  intros Hc Hl. apply (decode_encode (PData 0 [pdv_of_frag f])).
  unfold wf_pdu, packable, b8, b32, pdu_length, sum_map, pdv_total_length.
  cbn [fold_right pdv_of_frag pdv_data pdv_ctx forallb]. rewrite lenN_cons.
  repeat (apply andb_true_intro; split); try reflexivity; apply N.ltb_lt; lia.
Qed.

(* the data set reaches the storage provider's handler intact, whatever its size relative to the
   maximum length in force, in memory or after the file meta header *)
Theorem store_data_intact env cmd data pc cf elems ue m fs :
  wf_message env cmd data pc cf elems ue -> cmd <> [] -> legal_max m ->
  dimse_encode cmd data pc m = Ok fs ->
  snd (feed env d_init (map (fun f => [pdv_of_frag f]) fs))
  = Some (match file_for env data elems ue with
          | Some prefix => DMsg cf cmd (prefix ++ data) true pc
          | None => DMsg cf cmd data false pc
          end).
Proof.
  intros W Hc Hm He.
  assert (Hfs : fs <> []).
  { rewrite dimse_encode_ok in He by exact Hm. injection He as <-.
    pose proof (eff_max_legal m Hm) as H7.
    pose proof (chunks_nonempty (eff_max m - 6) cmd ltac:(lia) Hc) as Hn.
    destruct (chunks (eff_max m - 6) cmd); [contradiction|]. discriminate. }
  rewrite (reassembly_any_grouping env cmd data pc cf elems ue m fs
             (map (fun f => [pdv_of_frag f]) fs) W Hc Hm He).
  - reflexivity.
  - destruct fs; [contradiction|discriminate].
  - apply Forall_forall. intros g Hg. apply in_map_iff in Hg. destruct Hg as [f [<- _]]. discriminate.
  - rewrite <- map_map with (f := pdv_of_frag) (g := fun x => [x]). apply concat_singletons.
Qed.
