From PND Require Import Lib.Base Lib.Text Model.CmdSet Proofs.BaseProofs.
From PND Require Import Model.CmdMsg.

Fixpoint asc (l : list field) : bool :=
  match l with
  | (a, _) :: (((b, _) :: _) as r) => (a <? b) && asc r
  | _ => true
  end.

Fixpoint get (e : N) (l : list field) : option cval :=
  match l with
  | [] => None
  | (e', v) :: r => if e =? e' then Some v else get e r
  end.

Definition lower_bound (e : N) (l : list field) : Prop :=
  match l with (a, _) :: _ => e < a | [] => True end.

Lemma asc_cons a v l : asc ((a, v) :: l) = true <-> lower_bound a l /\ asc l = true.
Proof.
  destruct l as [|[b w] r]; cbn [asc lower_bound].
  - split; [intros _; split; [exact I|reflexivity]|reflexivity].
  - rewrite andb_true_iff, N.ltb_lt. reflexivity.
Qed.

Lemma put_lower e v l a : a < e -> lower_bound a l -> lower_bound a (put e v l).
Proof.
  intros Hae Hl. destruct l as [|[b w] r]; cbn [put lower_bound]; [exact Hae|].
  destruct (N.eqb_spec e b); [cbn [lower_bound]; exact Hae|].
  destruct (N.ltb_spec e b); cbn [lower_bound]; [exact Hae|exact Hl].
Qed.

Lemma asc_put e v l : asc l = true -> asc (put e v l) = true.
Proof.
  induction l as [|[b w] r IH]; intros H; [reflexivity|].
  cbn [put]. apply asc_cons in H. destruct H as [Hlb Hr].
  destruct (N.eqb_spec e b) as [->|Hne].
  - apply asc_cons. split; assumption.
  - destruct (N.ltb_spec e b) as [Hlt|Hge].
    + apply asc_cons. split; [cbn [lower_bound]; exact Hlt|]. apply asc_cons. split; assumption.
    + apply asc_cons. split; [apply put_lower; [lia|exact Hlb]|apply IH; exact Hr].
Qed.

Lemma get_put_same e v l : get e (put e v l) = Some v.
Proof.
  induction l as [|[b w] r IH]; cbn [put get]; [rewrite N.eqb_refl; reflexivity|].
  destruct (N.eqb_spec e b) as [->|Hne]; [cbn [get]; rewrite N.eqb_refl; reflexivity|].
  destruct (N.ltb_spec e b); cbn [get]; [rewrite N.eqb_refl; reflexivity|].
  destruct (N.eqb_spec e b); [contradiction|exact IH].
Qed.

Lemma get_put_other e e' v l : e <> e' -> get e (put e' v l) = get e l.
Proof.
  intros Hne. induction l as [|[b w] r IH]; cbn [put get].
  - destruct (N.eqb_spec e e'); [contradiction|reflexivity].
  - destruct (N.eqb_spec e' b) as [->|Hb].
    + cbn [get]. destruct (N.eqb_spec e b); [contradiction|reflexivity].
    + destruct (N.ltb_spec e' b); cbn [get].
      * destruct (N.eqb_spec e e'); [contradiction|reflexivity].
      * destruct (N.eqb_spec e b); [reflexivity|exact IH].
Qed.

(* ---- the group length ------------------------------------------------------------------------ *)
Definition drop0 (l : list field) : list field :=
  match l with (e, _) :: r => if e =? 0 then r else l | [] => [] end.

Lemma put0 v l : put 0 v l = (0, v) :: drop0 l.
Proof.
  destruct l as [|[b w] r]; cbn [put drop0]; [reflexivity|].
  destruct (N.eqb_spec 0 b) as [<-|Hne]; [reflexivity|].
  destruct (N.eqb_spec b 0); [congruence|].
  destruct (N.ltb_spec 0 b); [reflexivity|lia].
Qed.

Definition all_nonzero (l : list field) : Prop := Forall (fun f => fst f <> 0) l.

Lemma asc_tail_nonzero a v l : asc ((a, v) :: l) = true -> all_nonzero l.
Proof.
  revert a v. induction l as [|[b w] r IH]; intros a v H; [constructor|].
  apply asc_cons in H. destruct H as [Hlb Hr]. cbn [lower_bound] in Hlb.
  constructor; [cbn [fst]; lia|]. apply (IH b w). exact Hr.
Qed.

Lemma drop0_nonzero l : asc l = true -> all_nonzero (drop0 l).
Proof.
  intros H. destruct l as [|[b w] r]; [constructor|]. cbn [drop0].
  destruct (N.eqb_spec b 0) as [->|Hne]; [apply (asc_tail_nonzero 0 w); exact H|].
  constructor; [exact Hne|apply (asc_tail_nonzero b w); exact H].
Qed.

Definition total_length (l : list field) : N :=
  fold_right (fun f acc => lenN (enc_elem (to_elem f)) + acc) 0 l.

Lemma lenN_enc_elems l : lenN (enc_elems (map to_elem l)) = total_length l.
Proof.
  induction l as [|f r IH]; [reflexivity|].
  unfold enc_elems in *. cbn [map concat total_length fold_right]. rewrite lenN_app, IH. reflexivity.
Qed.

Lemma others_nonzero l : all_nonzero l -> others_length l = total_length l.
Proof.
  induction 1 as [|f r Hf Hr IH]; [reflexivity|].
  cbn [others_length total_length fold_right]. fold (others_length r). fold (total_length r).
  destruct (N.eqb_spec (fst f) 0); [contradiction|]. rewrite IH. reflexivity.
Qed.

Lemma others_drop0 l : asc l = true -> others_length l = total_length (drop0 l).
Proof.
  intros H. pose proof (drop0_nonzero l H) as Hnz.
  destruct l as [|[b w] r]; [reflexivity|]. cbn [drop0] in *.
  destruct (N.eqb_spec b 0) as [->|Hne].
  - cbn [others_length fold_right fst]. fold (others_length r). rewrite N.eqb_refl, N.add_0_l.
    apply others_nonzero. exact Hnz.
  - apply others_nonzero. exact Hnz.
Qed.

(* after set_length the command group is the group-length element followed by exactly that many bytes *)
Lemma set_length_layout m : asc (m_fields m) = true ->
  let rest := enc_elems (map to_elem (drop0 (m_fields m))) in
  cmd_bytes (set_length m) = enc_elem (0, 0, le32b (lenN rest)) ++ rest
  /\ asc (m_fields (set_length m)) = true.
Proof.
  intros H. cbv zeta. split.
  - unfold cmd_bytes, set_length. cbn [m_fields]. rewrite put0. unfold enc_elems. cbn [map concat].
    fold (enc_elems (map to_elem (drop0 (m_fields m)))).
    rewrite lenN_enc_elems, <- others_drop0 by exact H. reflexivity.
  - unfold set_length. cbn [m_fields]. apply asc_put. exact H.
Qed.

(* ---- invariants over any sequence of operations ----------------------------------------------- *)
Definition msg_inv (cf : N) (m : msgobj) : Prop :=
  asc (m_fields m) = true
  /\ get 256 (m_fields m) = Some (VUS cf)
  /\ get 2048 (m_fields m) = Some (VUS (if m_data m then 1 else 257)).

Lemma fold_put_inv (others : list N) : forall l,
  asc l = true -> asc (fold_left (fun l e => put e VEmpty l) others l) = true.
Proof.
  induction others as [|e r IH]; intros l H; [exact H|]. cbn [fold_left]. apply IH, asc_put, H.
Qed.

Lemma fold_put_get (others : list N) e : ~ In e others -> forall l,
  get e (fold_left (fun l e => put e VEmpty l) others l) = get e l.
Proof.
  induction others as [|x r IH]; intros Hn l; [reflexivity|].
  cbn [fold_left]. rewrite IH by (intros H; apply Hn; right; exact H).
  apply get_put_other. intros ->. apply Hn. left. reflexivity.
Qed.

Lemma new_msg_inv cf others : ~ In 256 others -> ~ In 2048 others -> msg_inv cf (new_msg cf others).
Proof.
  intros H1 H2. unfold msg_inv, new_msg. cbn [m_fields m_data]. split; [|split].
  - apply fold_put_inv. reflexivity.
  - rewrite fold_put_get by exact H1. reflexivity.
  - rewrite fold_put_get by exact H2. reflexivity.
Qed.

Lemma step_inv cf m o : legal_mop o = true -> msg_inv cf m -> msg_inv cf (fst (step_msg m o)).
Proof.
  intros Hl [Ha [Hc Hd]]. destruct o as [e v|b|]; cbn [step_msg fst].
  - cbn [legal_mop] in Hl. apply negb_true_iff in Hl.
    apply orb_false_elim in Hl. destruct Hl as [Hl H3]. apply orb_false_elim in Hl. destruct Hl as [H1 H2].
    apply N.eqb_neq in H1, H2, H3.
    unfold msg_inv. cbn [m_fields m_data]. split; [apply asc_put; exact Ha|].
    rewrite !get_put_other by congruence. split; assumption.
  - unfold msg_inv. cbn [m_fields m_data]. split; [apply asc_put; exact Ha|].
    rewrite get_put_other by discriminate. rewrite get_put_same. split; [exact Hc|reflexivity].
  - unfold msg_inv, set_length. cbn [m_fields m_data]. split; [apply asc_put; exact Ha|].
    rewrite !get_put_other by discriminate. split; assumption.
Qed.

(* what every transmitted command set looks like *)
Definition send_ok (cf : N) (out : bytes * bool) : Prop :=
  exists fields rest,
    asc fields = true                                          (* ascending tag order *)
    /\ fst out = enc_elems (map to_elem fields)
    /\ fst out = enc_elem (0, 0, le32b (lenN rest)) ++ rest     (* group length = bytes that follow *)
    /\ get 256 fields = Some (VUS cf)                           (* command field of the class *)
    /\ get 2048 fields = Some (VUS (if snd out then 1 else 257)). (* 0101H exactly when no data set *)

Lemma run_msg_ok cf ops : forall m, forallb legal_mop ops = true -> msg_inv cf m ->
  Forall (send_ok cf) (run_msg m ops).
Proof.
  induction ops as [|o r IH]; intros m Hl Hm; [constructor|].
  cbn [forallb] in Hl. apply andb_prop in Hl. destruct Hl as [Ho Hr].
  pose proof (step_inv cf m o Ho Hm) as Hm'.
  cbn [run_msg]. destruct (step_msg m o) as [m' out] eqn:E. cbn [fst] in Hm'.
  destruct out as [x|]; [|apply IH; assumption].
  constructor; [|apply IH; assumption].
  destruct o as [e v|b|]; cbn [step_msg] in E; try discriminate.
  injection E as <- <-.
  destruct Hm as [Ha [Hc Hd]]. destruct (set_length_layout m Ha) as [Hlay Hasc].
  exists (m_fields (set_length m)), (enc_elems (map to_elem (drop0 (m_fields m)))).
  cbn [fst snd]. split; [exact Hasc|]. split; [reflexivity|]. split; [exact Hlay|].
  destruct Hm' as [_ [Hc' Hd']]. split; assumption.
Qed.

(* ---- the strict reader reads every encoded group back ------------------------------------------ *)
Lemma un16le_le16 n : un16le (n mod 256) (n / 256) = n.
Proof. unfold un16le. pose proof (N.div_mod n 256 ltac:(discriminate)). lia. Qed.

Lemma un32le_le32b n :
  un32le (n mod 256) ((n / 256) mod 256) ((n / 65536) mod 256) (n / 16777216) = n.
Proof.
  unfold un32le.
  replace (n / 65536) with (n / 256 / 256) by (rewrite N.div_div by discriminate; reflexivity).
  replace (n / 16777216) with (n / 256 / 256 / 256) by (rewrite !N.div_div by discriminate; reflexivity).
  pose proof (N.div_mod n 256 ltac:(discriminate)).
  pose proof (N.div_mod (n / 256) 256 ltac:(discriminate)).
  pose proof (N.div_mod (n / 256 / 256) 256 ltac:(discriminate)).
  lia.
Qed.

Lemma parse_elems_enc (l : list elem) : forall fuel, (length l < fuel)%nat ->
  parse_elems fuel (enc_elems l) = Ok l.
Proof.
  induction l as [|[[g e] v] r IH]; intros fuel Hf.
  - destruct fuel; [cbn [length] in Hf; lia|]. reflexivity.
  - destruct fuel as [|f]; [cbn [length] in Hf; lia|].
    unfold enc_elems. cbn [map concat]. fold (enc_elems r).
    unfold enc_elem at 1. unfold le16, le32b. cbn [app parse_elems].
    rewrite un32le_le32b.
    destruct (N.ltb_spec (lenN (v ++ enc_elems r)) (lenN v)) as [Hlt|_]; [rewrite lenN_app in Hlt; lia|].
    rewrite take_app_exact, drop_app_exact, !un16le_le16.
    rewrite IH by (cbn [length] in Hf; lia). reflexivity.
Qed.

Lemma length_enc_elem_pos (x : elem) : (1 <= length (enc_elem x))%nat.
Proof. destruct x as [[g e] v]. unfold enc_elem, le16, le32b. rewrite !app_length. cbn [length]. lia. Qed.

Lemma length_enc_elems_ge (l : list elem) : (length l <= length (enc_elems l))%nat.
Proof.
  induction l as [|x r IH]; [cbn; lia|].
  unfold enc_elems in *. cbn [map concat length]. rewrite app_length.
  pose proof (length_enc_elem_pos x). lia.
Qed.

Lemma parse_cmd_enc (l : list elem) : parse_cmd (enc_elems l) = Ok l.
Proof. unfold parse_cmd. apply parse_elems_enc. pose proof (length_enc_elems_ge l). lia. Qed.
