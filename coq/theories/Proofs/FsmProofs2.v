(* Proofs/FsmProofs2.v — further reflective facts over `reach` (kept apart so that the reachable set
   is not recomputed): reaction to undecodable PDUs, the user is told when the association goes. *)
From PND Require Import Lib.Base Spec.Ps38Table Model.Fsm Proofs.FsmProofs Proofs.FsmSpecProofs.

Definition is_send_abort (o : output) : bool :=
  match o with OSend (KAbort _) true => true | _ => false end.
Definition is_ind_abort (o : output) : bool :=
  match o with OInd (KAbort _) true => true | _ => false end.

(* an unrecognised or undecodable PDU (NBad), in any state where PDUs are read, is answered with an
   A-ABORT built by the provider; where an association had been indicated or requested
   (Sta3, Sta5..Sta12) the user also gets a provider-abort indication; the provider ends in Sta13 *)
Definition bad_input (i : input) : input := mkin false NBad (i_usr i) (i_gen i) (i_expired i) (i_dec i).
Definition bad_pdu_aborted (c : ctrl) (i : input) : bool :=
  let (c', outs) := cstep c (bad_input i) in
  negb (running c) || negb (c_sock c) || (c_st c =? 4) || negb (beq_optN (c_pend c) None)
  || (existsb is_send_abort outs && (c_st c' =? 13) && c_tmr c'
      && (negb (in_states [3; 5; 6; 7; 8; 9; 10; 11; 12] (c_st c)) || existsb is_ind_abort outs)).
Lemma reach_bad_pdu : forallb (fun c => forall_inputs (bad_pdu_aborted c)) reach = true.
Proof. vm_compute. reflexivity. Qed.

(* the same when a P-DATA-TF PDU arrives that cannot be reassembled (decoder error) *)
Definition bad_data_input (i : input) : input := mkin false (NPdu KData) (i_usr i) (i_gen i) (i_expired i) DError.
Definition bad_data_aborted (c : ctrl) (i : input) : bool :=
  let (c', outs) := cstep c (bad_data_input i) in
  negb (running c) || negb (c_sock c) || (c_st c =? 4) || negb (beq_optN (c_pend c) None)
  || negb (in_states [2; 3; 5; 6; 7; 8; 9; 10; 11; 12] (c_st c))
  || (existsb is_send_abort outs && (c_st c' =? 13) && c_tmr c').
Lemma reach_bad_data : forallb (fun c => forall_inputs (bad_data_aborted c)) reach = true.
Proof. vm_compute. reflexivity. Qed.

(* whenever something other than the local user's own primitive ends an association the user knows
   of (Sta3, Sta5..Sta12 -> Sta1 / Sta13), the user is told (an indication is issued in that step) *)
Definition user_event (e : N) : bool := in_states [1; 7; 8; 9; 11; 14; 15] e.
Definition dispatched (c : ctrl) (i : input) : option N :=
  match c_pend c with Some e => Some e | None => snd (fst (poll c i)) end.
Definition told_when_gone (c : ctrl) (i : input) : bool :=
  let (c', outs) := cstep c i in
  negb (running c)
  || negb (in_states [3; 5; 6; 7; 8; 9; 10; 11; 12] (c_st c))
  || negb (in_states [1; 13] (c_st c'))
  || match dispatched c i with Some e => user_event e | None => true end
  || existsb is_ind outs.
Lemma reach_told : forallb (fun c => forall_inputs (told_when_gone c)) reach = true.
Proof. vm_compute. reflexivity. Qed.

(* the PDUs the provider builds by itself are well-formed: see Proofs/ProviderTheorems (fresh_wf) *)
