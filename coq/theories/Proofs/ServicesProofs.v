From PND Require Import Lib.Base Lib.Text Model.Services Spec.Ps37Command.

(* a response correlates with its request *)
Definition correlates (q : rq) (r : rsp) : Prop :=
  o_pc r = q_pc q                              (* sent on the context the request arrived on *)
  /\ o_mid r = Some (q_mid q)                   (* Message ID Being Responded To = Message ID *)
  /\ o_sop r = Some (q_sop q)                   (* same SOP class *)
  /\ o_cf r = response_of (q_cf q).             (* response type matching the request type *)

Definition same_instance (q : rq) (r : rsp) : Prop := o_inst r = q_inst q.

Lemma echo_correlates q o : q_cf q = 48 ->
  exists r, echo_scp q o = [r] /\ correlates q r /\ o_status r = Some (status_of o PROCESSING_FAILURE).
Proof. intros H. eexists. split; [reflexivity|]. unfold correlates, response_of. cbn. rewrite H. repeat split. Qed.

Lemma store_correlates q o : q_cf q = 1 ->
  exists r, store_scp q o = [r] /\ correlates q r /\ same_instance q r
            /\ o_status r = Some (status_of o CANNOT_UNDERSTAND).
Proof. intros H. eexists. split; [reflexivity|]. unfold correlates, same_instance, response_of. cbn. rewrite H. repeat split. Qed.

Lemma get_store_rsp_correlates q o : q_cf q = 1 ->
  correlates q (get_scu_store_rsp q o) /\ same_instance q (get_scu_store_rsp q o)
  /\ o_status (get_scu_store_rsp q o) = Some (status_of o UNABLE_TO_PROCESS).
Proof. intros H. unfold correlates, same_instance, response_of. cbn. rewrite H. repeat split. Qed.

Lemma n_action_correlates q o : q_cf q = 304 ->
  exists r, n_action_scp q o = [r] /\ correlates q r
            /\ o_status r = Some (match o with HStatus _ => 0 | HError => PROCESSING_FAILURE end).
Proof. intros H. eexists. split; [reflexivity|]. unfold correlates, response_of. cbn. rewrite H. repeat split. Qed.

Lemma n_event_report_correlates q o : q_cf q = 256 ->
  exists r, n_event_report_scp q o = [r] /\ correlates q r /\ same_instance q r
            /\ o_status r = Some (match o with HStatus _ => 0 | HError => PROCESSING_FAILURE end).
Proof. intros H. eexists. split; [reflexivity|]. unfold correlates, same_instance, response_of. cbn. rewrite H. repeat split. Qed.

(* ---- C-FIND ----------------------------------------------------------------------------------------- *)
Lemma find_scp_correlates q matches : q_cf q = 32 -> Forall (correlates q) (find_scp q matches).
Proof.
  intros H. unfold find_scp. apply Forall_app. split.
  - apply Forall_forall. intros r Hr. apply in_map_iff in Hr. destruct Hr as [m [<- _]].
    unfold correlates, response_of. cbn. rewrite H. repeat split.
  - constructor; [|constructor]. unfold correlates, response_of. cbn. rewrite H. repeat split.
Qed.

Definition rsp_pair (r : rsp) : bytes * N := (o_data r, match o_status r with Some s => s | None => 0 end).

(* what the user receives from a provider that sends `matches` (all pending, non-empty data sets):
   exactly those matches, in order, then one final response without data set, then iteration ends *)
Lemma find_end_to_end q (matches : list (bytes * N)) :
  Forall (fun m => find_pending (snd m) = true /\ fst m <> []) matches ->
  find_scu (map rsp_pair (find_scp q matches))
  = map (fun m => (Some (fst m), snd m)) matches ++ [(None, 0)].
Proof.
  intros H. unfold find_scp. rewrite map_app. cbn [map rsp_pair simple_rsp o_data o_status].
  induction H as [|m r [Hp Hd] Hr IH]; [reflexivity|].
  cbn [map app rsp_pair o_data o_status find_scu]. rewrite Hp.
  destruct (fst m) eqn:E; [contradiction|]. rewrite <- E. f_equal. exact IH.
Qed.

(* the user side alone: whatever follows the first non-pending response is not consumed *)
Lemma find_scu_stops (pend : list (bytes * N)) (final : bytes * N) (rest : list (bytes * N)) :
  Forall (fun m => find_pending (snd m) = true) pend -> find_pending (snd final) = false ->
  find_scu (pend ++ final :: rest) = find_scu (pend ++ [final])
  /\ length (find_scu (pend ++ final :: rest)) = S (length pend).
Proof.
  intros Hp Hf. induction Hp as [|m r Hm Hr IH].
  - cbn [app find_scu]. destruct final as [d s]. cbn [snd] in Hf. rewrite Hf. split; reflexivity.
  - cbn [app find_scu]. destruct m as [d s]. cbn [snd] in Hm. rewrite Hm. destruct IH as [IH1 IH2].
    split; [f_equal; exact IH1|cbn [length]; f_equal; exact IH2].
Qed.

(* ---- C-GET ------------------------------------------------------------------------------------------ *)
Fixpoint stores_of (msgs : list incoming) : list (rq * outcome) :=
  match msgs with
  | [] => []
  | GetRsp _ :: r => stores_of r
  | StoreRq q o :: r => (q, o) :: stores_of r
  end.

Definition all_pending_get (msgs : list incoming) : Prop :=
  Forall (fun m => match m with GetRsp s => get_pending s = true | StoreRq _ _ => True end) msgs.

(* any interleaving of pending C-GET responses and C-STORE requests, ended by a final C-GET response:
   every C-STORE request is answered exactly once, in order, each handled instance is handed over once *)
Lemma get_scu_spec (msgs : list incoming) (final : N) (rest : list incoming) :
  all_pending_get msgs -> get_pending final = false ->
  get_scu (msgs ++ GetRsp final :: rest)
  = (map (fun p => get_scu_store_rsp (fst p) (snd p)) (stores_of msgs),
     map fst (filter (fun p => match snd p with HStatus _ => true | HError => false end) (stores_of msgs))).
Proof.
  intros Hp Hf. induction Hp as [|m r Hm Hr IH].
  - cbn [app get_scu stores_of map filter]. rewrite Hf. reflexivity.
  - destruct m as [s|q o]; cbn [app get_scu stores_of].
    + rewrite Hm. exact IH.
    + rewrite IH. cbn [map filter fst snd]. destruct o; reflexivity.
Qed.

(* ---- C-MOVE ----------------------------------------------------------------------------------------- *)
Definition count (f : subclass -> bool) (l : list subclass) : N := lenN (filter f l).
Definition is_fail s := match s with SubFailure => true | _ => false end.
Definition is_warn s := match s with SubWarning => true | _ => false end.

Lemma lenN_cons' {A} (x : A) l : lenN (x :: l) = lenN l + 1.
Proof. unfold lenN. cbn [length]. lia. Qed.

(* the k-th pending response reports k performed and nop - k remaining; exactly one final response *)
Lemma move_loop_spec q nop : forall subs done failed warned,
  exists pend final,
    move_loop q nop subs done failed warned = pend ++ [final]
    /\ length pend = length subs
    /\ (forall k r, nth_error pend k = Some r ->
          o_status r = Some PENDING /\ o_comp r = Some (done + N.of_nat (S k))
          /\ o_rem r = Some (nop - (done + N.of_nat (S k))))
    /\ o_status final = Some 0 /\ o_comp final = Some (done + lenN subs)
    /\ o_rem final = Some (nop - (done + lenN subs))
    /\ o_fail final = Some (failed + count is_fail subs) /\ o_warn final = Some (warned + count is_warn subs).
Proof.
  induction subs as [|s r IH]; intros done failed warned.
  - exists [], (move_rsp q 0 (nop - done) done failed warned). cbn [move_loop app length].
    split; [reflexivity|]. split; [reflexivity|]. split; [intros k x H; destruct k; discriminate|].
    unfold count. cbn [filter]. change (lenN (@nil subclass)) with 0. rewrite !N.add_0_r. cbn. repeat split.
  - cbn [move_loop].
    destruct (IH (done + 1) (match s with SubFailure => failed + 1 | _ => failed end)
                 (match s with SubWarning => warned + 1 | _ => warned end))
      as [pend [final [He [Hl [Hk [H1 [H2 [H3 [H4 H5]]]]]]]]].
    eexists (_ :: pend), final. rewrite He. split; [reflexivity|]. split; [cbn [length]; f_equal; exact Hl|].
    split.
    + intros k x Hx. destruct k as [|k].
      * cbn [nth_error] in Hx. injection Hx as <-. cbn. repeat split; f_equal; lia.
      * cbn [nth_error] in Hx. destruct (Hk k x Hx) as [Ha [Hb Hc]]. split; [exact Ha|].
        split; [rewrite Hb|rewrite Hc]; f_equal; lia.
    + split; [exact H1|]. rewrite lenN_cons'. split; [rewrite H2; f_equal; lia|]. split; [rewrite H3; f_equal; lia|].
      unfold count in *. destruct s; cbn [filter is_fail is_warn]; rewrite ?lenN_cons';
        split; (rewrite H4 || rewrite H5); f_equal; lia.
Qed.

(* ---- C-MOVE: every response (pending and final) correlates with the request ------------------------ *)
Lemma move_rsp_correlates q st a b c d : q_cf q = 33 -> correlates q (move_rsp q st a b c d).
Proof. intros H. unfold correlates, response_of. cbn. rewrite H. repeat split. Qed.

Lemma move_loop_correlates q nop : q_cf q = 33 -> forall subs done failed warned,
  Forall (correlates q) (move_loop q nop subs done failed warned).
Proof.
  intros H. induction subs as [|s r IH]; intros done failed warned; cbn [move_loop].
  - constructor; [apply move_rsp_correlates; exact H|constructor].
  - constructor; [apply move_rsp_correlates; exact H|apply IH].
Qed.

Lemma move_scp_correlates q nop subs : q_cf q = 33 -> Forall (correlates q) (move_scp q nop subs).
Proof.
  intros H. unfold move_scp. destruct (nop =? 0).
  - constructor; [apply move_rsp_correlates; exact H|constructor].
  - apply move_loop_correlates. exact H.
Qed.

(* ---- every request that reaches a provider is answered: the response list ends with exactly one
        final (non-pending) response, everything before it is pending -------------------------------- *)
Definition final_status (r : rsp) : Prop :=
  match o_status r with Some s => s <> 65280 /\ s <> 65281 | None => False end.
Definition pending_status (r : rsp) : Prop :=
  match o_status r with Some s => s = 65280 \/ s = 65281 | None => False end.

Definition answered (rs : list rsp) : Prop :=
  exists pend final, rs = pend ++ [final] /\ Forall pending_status pend /\ final_status final.

Lemma single_answered r : final_status r -> answered [r].
Proof. intros H. exists [], r. split; [reflexivity|]. split; [constructor|exact H]. Qed.

Lemma find_scp_answered q matches : Forall (fun m => find_pending (snd m) = true) matches ->
  answered (find_scp q matches).
Proof.
  intros Hm. unfold find_scp. eexists _, _. split; [reflexivity|]. split.
  - apply Forall_forall. intros r Hr. apply in_map_iff in Hr. destruct Hr as [m [<- Hin]].
    rewrite Forall_forall in Hm. specialize (Hm m Hin). unfold pending_status, find_pending in *. cbn.
    destruct (N.eqb_spec (snd m) 65280); [left; assumption|].
    destruct (N.eqb_spec (snd m) 65281); [right; assumption|discriminate].
  - unfold final_status. cbn. split; discriminate.
Qed.

Lemma move_scp_answered q nop subs : answered (move_scp q nop subs).
Proof.
  unfold move_scp. destruct (nop =? 0).
  - apply single_answered. unfold final_status. cbn. split; discriminate.
  - destruct (move_loop_spec q nop subs 0 0 0) as [pend [final [He [Hl [Hk [H1 _]]]]]].
    exists pend, final. split; [exact He|]. split.
    + apply Forall_forall. intros r Hr. apply In_nth_error in Hr. destruct Hr as [k Hk'].
      destruct (Hk k r Hk') as [Hs _]. unfold pending_status. rewrite Hs. left. reflexivity.
    + unfold final_status. rewrite H1. split; discriminate.
Qed.

Lemma simple_answered cf q inst st : st <> 65280 -> st <> 65281 -> answered [simple_rsp cf q inst st].
Proof. intros A B. apply single_answered. unfold final_status. cbn. split; assumption. Qed.

(* a handler status that is itself a pending code would make a single response non-final: the
   application's statuses for these services are final ones (success, warning, failure) *)
Definition final_code (c : N) : Prop := c <> 65280 /\ c <> 65281.
Lemma all_answered_for q :
  (forall o, (forall c, o = HStatus c -> final_code c) -> answered (echo_scp q o))
  /\ (forall o, (forall c, o = HStatus c -> final_code c) -> answered (store_scp q o))
  /\ (forall o, answered (n_action_scp q o)) /\ (forall o, answered (n_event_report_scp q o))
  /\ (forall matches, Forall (fun m => find_pending (snd m) = true) matches -> answered (find_scp q matches))
  /\ (forall nop subs, answered (move_scp q nop subs)).
Proof.
  repeat split.
  - intros o Ho. unfold echo_scp. destruct o as [c|]; cbn [status_of].
    + destruct (Ho c eq_refl). apply simple_answered; assumption.
    + apply simple_answered; discriminate.
  - intros o Ho. unfold store_scp. destruct o as [c|]; cbn [status_of].
    + destruct (Ho c eq_refl). apply simple_answered; assumption.
    + apply simple_answered; discriminate.
  - intros o. unfold n_action_scp. destruct o; apply simple_answered; discriminate.
  - intros o. unfold n_event_report_scp. destruct o; apply simple_answered; discriminate.
  - intros matches H. apply find_scp_answered. exact H.
  - intros nop subs. apply move_scp_answered.
Qed.

(* ... and without the restriction to non-empty data sets: a match whose identifier is empty travels as
   a response without data set, reaches the user as (None, status), and does NOT end the iteration *)
Definition opt_data (d : bytes) : option bytes := match d with [] => None | _ => Some d end.
Lemma find_end_to_end_any q (matches : list (bytes * N)) :
  Forall (fun m => find_pending (snd m) = true) matches ->
  find_scu (map rsp_pair (find_scp q matches))
  = map (fun m => (opt_data (fst m), snd m)) matches ++ [(None, 0)].
Proof.
  intros H. unfold find_scp. rewrite map_app. cbn [map rsp_pair simple_rsp o_data o_status].
  induction H as [|m r Hp Hr IH]; [reflexivity|].
  cbn [map app rsp_pair o_data o_status find_scu]. rewrite Hp. unfold opt_data at 1. f_equal. exact IH.
Qed.
