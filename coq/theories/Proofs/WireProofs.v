(* C-STORE over the wire: fragmentation (C06) ; PDU codec (C01) ; TCP segmentation + framing (C03) ;
   reassembly (C07), composed. *)
From PND Require Import Lib.Base Lib.Text Model.Pdu Model.PduWf Spec.Ps38Layout Model.CmdSet Model.Decoder Model.Dimse
  Model.Provider Model.Framing Corr.CorrDecoder
  Proofs.BaseProofs Proofs.PduProofs Proofs.LayoutProofs Proofs.FramingProofs Proofs.DimseProofs
  Proofs.DecoderProofs Proofs.DecoderProofs2 Proofs.StoreProofs Proofs.ConvProofs.

Definition pdu_of_frag (f : frag) : pdu := PData 0 [pdv_of_frag f].

Lemma frag_pdu_wf (f : frag) : f_ctx f < 256 -> lenN (f_payload f) + 8 < 4294967296 ->
  wf_pdu (pdu_of_frag f) = true /\ fixed_lens (pdu_of_frag f) = true.
Proof.
  intros Hc Hl. split; [|reflexivity].
  unfold pdu_of_frag, wf_pdu, packable, b8, b32, pdu_length, sum_map, pdv_total_length.
  cbn [fold_right pdv_of_frag pdv_data pdv_ctx forallb]. rewrite lenN_cons.
  repeat (apply andb_true_intro; split); try reflexivity; apply N.ltb_lt; lia.
Qed.

Lemma fragments_bounded (cmd data : bytes) (pc m : N) fs : legal_max m -> dimse_encode cmd data pc m = Ok fs ->
  Forall (fun f => f_ctx f = pc /\ lenN (f_payload f) + 6 <= eff_max m) fs.
Proof.
  intros Hm He. destruct (fragmentation_spec cmd data pc m Hm) as [cs [ds [He' [[Hc _] [Hd _]]]]].
  rewrite He in He'. injection He' as ->. apply Forall_app. split.
  - eapply Forall_impl; [|exact Hc]. intros f [H1 [H2 _]]. unfold frag_pdu_length in H1. split; assumption.
  - eapply Forall_impl; [|exact Hd]. intros f [H1 [H2 _]]. unfold frag_pdu_length in H1. split; assumption.
Qed.

(* the bytes storage_scu puts on the wire, cut by TCP into ANY segments, are recognised by the receiving
   provider as exactly the P-DATA-TF PDUs sent, each decodes to the fragment it carried, and the
   receiving decoder delivers the message with the identical command set and data set *)
Theorem store_over_the_wire env cmd data pc cf elems ue m fs (segs : list bytes) :
  wf_message env cmd data pc cf elems ue -> cmd <> [] -> legal_max m -> eff_max m + 2 < 4294967296 -> pc < 256 ->
  dimse_encode cmd data pc m = Ok fs ->
  concat segs = concat (map (fun f => encode (pdu_of_frag f)) fs) ->
  Framing.feed [] segs = (map (fun f => encode (pdu_of_frag f)) fs, [])
  /\ Forall (fun f => decode_as 4 (encode (pdu_of_frag f)) = Ok (pdu_of_frag f)) fs
  /\ snd (CorrDecoder.feed env d_init (map (fun f => pdvs_of (Some (pdu_of_frag f))) fs))
     = Some (match file_for env data elems ue with
             | Some prefix => DMsg cf cmd (prefix ++ data) true pc
             | None => DMsg cf cmd data false pc
             end).
Proof.
  intros W Hc Hm Hb Hpc He Hs.
  pose proof (fragments_bounded cmd data pc m fs Hm He) as Hf.
  assert (Hwf : Forall (fun p => wf_pdu p = true /\ fixed_lens p = true) (map pdu_of_frag fs)).
  { apply Forall_forall. intros p Hp. apply in_map_iff in Hp. destruct Hp as [f [<- Hin]].
    rewrite Forall_forall in Hf. destruct (Hf f Hin) as [H1 H2]. apply frag_pdu_wf; lia. }
  split; [|split].
  - rewrite <- (map_map pdu_of_frag encode) in *.
    exact (proj1 (conversation_any_segmentation (map pdu_of_frag fs) segs Hwf Hs)).
  - apply Forall_forall. intros f Hin. rewrite Forall_forall in Hf. destruct (Hf f Hin) as [H1 H2].
    apply fragment_pdu_roundtrip; lia.
  - exact (store_data_intact env cmd data pc cf elems ue m fs W Hc Hm He).
Qed.
