(* the PDV sequence produced by DIMSEMessage.encode for a well-formed message completes the
   decoder exactly at its last PDV, whatever the grouping *)
From PND Require Import Lib.Base Lib.Text Model.Pdu Model.CmdSet Model.Decoder Model.Dimse
  Corr.CorrDecoder Proofs.BaseProofs Proofs.DimseProofs Proofs.DecoderProofs Spec.Ps37Command.

Definition mkpdv (pc ctl : N) (p : bytes) : pdv := {| pdv_ctx := pc; pdv_data := ctl :: p |}.

(* non-breaking runs with the post-loop check passing at every point *)
Inductive nb (env : denv) : dstate -> list pdv -> dstate -> Prop :=
| nb_nil d : post_ok d = true -> nb env d [] d
| nb_cons d v d' vs d'' : post_ok d = true -> step_pdv env d v = Ok (d', false) -> nb env d' vs d'' ->
    nb env d (v :: vs) d''.

Lemma nb_post_start env d vs d' : nb env d vs d' -> post_ok d = true.
Proof. destruct 1; assumption. Qed.
Lemma nb_post_end env d vs d' : nb env d vs d' -> post_ok d' = true.
Proof. induction 1; assumption. Qed.

Lemma nb_loop env d vs d' : nb env d vs d' -> loop_pdvs env d vs = Ok (d', false).
Proof.
  induction 1 as [d Hp|d v d1 vs d2 Hp Hs Hn IH]; [reflexivity|].
  cbn [loop_pdvs]. rewrite Hs. cbn [bind]. exact IH.
Qed.

Lemma nb_app env d a d1 b d2 : nb env d a d1 -> nb env d1 b d2 -> nb env d (a ++ b) d2.
Proof.
  induction 1 as [d Hp|d v d' vs d'' Hp Hs Hn IH]; intros Hb; [exact Hb|].
  cbn [app]. econstructor; [exact Hp|exact Hs|apply IH; exact Hb].
Qed.

Lemma nb_prefix env a : forall d b d2, nb env d (a ++ b) d2 -> exists d1, nb env d a d1.
Proof.
  induction a as [|v a IH]; intros d b d2 H.
  - exists d. constructor. exact (nb_post_start _ _ _ _ H).
  - cbn [app] in H. inversion H as [|? ? d' ? ? Hp Hs Hn]; subst.
    destruct (IH d' b d2 Hn) as [d1 H1]. exists d1. econstructor; eassumption.
Qed.

Lemma split_last {A} (a b W : list A) (x : A) : a ++ b = W ++ [x] -> b <> [] ->
  exists b', b = b' ++ [x] /\ W = a ++ b'.
Proof.
  intros H Hb. destruct (exists_last Hb) as [b' [y Hy]]. subst b.
  rewrite app_assoc in H. apply app_inj_tail in H. destruct H as [H1 H2]. subst. exists b'. split; reflexivity.
Qed.

Lemma completes_intro env d W vlast dW dfin :
  nb env d W dW -> step_pdv env dW vlast = Ok (dfin, true) -> post_ok dfin = true ->
  completes_at_end env d (W ++ [vlast]) dfin.
Proof.
  intros Hn Hs Hp. split; [|split].
  - rewrite loop_app, (nb_loop _ _ _ _ Hn). cbn [loop_pdvs]. rewrite Hs. reflexivity.
  - exact Hp.
  - intros a b Hab Hb. destruct (split_last a b W vlast (eq_sym Hab) Hb) as [b' [-> ->]].
    destruct (nb_prefix env a d b' dW Hn) as [d1 H1].
    exists d1. split; [apply nb_loop; exact H1|exact (nb_post_end _ _ _ _ H1)].
Qed.

(* ---- setters ------------------------------------------------------------------------------- *)
Definition with_pc (d : dstate) (pc : N) : dstate :=
  mkd (d_cmd_recv d) (d_data_recv d) pc (d_cmd d) (d_data d) (d_file d) (d_cf d).
Definition add_cmd (d : dstate) (pc : N) (p : bytes) : dstate :=
  mkd (d_cmd_recv d) (d_data_recv d) pc (d_cmd d ++ p) (d_data d) (d_file d) (d_cf d).
Definition add_data (d : dstate) (pc : N) (p : bytes) : dstate :=
  match d_file d with
  | Some f => mkd (d_cmd_recv d) (d_data_recv d) pc (d_cmd d) (d_data d) (Some (f ++ p)) (d_cf d)
  | None => mkd (d_cmd_recv d) (d_data_recv d) pc (d_cmd d) (d_data d ++ p) None (d_cf d)
  end.

Lemma step_cmd_normal env d pc p : step_pdv env d (mkpdv pc 1 p) = Ok (add_cmd d pc p, false).
Proof. reflexivity. Qed.

Lemma step_data_normal env d pc p : step_pdv env d (mkpdv pc 0 p) = Ok (add_data d pc p, false).
Proof. unfold step_pdv, mkpdv, add_data. cbn [pdv_data pdv_ctx]. cbn. destruct (d_file d); reflexivity. Qed.

(* command fragments flagged "not last": the bytes accumulate *)
Lemma nb_cmd_normals env pc : forall ps d, d_data_recv d = false ->
  nb env d (map (mkpdv pc 1) ps)
     (match ps with [] => d | _ => add_cmd d pc (concat ps) end).
Proof.
  induction ps as [|p r IH]; intros d Hd.
  - constructor. unfold post_ok. rewrite Hd. reflexivity.
  - cbn [map]. econstructor; [unfold post_ok; rewrite Hd; reflexivity|apply step_cmd_normal|].
    specialize (IH (add_cmd d pc p) Hd).
    destruct r as [|q r'].
    + cbn [map concat] in *. replace (p ++ []) with p by (symmetry; apply List.app_nil_r). exact IH.
    + replace (add_cmd d pc (concat (p :: q :: r'))) with (add_cmd (add_cmd d pc p) pc (concat (q :: r'))).
      * exact IH.
      * unfold add_cmd. cbn [d_cmd_recv d_data_recv d_cmd d_data d_file d_cf concat]. rewrite <- app_assoc. reflexivity.
Qed.

Lemma nb_data_normals env pc : forall ps d, d_cmd_recv d = true ->
  exists d', nb env d (map (mkpdv pc 0) ps) d' /\ d_cmd_recv d' = true /\ d_data_recv d' = d_data_recv d
    /\ d_cmd d' = d_cmd d /\ d_cf d' = d_cf d
    /\ (match ps with [] => d_pc d' = d_pc d | _ => d_pc d' = pc end)
    /\ match d_file d with
       | Some f => d_file d' = Some (f ++ concat ps) /\ d_data d' = d_data d
       | None => d_file d' = None /\ d_data d' = d_data d ++ concat ps
       end.
Proof.
  induction ps as [|p r IH]; intros d Hc.
  - exists d. split; [constructor; unfold post_ok; rewrite Hc, andb_false_r; reflexivity|].
    split; [exact Hc|]. split; [reflexivity|]. split; [reflexivity|]. split; [reflexivity|]. split; [reflexivity|].
    destruct (d_file d) as [f|]; cbn [concat]; rewrite List.app_nil_r; split; reflexivity.
  - assert (Hc' : d_cmd_recv (add_data d pc p) = true) by (unfold add_data; destruct (d_file d); exact Hc).
    destruct (IH (add_data d pc p) Hc') as [d' [Hn [H1 [H2 [H3 [H4 [H5 H6]]]]]]].
    exists d'. split.
    + cbn [map]. econstructor; [unfold post_ok; rewrite Hc, andb_false_r; reflexivity|apply step_data_normal|exact Hn].
    + split; [exact H1|]. split; [rewrite H2; unfold add_data; destruct (d_file d); reflexivity|].
      split; [rewrite H3; unfold add_data; destruct (d_file d); reflexivity|].
      split; [rewrite H4; unfold add_data; destruct (d_file d); reflexivity|].
      split.
      { destruct r; [rewrite H5; unfold add_data; destruct (d_file d); reflexivity|exact H5]. }
      unfold add_data in H6. destruct (d_file d) as [f|]; cbn [d_file d_data] in H6; cbn [concat];
        destruct H6 as [Ha Hb]; rewrite Ha, Hb, <- ?app_assoc; split; reflexivity.
Qed.

(* ---- a well-formed message ------------------------------------------------------------------- *)
Record wf_message (env : denv) (cmd data : bytes) (pc cf : N) (elems : list elem) (ue : N) : Prop := mkwf {
  w_parse : parse_cmd cmd = Ok elems;
  w_cf : us_value 0 256 elems = Ok cf;
  w_mt : mt_lookup (e_mt env) cf = Some ue;
  w_flag : us_value 0 2048 elems = Ok (if is_nil data then 257 else 1)
           \/ exists dst, us_value 0 2048 elems = Ok dst /\ (dst =? 257) = is_nil data;
  w_ctx : existsb (N.eqb pc) (e_contexts env) = true;    (* the context is one of the accepted ones *)
}.

Definition use_file (env : denv) (elems : list elem) (ue : N) : bool :=
  match ui_value 0 ue elems with Some u => mem_bytes u (e_store_in_file env) | None => false end.

Definition file_for (env : denv) (data : bytes) (elems : list elem) (ue : N) : option bytes :=
  if negb (is_nil data) && use_file env elems ue then Some (e_prefix env) else None.

Lemma step_cmd_last env cmd data pc cf elems ue (W : wf_message env cmd data pc cf elems ue) d p :
  d_cmd d ++ p = cmd -> d_data_recv d = false -> d_data d = [] -> d_file d = None ->
  step_pdv env d (mkpdv pc 3 p) =
  Ok (mkd true false pc cmd [] (file_for env data elems ue) (Some cf), is_nil data).
Proof.
  intros Hcmd Hdr Hdd Hdf. destruct W as [Hp Hcf Hmt Hflag Hctx].
  assert (Hd : exists dst, us_value 0 2048 elems = Ok dst /\ (dst =? 257) = is_nil data).
  { destruct Hflag as [H|H]; [|exact H]. eexists. split; [exact H|]. destruct (is_nil data); reflexivity. }
  destruct Hd as [dst [Hdst Hfl]].
  unfold step_pdv, mkpdv, file_for. cbn [pdv_data pdv_ctx].
  change ((3 =? 1) || (3 =? 3)) with true. cbv iota. cbn [d_cmd_recv d_data_recv d_pc d_cmd d_data d_file d_cf].
  change (3 =? 3) with true. cbv iota. rewrite Hcmd, Hp. cbn [bind]. rewrite Hcf. cbn [bind]. rewrite Hmt, Hdst.
  cbn [bind]. rewrite Hfl, Hdr, Hdd, Hdf, Hctx. unfold use_file.
  destruct (is_nil data); cbn [negb andb orb bind].
  - reflexivity.
  - destruct (ui_value 0 ue elems) as [u|]; [|reflexivity].
    destruct (mem_bytes u (e_store_in_file env)); cbn [bind]; [rewrite List.app_nil_r|]; reflexivity.
Qed.

Lemma step_data_last env d pc p : d_cmd_recv d = true ->
  step_pdv env d (mkpdv pc 2 p) =
  Ok (match d_file d with
      | Some f => mkd true true pc (d_cmd d) (d_data d) (Some (f ++ p)) (d_cf d)
      | None => mkd true true pc (d_cmd d) (d_data d ++ p) None (d_cf d)
      end, true).
Proof.
  intros Hc. unfold step_pdv, mkpdv. cbn [pdv_data pdv_ctx].
  change ((2 =? 1) || (2 =? 3)) with false. change ((2 =? 0) || (2 =? 2)) with true. cbv iota.
  cbn [d_cmd_recv d_data_recv d_pc d_cmd d_data d_file d_cf].
  destruct (d_file d); cbn [d_cmd_recv d_data_recv d_pc d_cmd d_data d_file d_cf]; rewrite Hc;
    change (2 =? 2) with true; reflexivity.
Qed.

(* ---- the fragment list of a message ---------------------------------------------------------- *)
Lemma hasnext_split (l : list (bytes * bool)) : hasnext_ok l = true ->
  exists pre p, l = map (fun q => (q, true)) pre ++ [(p, false)].
Proof.
  induction l as [|[q h] r IH]; intros H; [discriminate|].
  destruct r as [|x r'].
  - cbn [hasnext_ok snd] in H. apply negb_true_iff in H. subst h. exists [], q. reflexivity.
  - cbn [hasnext_ok snd] in H. apply andb_prop in H. destruct H as [Hh Hr]. subst h.
    destruct (IH Hr) as [pre [p Hp]]. exists (q :: pre), p. cbn [map app]. rewrite <- Hp. reflexivity.
Qed.

Lemma stream_pdvs pc normal last (pre : list bytes) (p : bytes) :
  map pdv_of_frag (mk_frags pc (map (tag normal last) (map (fun q => (q, true)) pre ++ [(p, false)])))
  = map (mkpdv pc normal) pre ++ [mkpdv pc last p].
Proof.
  unfold mk_frags. rewrite !map_app, !map_map. cbn [map]. f_equal.
Qed.

Lemma chunks_split (sz : N) (src : bytes) : 1 <= sz -> src <> [] ->
  exists pre p, chunks sz src = map (fun q => (q, true)) pre ++ [(p, false)] /\ concat pre ++ p = src.
Proof.
  intros Hs Hne. unfold chunks.
  pose proof (chunks_fuel_hasnext sz Hs (length src) src (le_n _) Hne) as Hh.
  pose proof (chunks_fuel_concat sz Hs (length src) src (le_n _)) as Hc.
  destruct (hasnext_split _ Hh) as [pre [p Hp]]. exists pre, p. split; [exact Hp|].
  rewrite Hp in Hc. rewrite map_app, map_map in Hc. cbn [map fst] in Hc.
  rewrite concat_app in Hc. cbn [concat] in Hc. rewrite List.app_nil_r in Hc.
  rewrite map_id in Hc. exact Hc.
Qed.

Lemma is_nil_false {A} (l : list A) : l <> [] -> is_nil l = false.
Proof. destruct l; [contradiction|reflexivity]. Qed.

(* The fragments of a well-formed message (command set cmd, data set data, context pc, maximum
   length m >= 7), fed to a fresh decoder as one PDV sequence, complete it exactly at the last PDV *)
Lemma encoded_message_completes env cmd data pc cf elems ue m fs :
  wf_message env cmd data pc cf elems ue -> cmd <> [] -> legal_max m ->
  dimse_encode cmd data pc m = Ok fs ->
  exists dfin,
    completes_at_end env d_init (map pdv_of_frag fs) dfin
    /\ d_cf dfin = Some cf
    /\ msg_of dfin cf =
       match file_for env data elems ue with
       | Some prefix => DMsg cf cmd (prefix ++ data) true pc
       | None => DMsg cf cmd data false pc
       end.
Proof.
  intros W Hcmd Hm He. rewrite dimse_encode_ok in He by exact Hm. injection He as <-.
  assert (Hs : 1 <= eff_max m - 6) by (apply eff_max_legal in Hm; lia).
  destruct (chunks_split (eff_max m - 6) cmd Hs Hcmd) as [cpre [cp [Hc Hcc]]].
  rewrite map_app, Hc, stream_pdvs.
  (* the command fragments flagged not-last, from the fresh decoder *)
  pose proof (nb_cmd_normals env pc cpre d_init eq_refl) as Hn1.
  set (d1 := match cpre with [] => d_init | _ => add_cmd d_init pc (concat cpre) end) in Hn1.
  assert (Hd1 : d_cmd d1 ++ cp = cmd /\ d_data_recv d1 = false /\ d_data d1 = [] /\ d_file d1 = None).
  { subst d1. destruct cpre; cbn [d_init add_cmd d_cmd d_data_recv d_data d_file app concat] in *;
      repeat split; try reflexivity; exact Hcc. }
  destruct Hd1 as [Hd1a [Hd1b [Hd1c Hd1d]]].
  pose proof (step_cmd_last env cmd data pc cf elems ue W d1 cp Hd1a Hd1b Hd1c Hd1d) as Hstep.
  destruct data as [|x data'].
  - (* no data set: the last command fragment completes the message *)
    unfold chunks at 1. cbn [length chunks_fuel map mk_frags]. rewrite List.app_nil_r.
    cbn [is_nil] in Hstep.
    eexists. split; [eapply completes_intro; [exact Hn1|exact Hstep|reflexivity]|].
    split; [reflexivity|].
    unfold file_for, msg_of. cbn [is_nil negb andb d_file d_data_recv d_cmd d_pc]. reflexivity.
  - (* a data set follows *)
    set (data := x :: data') in *.
    assert (Hdne : data <> []) by discriminate.
    destruct (chunks_split (eff_max m - 6) data Hs Hdne) as [dpre [dp [Hd Hdd]]].
    rewrite Hd, stream_pdvs.
    rewrite (is_nil_false data Hdne) in Hstep.
    set (d2 := mkd true false pc cmd [] (file_for env data elems ue) (Some cf)) in Hstep.
    destruct (nb_data_normals env pc dpre d2 eq_refl) as [d3 [Hn3 [H3a [H3b [H3c [H3d [H3e H3f]]]]]]].
    assert (Hn12 : nb env d_init (map (mkpdv pc 1) cpre ++ [mkpdv pc 3 cp]) d2).
    { eapply nb_app; [exact Hn1|]. econstructor; [|exact Hstep|constructor; reflexivity].
      unfold post_ok. rewrite Hd1b. reflexivity. }
    assert (HnW : nb env d_init ((map (mkpdv pc 1) cpre ++ [mkpdv pc 3 cp]) ++ map (mkpdv pc 0) dpre) d3)
      by (eapply nb_app; eassumption).
    pose proof (step_data_last env d3 pc dp H3a) as Hlast.
    rewrite app_assoc.
    eexists. split; [eapply completes_intro; [exact HnW|exact Hlast|]|].
    { destruct (d_file d3); reflexivity. }
    cbn [d_file] in H3f. unfold d2 in H3c, H3d. cbn [d_cmd d_cf] in H3c, H3d.
    destruct (file_for env data elems ue) as [prefix|] eqn:Ef; destruct H3f as [Hf3 Hdata3];
      rewrite Hf3; unfold msg_of; cbn [d_cf d_file d_data_recv d_cmd d_data d_pc]; rewrite H3c, H3d;
      (split; [reflexivity|]).
    + rewrite <- app_assoc, Hdd. reflexivity.
    + rewrite Hdata3. unfold d2. cbn [d_data app]. rewrite Hdd. reflexivity.
Qed.

Theorem reassembly_any_grouping env cmd data pc cf elems ue m fs (groups : list (list pdv)) :
  wf_message env cmd data pc cf elems ue -> cmd <> [] -> legal_max m ->
  dimse_encode cmd data pc m = Ok fs ->
  groups <> [] -> Forall (fun g => g <> []) groups -> concat groups = map pdv_of_frag fs ->
  feed env d_init groups =
  (expected_flags groups,
   Some (match file_for env data elems ue with
         | Some prefix => DMsg cf cmd (prefix ++ data) true pc
         | None => DMsg cf cmd data false pc
         end)).
Proof.
  intros W Hc Hm He Hg Hne Hcat.
  destruct (encoded_message_completes env cmd data pc cf elems ue m fs W Hc Hm He) as [dfin [Hcomp [Hcf Hmsg]]].
  rewrite <- Hcat in Hcomp.
  rewrite (grouping_independent env cf groups d_init dfin Hg Hne Hcomp Hcf), Hmsg. reflexivity.
Qed.
