From PND Require Import Lib.Base Lib.Text Model.Negotiation Model.Dispatch.

Lemma lookup_in pc t e : lookup pc t = Some e -> In e t /\ e_id e = pc.
Proof.
  induction t as [|x r IH]; [discriminate|]. cbn [lookup].
  destruct (e_id x =? pc) eqn:E.
  - intros H. injection H as <-. split; [left; reflexivity|apply N.eqb_eq; exact E].
  - intros H. destruct (IH H) as [H1 H2]. split; [right; exact H1|exact H2].
Qed.

Lemma lookup_none pc t : lookup pc t = None -> ~ In pc (map e_id t).
Proof.
  induction t as [|x r IH]; [intros _ []|]. cbn [lookup map].
  destruct (e_id x =? pc) eqn:E; [discriminate|]. intros H [H1|H1].
  - apply N.eqb_neq in E. contradiction.
  - exact (IH H H1).
Qed.

(* the context handed to the service is the context the message arrived on *)
Lemma dispatch_on_arrival served t pc uid i sop ts :
  dispatch served t pc uid = Some (i, sop, ts) -> i = pc /\ In (pc, sop, ts) t /\ mem_b uid served = true.
Proof.
  unfold dispatch. destruct (lookup pc t) as [[[j s] u]|] eqn:E; [|discriminate].
  destruct (mem_b uid served) eqn:M; [|discriminate]. intros H. injection H as <- <- <-.
  destruct (lookup_in pc t _ E) as [H1 H2]. cbn [e_id fst] in H2. subst j. repeat split; assumption.
Qed.

(* served iff the context is an accepted one and the entity has a service for the class *)
Lemma dispatch_iff served t pc uid :
  (exists e, dispatch served t pc uid = Some e) <-> (In pc (map e_id t) /\ mem_b uid served = true).
Proof.
  unfold dispatch. split.
  - intros [e H]. destruct (lookup pc t) as [[[j s] u]|] eqn:E; [|discriminate].
    destruct (mem_b uid served); [|discriminate]. split; [|reflexivity].
    destruct (lookup_in pc t _ E) as [H1 H2]. rewrite <- H2. apply in_map. exact H1.
  - intros [Hin Hm]. destruct (lookup pc t) as [[[j s] u]|] eqn:E.
    + rewrite Hm. eexists; reflexivity.
    + exfalso. exact (lookup_none pc t E Hin).
Qed.

(* with distinct context ids the entry is THE entry of that id: whatever else the table holds - the same abstract
   syntax on other ids with other transfer syntaxes - the service gets the transfer syntax accepted for the arrival id *)
Lemma dispatch_unique served t pc uid sop ts sop' ts' :
  NoDup (map e_id t) -> In (pc, sop', ts') t -> dispatch served t pc uid = Some (pc, sop, ts) -> sop = sop' /\ ts = ts'.
Proof.
  intros Hnd Hin Hd. destruct (dispatch_on_arrival served t pc uid pc sop ts Hd) as [_ [Hin2 _]].
  clear Hd. revert Hnd Hin Hin2. induction t as [|x r IH]; [intros _ []|].
  cbn [map]. intros Hnd Hin Hin2. inversion Hnd as [|a l Hnot Hnd' Heq]. subst a l.
  destruct Hin as [H1|H1], Hin2 as [H2|H2].
  - rewrite H1 in H2. injection H2 as <- <-. split; reflexivity.
  - exfalso. apply Hnot. subst x. cbn [e_id fst]. change pc with (e_id (pc, sop, ts)). apply in_map. exact H2.
  - exfalso. apply Hnot. subst x. cbn [e_id fst]. change pc with (e_id (pc, sop', ts')). apply in_map. exact H1.
  - exact (IH Hnd' H1 H2).
Qed.

Example dispatch_example :
  let t := [(1, [49], [65]); (3, [50], [66]); (5, [49], [67])] in      (* class "1" accepted on contexts 1 and 5 *)
  dispatch [[49]; [50]] t 1 [49] = Some (1, [49], [65]) /\ dispatch [[49]; [50]] t 5 [49] = Some (5, [49], [67])
  /\ dispatch [[49]; [50]] t 7 [49] = None /\ dispatch [[49]] t 3 [50] = None.
Proof. vm_compute. repeat split. Qed.

(* composed with the negotiation (C09): a request is served only on a context the acceptor reported as accepted, for
   the abstract syntax proposed on it and with the transfer syntax it answered *)
From PND Require Import Proofs.NegotiationProofs.
Lemma served_request_was_accepted cfg ps served pc uid i sop ts :
  dispatch served (served_table ps (answers cfg ps)) pc uid = Some (i, sop, ts) ->
  i = pc /\ exists p, In p ps /\ p_id p = pc /\ p_abs p = sop /\ an_result (answer_one cfg p) = 0
                      /\ an_ts (answer_one cfg p) = ts.
Proof.
  intros H. destruct (dispatch_on_arrival _ _ _ _ _ _ _ H) as [H1 [H2 _]]. split; [exact H1|].
  apply (proj1 (served_table_spec cfg ps pc sop ts)). exact H2.
Qed.
