(* The byte stream of a conversation: concatenated encoded PDUs are recognised by the provider's buffer
   discipline as exactly those PDUs — C01/C02 (codec) composed with C03 (framing). *)
From PND Require Import Lib.Base Lib.Text Model.Pdu Model.PduWf Spec.Ps38Layout Model.Provider Model.Framing
  Proofs.BaseProofs Proofs.PduProofs Proofs.LayoutProofs Proofs.FramingProofs.
Local Opaque take drop.

Lemma encode_header (p : pdu) : exists t r body, encode p = [t; r] ++ be32 (pdu_length p) ++ body.
Proof.
  destruct p as [k r1 ver r2 c1 c2 r3 items | r1 r2 a b c | r vs | r1 r2 | r1 r2 | r1 r2 r3 a b];
    cbn [encode pdu_length]; eexists _, _, _; reflexivity.
Qed.

Lemma pdu_length_b32 (p : pdu) : wf_pdu p = true -> pdu_length p < 4294967296.
Proof.
  intros H. unfold wf_pdu in H. apply andb_prop in H. destruct H as [Hp _].
  destruct p as [k r1 ver r2 c1 c2 r3 items | r1 r2 a b c | r vs | r1 r2 | r1 r2 | r1 r2 r3 a b];
    cbn [packable pdu_length] in *; try lia.
  - split_andb. unfold b32 in *. match goal with H : (_ <? 4294967296) = true |- _ => apply N.ltb_lt in H; exact H end.
  - split_andb. unfold b32 in *. match goal with H : (_ <? 4294967296) = true |- _ => apply N.ltb_lt in H; exact H end.
Qed.

(* an encoded PDU at the head of any buffer is taken off whole *)
Lemma frame_of_encoded (p : pdu) (rest : bytes) : wf_pdu p = true -> fixed_lens p = true ->
  frame_of (encode p ++ rest) = Some (encode p, rest).
Proof.
  intros Hwf Hfix.
  pose proof (total_length_bytes p Hwf Hfix) as Hlen. unfold total_length in Hlen.
  pose proof (pdu_length_b32 p Hwf) as Hb.
  destruct (encode_header p) as [t [r [body He]]].
  rewrite He in *. cbn [app be32] in *. unfold frame_of.
  rewrite un32_be.
  set (B := t :: r :: pdu_length p / 16777216 :: (pdu_length p / 65536) mod 256 :: (pdu_length p / 256) mod 256
            :: pdu_length p mod 256 :: body) in *.
  change (t :: r :: pdu_length p / 16777216 :: (pdu_length p / 65536) mod 256 :: (pdu_length p / 256) mod 256
            :: pdu_length p mod 256 :: body ++ rest) with (B ++ rest).
  destruct (N.ltb_spec (lenN (B ++ rest)) (pdu_length p + 6)) as [Hlt|_]; [rewrite lenN_app in Hlt; lia|].
  rewrite (take_app_len B rest) by lia. rewrite (drop_app_len B rest) by lia. reflexivity.
Qed.

Theorem frames_of_conversation (ps : list pdu) :
  Forall (fun p => wf_pdu p = true /\ fixed_lens p = true) ps ->
  frames (concat (map encode ps)) = (map encode ps, []).
Proof.
  induction ps as [|p ps IH]; intros H.
  - reflexivity.
  - inversion H as [|x l [Hwf Hfix] Hrest]; subst. cbn [map concat].
    rewrite frames_unfold, (frame_of_encoded p _ Hwf Hfix), (IH Hrest). reflexivity.
Qed.

(* whatever the segmentation of that stream, the provider's buffer recognises exactly the PDUs sent,
   and each decodes to the value that was encoded *)
Corollary conversation_any_segmentation (ps : list pdu) (segs : list bytes) :
  Forall (fun p => wf_pdu p = true /\ fixed_lens p = true) ps ->
  concat segs = concat (map encode ps) ->
  feed [] segs = (map encode ps, [])
  /\ Forall2 (fun f p => decode_as (type_of p) f = Ok p) (map encode ps) ps.
Proof.
  intros H Hc. split.
  - rewrite feed_any_partition, Hc. apply frames_of_conversation. exact H.
  - clear Hc. induction H as [|p l [Hwf _] _ IH]; cbn [map]; constructor; [apply decode_encode; exact Hwf|exact IH].
Qed.
