From PND Require Import Lib.Base Lib.Text Model.Pdu Model.PduWf Model.Negotiation Model.NegoPdu
  Proofs.BaseProofs Proofs.TextProofs Proofs.NegotiationProofs Corr.CorrNego.

Lemma chosen_first cfg tss :
  option_map sy_name (chosen_item cfg tss) = first_supported cfg (map sy_name tss).
Proof.
  induction tss as [|t r IH]; [reflexivity|]. cbn [chosen_item map first_supported].
  destruct (mem_b (sy_name t) (a_ts cfg)); [reflexivity|exact IH].
Qed.

Lemma answer_item_abs cfg x p : proposal_of x = Some p ->
  exists y, answer_item cfg x = Some y /\ answer_of y = Some (answer_one cfg p).
Proof.
  destruct x as [r n|id r1 r2 r3 r4 a tss|id r1 r2 res r3 t|r subs]; try discriminate.
  cbn [proposal_of]. intros H. injection H as <-.
  unfold answer_item, answer_one. cbn [p_abs p_tss p_id].
  destruct (mem_b (sy_name a) (a_served cfg)).
  - pose proof (chosen_first cfg tss) as Hc.
    destruct (chosen_item cfg tss) as [t|]; cbn [option_map] in Hc; rewrite <- Hc;
      eexists; split; reflexivity.
  - eexists; split; reflexivity.
Qed.

Lemma map_opt_answers cfg (xs : list item) : forall ps ys,
  map_opt proposal_of xs = Some ps -> map_opt (answer_item cfg) xs = Some ys ->
  map_opt answer_of ys = Some (answers cfg ps).
Proof.
  induction xs as [|x r IH]; intros ps ys Hp Hy.
  - cbn in Hp, Hy. injection Hp as <-. injection Hy as <-. reflexivity.
  - cbn [map_opt] in Hp, Hy.
    destruct (proposal_of x) as [p|] eqn:Ep; [|discriminate].
    destruct (map_opt proposal_of r) as [ps'|] eqn:Eps; [|discriminate]. injection Hp as <-.
    destruct (answer_item_abs cfg x p Ep) as [y [Hy1 Hy2]]. rewrite Hy1 in Hy.
    destruct (map_opt (answer_item cfg) r) as [ys'|] eqn:Eys; [|discriminate]. injection Hy as <-.
    cbn [map_opt answers map]. rewrite Hy2. fold (answers cfg ps'). rewrite (IH ps' ys' eq_refl eq_refl). reflexivity.
Qed.

Lemma removelast_app_single {A} (l : list A) (x : A) : removelast (l ++ [x]) = l.
Proof. rewrite removelast_app by discriminate. cbn [removelast]. apply app_nil_r. Qed.

Lemma middle_wrap {A} (first : A) (mid : list A) (lastx : A) : middle (first :: mid ++ [lastx]) = mid.
Proof. cbn [middle]. apply removelast_app_single. Qed.

(* what the accepted association looks like, for every configuration and every request *)
Lemma accept_pdu_spec cfg own rq m : accept_pdu cfg own rq = Some m ->
  exists props,
    map_opt proposal_of (middle (items_of rq)) = Some props
    /\ map_opt answer_of (middle (items_of (acc_pdu m))) = Some (answers cfg props)
    /\ acc_table m = served_table props (answers cfg props)
    /\ called_of (acc_pdu m) = called_of rq /\ calling_of (acc_pdu m) = calling_of rq
    /\ hd_error (items_of (acc_pdu m)) = hd_error (items_of rq).
Proof.
  destruct rq as [k r1 v r2 called calling r3 items| | | | |]; try discriminate.
  cbn [accept_pdu items_of called_of calling_of].
  destruct items as [|first rest]; [discriminate|].
  destruct (last (first :: rest) (AppCtx 0 [])) as [| | |ur subs]; try discriminate.
  destruct (map_opt (answer_item cfg) (middle (first :: rest))) as [ans|] eqn:Ea; [|discriminate].
  destruct (map_opt proposal_of (middle (first :: rest))) as [props|] eqn:Ep; [|discriminate].
  intros H. injection H as <-. exists props. cbn [acc_pdu acc_table items_of called_of calling_of].
  split; [reflexivity|]. split.
  - change ([first] ++ ans ++ [UserInfo ur (announce (eff_limit own (peer_announced subs)) subs)])
      with (first :: ans ++ [UserInfo ur (announce (eff_limit own (peer_announced subs)) subs)]).
    rewrite middle_wrap. exact (map_opt_answers cfg _ props ans Ep Ea).
  - repeat split; reflexivity.
Qed.
