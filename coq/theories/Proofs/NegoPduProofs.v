From PND Require Import Lib.Base.
