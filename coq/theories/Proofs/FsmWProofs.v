(* Proofs/FsmWProofs.v — the control model over a transport that can refuse writes (Model.Fsm.cstepw):
   the set of control states reachable when, in every iteration, the write may or may not fail, closed
   by reflection as in Proofs/FsmProofs.v; the invariants that hold on it, and what a failed write leads
   to.  Everything here holds for every history of any length with any pattern of failing writes. *)
From PND Require Import Lib.Base Spec.Ps38Table Model.Fsm Proofs.FsmProofs.

Definition succsw (c : ctrl) : list ctrl :=
  dedupe (map (fun i => fst (cstepw true c i)) all_inputs)
         (dedupe (map (fun i => fst (cstepw false c i)) all_inputs) []).

Lemma succsw_complete wf c i : legal_input i = true -> In (fst (cstepw wf c i)) (succsw c).
Proof.
  intros H. unfold succsw. destruct wf.
  - apply dedupe_in. left. apply in_map_iff. exists i. split; [reflexivity|apply legal_in_all; exact H].
  - apply dedupe_in. right. apply dedupe_in. left.
    apply in_map_iff. exists i. split; [reflexivity|apply legal_in_all; exact H].
Qed.

Fixpoint bfsw (fuel : nat) (frontier seen : list ctrl) : list ctrl :=
  match fuel with
  | O => seen
  | S f =>
    match frontier with
    | [] => seen
    | _ =>
      let (new, seen') := add_new (flat_map succsw frontier) seen in
      bfsw f new seen'
    end
  end.

Definition reachw : list ctrl :=
  Eval vm_compute in bfsw 40 [init true; init false] [init true; init false].

Definition closedw (R : list ctrl) : bool :=
  forallb (fun c => forallb (fun c' => mem c' R) (succsw c)) R.

Lemma reachw_closed : closedw reachw = true.
Proof. vm_compute. reflexivity. Qed.

Lemma reachw_init r : In (init r) reachw.
Proof. destruct r; apply mem_In; vm_compute; reflexivity. Qed.

(* the states reachable with a transport that accepts every write are among them *)
Lemma reach_in_reachw : forallb (fun c => mem c reachw) reach = true.
Proof. vm_compute. reflexivity. Qed.

(* a history: in every iteration, whether a write would fail, and what the environment delivered *)
Definition stepw (c : ctrl) (wi : bool * input) : ctrl := fst (cstepw (fst wi) c (snd wi)).
Definition runw (c : ctrl) (is : list (bool * input)) : ctrl := fold_left stepw is c.
Definition legal_winput (wi : bool * input) : bool := legal_input (snd wi).

Lemma stepw_in_reachw c wi : In c reachw -> legal_winput wi = true -> In (stepw c wi) reachw.
Proof.
  intros Hc Hi. pose proof reachw_closed as H. unfold closedw in H. rewrite forallb_forall in H.
  specialize (H c Hc). rewrite forallb_forall in H.
  apply mem_In. apply H. unfold stepw. apply succsw_complete. exact Hi.
Qed.

Lemma runw_in_reachw is : forall c, In c reachw -> forallb legal_winput is = true -> In (runw c is) reachw.
Proof.
  induction is as [|i is IH]; intros c Hc Hl; [exact Hc|].
  cbn [forallb] in Hl. apply andb_prop in Hl. destruct Hl as [Hi Hl].
  unfold runw. cbn [fold_left]. apply IH; [apply stepw_in_reachw; assumption|exact Hl].
Qed.

Theorem reachable_in_reachw (r : bool) (is : list (bool * input)) :
  forallb legal_winput is = true -> In (runw (init r) is) reachw.
Proof. intros H. apply runw_in_reachw; [apply reachw_init|exact H]. Qed.

(* ---- invariants ------------------------------------------------------------------------------- *)
(* the write has failed and run() has queued Evt17 *)
Definition failed (c : ctrl) : bool := beq_optN (c_pend c) (Some 17).

Definition inv_statew (c : ctrl) : bool :=
  (* the loop never dies from an unhandled error — a refused write included *)
  negb (beq_outcome (c_out c) Crashed)
  (* ARTIM runs exactly in Sta2 / Sta13 *)
  && Bool.eqb (c_tmr c) (in_states [2; 13] (c_st c))
  (* idle => transport closed (the acceptor's untouched initial state excepted); not idle => there is a
     transport, or its loss is queued as Evt17 *)
  && (if c_st c =? 1 then negb (c_sock c) || beq_optN (c_pend c) (Some 5) else c_sock c || failed c)
  (* the event deque is empty, or holds the initial transport indication, or the Evt17 of a failed write,
     and then the socket is already closed *)
  && (beq_optN (c_pend c) None || (beq_optN (c_pend c) (Some 5) && (c_st c =? 1))
      || (failed c && negb (c_sock c) && negb (c_st c =? 1))).

Definition is_send (o : output) : bool := match o with OSend _ _ => true | _ => false end.

Definition inv_stepw (c : ctrl) (i : input) : bool :=
  forallb (fun wf =>
    let outs := snd (cstepw wf c i) in
    (negb (existsb beq_output_senddata outs) || in_states [6; 8] (c_st c))
    && (negb (existsb beq_output_inddata outs) || in_states [6; 7] (c_st c))
    && (negb (in_states [1; 13] (c_st c)) || negb (existsb is_ind outs))) [true; false]
  (* nothing reaches the wire in an iteration whose write fails *)
  && negb (existsb is_send (snd (cstepw true c i))).

Lemma reachw_inv_state : forallb inv_statew reachw = true.
Proof. vm_compute. reflexivity. Qed.

Lemma reachw_inv_step : forallb (fun c => forall_inputs (inv_stepw c)) reachw = true.
Proof. vm_compute. reflexivity. Qed.

(* ---- a failing transport matters only when something is written ------------------------------- *)
Definition beq_output (a b : output) : bool :=
  match a, b with
  | OSend k f, OSend k' f' | OInd k f, OInd k' f' => beq_kind k k' && Bool.eqb f f'
  | OIndData, OIndData | OClose, OClose | OOpen, OOpen | OClearPrim, OClearPrim | OTStart, OTStart => true
  | OSetPrim k, OSetPrim k' => beq_kind k k'
  | _, _ => false
  end.
Fixpoint beq_outputs (a b : list output) : bool :=
  match a, b with
  | [], [] => true
  | x :: r, y :: q => beq_output x y && beq_outputs r q
  | _, _ => false
  end.
Lemma beq_output_eq a b : beq_output a b = true -> a = b.
Proof.
  destruct a, b; cbn [beq_output]; intros H; try discriminate; try reflexivity;
    try (apply andb_prop in H; destruct H as [Hk Hf]; apply beq_kind_eq in Hk; apply Bool.eqb_prop in Hf; subst; reflexivity);
    apply beq_kind_eq in H; subst; reflexivity.
Qed.
Lemma beq_outputs_eq a : forall b, beq_outputs a b = true -> a = b.
Proof.
  induction a as [|x r IH]; intros [|y q] H; try discriminate; [reflexivity|].
  cbn [beq_outputs] in H. apply andb_prop in H. destruct H as [H1 H2].
  apply beq_output_eq in H1. apply IH in H2. subst. reflexivity.
Qed.

Definition same_unless_send (c : ctrl) (i : input) : bool :=
  existsb is_send (snd (cstepw false c i))
  || (beq_ctrl (fst (cstepw true c i)) (fst (cstepw false c i))
      && beq_outputs (snd (cstepw true c i)) (snd (cstepw false c i))).

Lemma reachw_same_unless_send : forallb (fun c => forall_inputs (same_unless_send c)) reachw = true.
Proof. vm_compute. reflexivity. Qed.

(* ---- what a failed write leads to ---------------------------------------------------------------- *)
(* the iteration in which the write fails: the protocol state is kept, the transport is closed, Evt17 queued *)
Definition failing_step (c : ctrl) (i : input) : bool :=
  let c' := fst (cstepw true c i) in
  negb (existsb is_send (snd (cstepw false c i))) || negb (beq_outcome (c_out c) Running)
  || (failed c' && negb (c_sock c') && (c_st c' =? c_st c) && beq_outcome (c_out c') Running).

Lemma reachw_failing_step : forallb (fun c => forall_inputs (failing_step c)) reachw = true.
Proof. vm_compute. reflexivity. Qed.

Definition is_abort_ind (o : output) : bool :=
  match o with OInd (KAbort S0) true => true | _ => false end.

(* the next iteration, whatever arrives in it: at rest, nothing queued, and the local user — if an
   association existed or was being established (Sta3..Sta12) — is given an A-P-ABORT indication *)
Definition after_failed_write (c : ctrl) : bool :=
  negb (failed c) || negb (beq_outcome (c_out c) Running)
  || forallb (fun wf => forall_inputs (fun i =>
       let c' := fst (cstepw wf c i) in
       let outs := snd (cstepw wf c i) in
       at_rest c' && beq_optN (c_pend c') None && beq_outcome (c_out c') Running
       && (in_states [2; 13] (c_st c) || existsb is_abort_ind outs))) [true; false].

Lemma reachw_after_failed_write : forallb after_failed_write reachw = true.
Proof. vm_compute. reflexivity. Qed.

(* ---- the endings of FsmProofs, with failing writes ------------------------------------------------ *)
Definition weof_inputs : list (bool * input) :=
  map (fun i => (true, i)) eof_inputs ++ map (fun i => (false, i)) eof_inputs.
Definition after_eofw (c : ctrl) : bool :=
  negb (c_sock c) || negb (beq_outcome (c_out c) Running)
  || forallb (fun c1 => at_rest c1 || forallb (fun j => at_rest (stepw c1 j)) weof_inputs)
             (dedupe (map (stepw c) weof_inputs) []).
Lemma reachw_eof : forallb after_eofw reachw = true.
Proof. vm_compute. reflexivity. Qed.

Definition after_artimw (c : ctrl) : bool :=
  negb (in_states [2; 13] (c_st c)) || negb (beq_outcome (c_out c) Running) || failed c
  || (at_rest (fst (cstepw true c quiet_expired)) && at_rest (fst (cstepw false c quiet_expired))).
Lemma reachw_artim : forallb after_artimw reachw = true.
Proof. vm_compute. reflexivity. Qed.
