From PND Require Import Lib.Base Lib.Text Model.Pdu Model.PduWf Model.Assoc Model.Provider Model.Framing
  Spec.Ps38Table Model.Fsm Proofs.PduProofs Proofs.FsmProofs Proofs.FsmSpecProofs Proofs.ProviderTheorems.

(* the refusal travels unchanged: application -> A-ASSOCIATE-RJ on the wire -> requestor's error *)
Lemma rejection_roundtrip r s d : r < 256 -> s < 256 -> d < 256 ->
  exists p, decode_as 3 (encode (AssocRj 0 0 r s d)) = Ok p /\ handle_errors p = Some (ERejected r s d).
Proof.
  intros Hr Hs Hd. exists (AssocRj 0 0 r s d). split; [|reflexivity].
  apply (decode_encode (AssocRj 0 0 r s d)).
  unfold wf_pdu, packable, b8. apply N.ltb_lt in Hr, Hs, Hd. rewrite Hr, Hs, Hd. reflexivity.
Qed.

Lemma abort_roundtrip s r : s < 256 -> r < 256 ->
  exists p, decode_as 7 (encode (Abort 0 0 0 s r)) = Ok p /\ handle_errors p = Some (EAborted s r).
Proof.
  intros Hs Hr. exists (Abort 0 0 0 s r). split; [|reflexivity].
  apply (decode_encode (Abort 0 0 0 s r)).
  unfold wf_pdu, packable, b8. apply N.ltb_lt in Hs, Hr. rewrite Hs, Hr. reflexivity.
Qed.

Lemma release_roundtrip :
  exists p, decode_as 5 (encode (RelRq 0 0)) = Ok p /\ handle_errors p = Some EReleased.
Proof. exists (RelRq 0 0). split; reflexivity. Qed.

(* each of these PDUs is exactly one frame for the provider's buffer discipline *)
Lemma fixed_pdu_is_one_frame (p : pdu) :
  match p with AssocRj _ _ _ _ _ | RelRq _ _ | RelRp _ _ | Abort _ _ _ _ _ => True | _ => False end ->
  frame_of (encode p) = Some (encode p, []).
Proof. destruct p; intros H; try contradiction; reflexivity. Qed.

(* in every reachable control state, a decodable A-ASSOCIATE-RJ / A-ABORT / A-RELEASE-RQ from the peer
   that the table hands to the user is handed over as the received PDU itself (not a rebuilt one) *)
Definition pdu_input (k : kind) (i : input) : input := mkin false (NPdu k) (i_usr i) (i_gen i) (i_expired i) (i_dec i).
Definition indicates_received (c : ctrl) (k : kind) (states : list N) (i : input) : bool :=
  negb (running c) || negb (c_sock c) || negb (beq_optN (c_pend c) None) || negb (in_states states (c_st c))
  || existsb (fun o => match o with OInd k' false => beq_kind k' k | _ => false end) (snd (cstep c (pdu_input k i))).

Lemma reach_reject_indicated :
  forallb (fun c => forall_inputs (indicates_received c KRj [5])) reach = true.
Proof. vm_compute. reflexivity. Qed.

Lemma reach_abort_indicated :
  forallb (fun c => forallb (fun s => forall_inputs (indicates_received c (KAbort s) [3; 5; 6; 7; 8; 9; 10; 11; 12])) all_src)
          reach = true.
Proof. vm_compute. reflexivity. Qed.

Lemma reach_release_indicated :
  forallb (fun c => forall_inputs (indicates_received c KRelRq [6; 7])) reach = true.
Proof. vm_compute. reflexivity. Qed.

Lemma history_reject_indicated : forall r is i, forallb legal_input is = true -> legal_input i = true ->
  indicates_received (run (init r) is) KRj [5] i = true.
Proof. exact (lift_inputs (fun c => indicates_received c KRj [5]) reach_reject_indicated). Qed.

Lemma history_release_indicated : forall r is i, forallb legal_input is = true -> legal_input i = true ->
  indicates_received (run (init r) is) KRelRq [6; 7] i = true.
Proof. exact (lift_inputs (fun c => indicates_received c KRelRq [6; 7]) reach_release_indicated). Qed.

Lemma history_abort_indicated : forall r is i s, forallb legal_input is = true -> legal_input i = true ->
  indicates_received (run (init r) is) (KAbort s) [3; 5; 6; 7; 8; 9; 10; 11; 12] i = true.
Proof.
  intros r is i s H Hi. pose proof reach_abort_indicated as R. rewrite forallb_forall in R.
  specialize (R _ (reachable_in_reach r is H)). rewrite forallb_forall in R.
  assert (Hs : In s all_src) by (destruct s; simpl; tauto).
  specialize (R s Hs). unfold forall_inputs in R. rewrite forallb_forall in R.
  apply R. apply legal_in_all. exact Hi.
Qed.
