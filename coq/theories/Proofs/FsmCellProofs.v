From PND Require Import Lib.Base Spec.Ps38Table Model.FsmCell.

Lemma covered_sound cells s e rq : covered cells s e rq = true ->
  exists c, In c cells /\ c_state c = s /\ c_event c = e /\ c_requestor c = rq.
Proof.
  unfold covered. intros H. apply existsb_exists in H. destruct H as [c [Hin Hc]].
  apply andb_prop in Hc. destruct Hc as [Hc Hr]. apply andb_prop in Hc. destruct Hc as [Hs He].
  exists c. split; [exact Hin|]. apply N.eqb_eq in Hs. apply N.eqb_eq in He. apply Bool.eqb_prop in Hr.
  auto.
Qed.

Lemma check_cells_sound cells : check_cells cells = true ->
  (forall s e rq, In s states -> In e events ->
     exists c, In c cells /\ c_state c = s /\ c_event c = e /\ c_requestor c = rq)
  /\ (forall c, In c cells -> conforms c = true).
Proof.
  unfold check_cells. intros H. apply andb_prop in H. destruct H as [Hc Hf]. split.
  - intros s e rq Hs He. unfold complete in Hc. rewrite forallb_forall in Hc.
    specialize (Hc s Hs). rewrite forallb_forall in Hc. specialize (Hc e He).
    apply andb_prop in Hc. destruct Hc as [Ht Hfa].
    destruct rq; apply covered_sound; assumption.
  - rewrite forallb_forall in Hf. exact Hf.
Qed.

Definition defined_cells : nat :=
  length (filter (fun se => match table (snd se) (fst se) with Some _ => true | None => false end)
                 (list_prod states events)).

Lemma table_has_123_defined_cells : defined_cells = 123%nat.
Proof. vm_compute. reflexivity. Qed.
