(* Proofs/ProviderWProofs.v — every run of the concrete provider model over a transport that can refuse
   writes projects onto a run of the control model (cstepw) over legal inputs: the invariants of
   Proofs/FsmWProofs.v hold at every point of every script, of any length, strict transport or not. *)
From PND Require Import Lib.Base Lib.Text Model.Pdu Model.CmdSet Model.Decoder Spec.Ps38Table
  Model.Fsm Model.Provider Model.ProviderW Proofs.FsmProofs Proofs.FsmWProofs Proofs.ProviderProofs.

Definition legal_wop (w : wop) : bool := match w with Plain o => legal_op o | SegReset _ => true end.

Lemma ctl_apply_wop s w : ctl (apply_wop s w) = ctl s.
Proof. destruct w as [o|b]; cbn [apply_wop]; rewrite ?ctl_apply_op; reflexivity. Qed.

Lemma userq_apply_wop s w : legal_wop w = true -> forallb legal_uitem (userq s) = true ->
  forallb legal_uitem (userq (apply_wop s w)) = true.
Proof.
  intros Hw Hq. destruct w as [o|b]; cbn [apply_wop legal_wop] in *.
  - apply userq_apply_op; assumption.
  - apply userq_apply_op; [reflexivity|]. apply userq_apply_op; [reflexivity|exact Hq].
Qed.

Lemma ctl_iterw strict env s w :
  ctl (iterw strict env s w) =
  fst (cstepw (write_fails strict (apply_wop s w)) (ctl s) (it_input (iter_parts env (apply_wop s w) (wop_kill w)))).
Proof.
  unfold iterw. rewrite ctl_apply_wop.
  destruct (cstepw _ (ctl s) _) as [c' outs]. destruct (interpret _ _ _ _ _ _) as [[a b] c]. reflexivity.
Qed.

Lemma userq_iterw strict env s w :
  userq (iterw strict env s w) = it_userq (iter_parts env (apply_wop s w) (wop_kill w)).
Proof.
  unfold iterw. destruct (cstepw _ _ _) as [c' outs]. destruct (interpret _ _ _ _ _ _) as [[a b] c]. reflexivity.
Qed.

Definition wf_pstatew (s : pstate) : Prop := In (ctl s) reachw /\ forallb legal_uitem (userq s) = true.

Lemma iterw_wf strict env s w : legal_wop w = true -> wf_pstatew s -> wf_pstatew (iterw strict env s w).
Proof.
  intros Hw [Hr Hq].
  assert (Hk : wop_kill w = false).
  { destruct w as [o|b]; [|reflexivity]. cbn [legal_wop wop_kill] in *. destruct o; try reflexivity; discriminate. }
  pose proof (userq_apply_wop s w Hw Hq) as Hq'.
  destruct (iter_input_legal env (apply_wop s w) Hq') as [Hl Hu].
  split.
  - rewrite ctl_iterw, Hk.
    apply (stepw_in_reachw (ctl s) (write_fails strict (apply_wop s w), it_input (iter_parts env (apply_wop s w) false)));
      [exact Hr|exact Hl].
  - rewrite userq_iterw, Hk. exact Hu.
Qed.

Lemma runw_wf strict env ops : forall s, forallb legal_wop ops = true -> wf_pstatew s ->
  wf_pstatew (fold_left (iterw strict env) ops s).
Proof.
  induction ops as [|o ops IH]; intros s Hl Hs; [exact Hs|].
  cbn [forallb] in Hl. apply andb_prop in Hl. destruct Hl as [Ho Hl].
  cbn [fold_left]. apply IH; [exact Hl|apply iterw_wf; assumption].
Qed.

(* every concrete run, of any length, whether the transport refuses writes or not, stays inside reachw *)
Theorem concrete_in_reachw strict env requestor maxlen ops : forallb legal_wop ops = true ->
  In (ctl (run_scriptw strict env requestor maxlen ops)) reachw.
Proof.
  intros Hl. unfold run_scriptw.
  apply (runw_wf strict env ops (p_init requestor maxlen) Hl).
  split; [apply reachw_init|reflexivity].
Qed.

(* ---- the transport that accepts every write is the special case ------------------------------- *)
Lemma iterw_plain env s o : iterw false env s (Plain o) = iter env s o.
Proof. reflexivity. Qed.

Lemma run_scriptw_plain env requestor maxlen ops :
  run_scriptw false env requestor maxlen (map Plain ops) = run_script env requestor maxlen ops.
Proof.
  unfold run_scriptw, run_script. generalize (p_init requestor maxlen) as s.
  induction ops as [|o ops IH]; intros s; [reflexivity|].
  cbn [map fold_left]. rewrite iterw_plain. apply IH.
Qed.

(* ---- the reflective facts, at every point of every script ------------------------------------ *)
Lemma in_reachw_inv c : In c reachw -> inv_statew c = true.
Proof. intros H. pose proof reachw_inv_state as R. rewrite forallb_forall in R. apply R. exact H. Qed.

Lemma in_reachw_failed c : In c reachw -> after_failed_write c = true.
Proof. intros H. pose proof reachw_after_failed_write as R. rewrite forallb_forall in R. apply R. exact H. Qed.

Lemma in_reachw_step c i : In c reachw -> legal_input i = true ->
  inv_stepw c i = true /\ failing_step c i = true /\ same_unless_send c i = true.
Proof.
  intros H Hi. apply legal_in_all in Hi.
  pose proof reachw_inv_step as R1. pose proof reachw_failing_step as R2. pose proof reachw_same_unless_send as R3.
  rewrite forallb_forall in R1, R2, R3.
  specialize (R1 c H). specialize (R2 c H). specialize (R3 c H).
  unfold forall_inputs in R1, R2, R3. rewrite forallb_forall in R1, R2, R3.
  split; [apply R1; exact Hi|split; [apply R2; exact Hi|apply R3; exact Hi]].
Qed.

Lemma in_reachw_eof c : In c reachw -> after_eofw c = true.
Proof. intros H. pose proof reachw_eof as R. rewrite forallb_forall in R. apply R. exact H. Qed.

Lemma in_reachw_artim c : In c reachw -> after_artimw c = true.
Proof. intros H. pose proof reachw_artim as R. rewrite forallb_forall in R. apply R. exact H. Qed.

(* control model, every history with any pattern of failing writes *)
Lemma historyw_inv r is : forallb legal_winput is = true -> inv_statew (runw (init r) is) = true.
Proof. intros H. apply in_reachw_inv, reachable_in_reachw, H. Qed.

Lemma historyw_failed r is : forallb legal_winput is = true -> after_failed_write (runw (init r) is) = true.
Proof. intros H. apply in_reachw_failed, reachable_in_reachw, H. Qed.

Lemma historyw_step r is i : forallb legal_winput is = true -> legal_input i = true ->
  inv_stepw (runw (init r) is) i = true /\ failing_step (runw (init r) is) i = true
  /\ same_unless_send (runw (init r) is) i = true.
Proof. intros H Hi. apply in_reachw_step; [apply reachable_in_reachw, H|exact Hi]. Qed.

Lemma historyw_eof r is : forallb legal_winput is = true -> after_eofw (runw (init r) is) = true.
Proof. intros H. apply in_reachw_eof, reachable_in_reachw, H. Qed.

Lemma historyw_artim r is : forallb legal_winput is = true -> after_artimw (runw (init r) is) = true.
Proof. intros H. apply in_reachw_artim, reachable_in_reachw, H. Qed.

(* concrete model, every script *)
Lemma scriptw_inv strict env requestor maxlen ops : forallb legal_wop ops = true ->
  inv_statew (ctl (run_scriptw strict env requestor maxlen ops)) = true
  /\ after_failed_write (ctl (run_scriptw strict env requestor maxlen ops)) = true
  /\ after_eofw (ctl (run_scriptw strict env requestor maxlen ops)) = true
  /\ after_artimw (ctl (run_scriptw strict env requestor maxlen ops)) = true.
Proof.
  intros H. pose proof (concrete_in_reachw strict env requestor maxlen ops H) as R.
  split; [apply in_reachw_inv, R|split; [apply in_reachw_failed, R|split; [apply in_reachw_eof, R|apply in_reachw_artim, R]]].
Qed.

(* non-vacuity: a script on which a write does fail (an acceptor in Sta2 receives junk with the peer's
   reset right behind it: AA-1's A-ABORT is refused), and the provider is at rest two iterations later *)
Example a_write_fails :
  let env := mkdenv [] [] [] [] in
  let s1 := run_scriptw true env false 65536 [Plain Idle; SegReset [255; 0; 0; 0; 0; 4; 1; 2; 3; 4]] in
  let s2 := run_scriptw true env false 65536 [Plain Idle; SegReset [255; 0; 0; 0; 0; 4; 1; 2; 3; 4]; Plain Idle] in
  failed (ctl s1) = true /\ c_st (ctl s1) = 2 /\ wire s1 = [] /\ at_rest (ctl s2) = true.
Proof. vm_compute. repeat split; reflexivity. Qed.
