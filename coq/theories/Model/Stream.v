(* Model/Stream.v — ghost observations on a provider run: the frames the provider takes out of the
   peer's byte stream, iteration by iteration, and the bytes the transport delivered to it. *)
From PND Require Import Lib.Base Lib.Text Model.Pdu Model.CmdSet Model.Decoder Spec.Ps38Table Model.Fsm Model.Provider.

(* the bytes the provider holds and has not yet recognised as a PDU: its buffer, then the transport's *)
Definition stream (s : pstate) : bytes := raw s ++ pending s.

(* the frame net_poll takes in a state, if any *)
Definition poll_frame (s : pstate) : option bytes :=
  match frame_of (raw s) with
  | Some (f, _) => Some f
  | None =>
    match pending s with
    | _ :: _ =>
        let rsize := if maxlen s =? 0 then 65536 else maxlen s in
        match frame_of (raw s ++ take rsize (pending s)) with
        | Some (f, _) => Some f
        | None => None
        end
    | [] => None
    end
  end.

Definition iter_frame (s0 : pstate) (o : op) : option bytes :=
  let s := apply_op s0 o in
  if polls_net (ctl s) (is_kill o) then poll_frame s else None.

(* what the transport accepted from the peer in one operation *)
Definition delivered (s : pstate) (o : op) : bytes :=
  match o with Seg b => if c_sock (ctl s) then b else [] | _ => [] end.

Fixpoint run_frames (env : denv) (s : pstate) (ops : list op) : list bytes :=
  match ops with
  | [] => []
  | o :: r => match iter_frame s o with Some f => f :: run_frames env (iter env s o) r | None => run_frames env (iter env s o) r end
  end.

Fixpoint run_delivered (env : denv) (s : pstate) (ops : list op) : bytes :=
  match ops with
  | [] => []
  | o :: r => delivered s o ++ run_delivered env (iter env s o) r
  end.
