(* Model/CmdMsg.v — a DIMSE message object (dimsemessages.DIMSEMessage) as far as its command set
   is concerned: the pydicom Dataset keeps elements by ascending tag; properties set element values;
   the data_set setter maintains CommandDataSetType; Association.send calls set_length() and encodes
   the command group in implicit VR little endian. *)
From PND Require Import Lib.Base Lib.Text Model.CmdSet.

Inductive cval :=
| VUI (s : bytes)            (* UI: padded with NUL to even length *)
| VUS (n : N)                (* US *)
| VAE (s : bytes)            (* AE: padded with space *)
| VAT (tags : list (N * N))  (* AT *)
| VUL (n : N)                (* UL *)
| VEmpty.                    (* '' : zero-length value *)

Definition pad_even (p : N) (s : bytes) : bytes := if N.even (lenN s) then s else s ++ [p].

Definition enc_value (v : cval) : bytes :=
  match v with
  | VUI s => pad_even 0 s
  | VUS n => le16 n
  | VAE s => pad_even 32 s
  | VAT l => concat (map (fun t => le16 (fst t) ++ le16 (snd t)) l)
  | VUL n => le32b n
  | VEmpty => []
  end.

Definition field := (N * cval)%type.          (* element number within group 0000, value *)
Definition to_elem (f : field) : elem := (0, fst f, enc_value (snd f)).

(* insertion into a list kept in ascending element order (replace when present) *)
Fixpoint put (e : N) (v : cval) (l : list field) : list field :=
  match l with
  | [] => [(e, v)]
  | (e', v') :: r =>
      if e =? e' then (e, v) :: r
      else if e <? e' then (e, v) :: l
      else (e', v') :: put e v r
  end.

Record msgobj := mkmsg { m_fields : list field; m_data : bool }.

(* DIMSEMessage.__init__: CommandField, CommandDataSetType = 0101H, every listed field '' *)
Definition new_msg (cf : N) (others : list N) : msgobj :=
  mkmsg (fold_left (fun l e => put e VEmpty l) others (put 2048 (VUS 257) (put 256 (VUS cf) []))) false.

Inductive mop :=
| SetField (e : N) (v : cval)     (* a dimse_property setter / command_set attribute assignment *)
| SetData (present : bool)        (* msg.data_set = <bytes / file> (truthy) or None / b'' *)
| Send.                           (* Association.send(msg, pc) *)

(* set_length(): Command Group Length := total encoded length of every other element *)
Definition others_length (l : list field) : N :=
  fold_right (fun f acc => (if fst f =? 0 then 0 else lenN (enc_elem (to_elem f))) + acc) 0 l.
Definition set_length (m : msgobj) : msgobj :=
  mkmsg (put 0 (VUL (others_length (m_fields m))) (m_fields m)) (m_data m).

Definition cmd_bytes (m : msgobj) : bytes := enc_elems (map to_elem (m_fields m)).

Definition step_msg (m : msgobj) (o : mop) : msgobj * option (bytes * bool) :=
  match o with
  | SetField e v => (mkmsg (put e v (m_fields m)) (m_data m), None)
  | SetData b => (mkmsg (put 2048 (VUS (if b then 1 else 257)) (m_fields m)) b, None)
  | Send => let m' := set_length m in (m', Some (cmd_bytes m', m_data m'))
  end.

Fixpoint run_msg (m : msgobj) (ops : list mop) : list (bytes * bool) :=
  match ops with
  | [] => []
  | o :: r => let (m', out) := step_msg m o in
              match out with Some x => x :: run_msg m' r | None => run_msg m' r end
  end.

(* user code sets fields other than the three the library maintains itself *)
Definition legal_mop (o : mop) : bool :=
  match o with
  | SetField e _ => negb ((e =? 0) || (e =? 256) || (e =? 2048))
  | _ => true
  end.
