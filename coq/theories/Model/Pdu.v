(* Model/Pdu.v — pdu.py and userdataitems.py: the seven PDU classes, the variable items and
   the user-information sub-items, with `encode` mirroring struct.pack and `decode` mirroring the
   code's look-ahead stream parser (including what it does on short or malformed input).
   Text fields are byte strings (the harness maps str <-> UTF-8). *)
From PND Require Import Lib.Base Lib.Text.

(* ------------------------------------------------------------------ data *)
Inductive subitem :=
| MaxLen (reserved item_length max_length : N)                    (* 51H *)
| ImplClass (reserved : N) (uid : bytes)                           (* 52H *)
| AsyncOps (reserved item_length invoked performed : N)           (* 53H *)
| RoleSel (reserved : N) (uid : bytes) (scu scp : N)               (* 54H *)
| ImplVersion (reserved : N) (name : bytes)                        (* 55H *)
| ExtNeg (reserved : N) (uid : bytes) (app_info : bytes)           (* 56H *)
| UserId (reserved utype resp_req : N) (primary secondary : bytes) (* 58H *)
| UserIdAc (reserved : N) (response : bytes)                       (* 59H *)
| Generic (item_type reserved : N) (data : bytes).

Record syntax_item := { sy_reserved : N; sy_name : bytes }.   (* Abstract / Transfer Syntax sub-item *)

Inductive item :=
| AppCtx (reserved : N) (name : bytes)                                         (* 10H *)
| PcRq (id r1 r2 r3 r4 : N) (abs : syntax_item) (tss : list syntax_item)       (* 20H *)
| PcAc (id r1 r2 result r3 : N) (ts : syntax_item)                             (* 21H *)
| UserInfo (reserved : N) (subs : list subitem).                               (* 50H *)

Record pdv := { pdv_ctx : N; pdv_data : bytes }.

Inductive akind := KRq | KAc.

Inductive pdu :=
| Assoc (k : akind) (reserved1 version reserved2 : N) (called calling : bytes)
        (reserved3 : list N) (items : list item)                   (* 01H / 02H *)
| AssocRj (reserved1 reserved2 result source reason : N)           (* 03H *)
| PData (reserved : N) (pdvs : list pdv)                           (* 04H *)
| RelRq (reserved1 reserved2 : N)                                  (* 05H *)
| RelRp (reserved1 reserved2 : N)                                  (* 06H *)
| Abort (reserved1 reserved2 reserved3 source reason : N).         (* 07H *)

(* ---------------------------------------------------------------- encode *)
Definition hdr4 (t r len : N) : bytes := [t; r; len / 256; len mod 256].

Definition sub_item_length (x : subitem) : N :=
  match x with
  | MaxLen _ l _ => l
  | ImplClass _ u => lenN u
  | AsyncOps _ l _ _ => l
  | RoleSel _ u _ _ => 4 + lenN u
  | ImplVersion _ n => lenN n
  | ExtNeg _ u a => 2 + lenN u + lenN a
  | UserId _ _ _ p s => 6 + lenN p + lenN s
  | UserIdAc _ r => 2 + lenN r
  | Generic _ _ d => lenN d
  end.

(* the `total_length` property of each class (MaximumLengthSubItem: the constant 8) *)
Definition sub_total_length (x : subitem) : N :=
  match x with
  | MaxLen _ _ _ => 8
  | _ => 4 + sub_item_length x
  end.

Definition encode_sub (x : subitem) : bytes :=
  match x with
  | MaxLen r l m => hdr4 81 r l ++ be32 m
  | ImplClass r u => hdr4 82 r (lenN u) ++ u
  | AsyncOps r l a b => hdr4 83 r l ++ be16 a ++ be16 b
  | RoleSel r u a b => hdr4 84 r (4 + lenN u) ++ be16 (lenN u) ++ u ++ [a; b]
  | ImplVersion r n => hdr4 85 r (lenN n) ++ n
  | ExtNeg r u a => hdr4 86 r (2 + lenN u + lenN a) ++ be16 (lenN u) ++ u ++ a
  | UserId r t q p s => hdr4 88 r (6 + lenN p + lenN s) ++ [t; q] ++ be16 (lenN p) ++ p ++ be16 (lenN s) ++ s
  | UserIdAc r s => hdr4 89 r (2 + lenN s) ++ be16 (lenN s) ++ s
  | Generic t r d => hdr4 t r (lenN d) ++ d
  end.

Definition syntax_total_length (x : syntax_item) : N := 4 + lenN (sy_name x).
Definition encode_syntax (t : N) (x : syntax_item) : bytes :=
  hdr4 t (sy_reserved x) (lenN (sy_name x)) ++ sy_name x.

Definition sum_map {A} (f : A -> N) (l : list A) : N := fold_right (fun x acc => f x + acc) 0 l.

Definition item_length (x : item) : N :=
  match x with
  | AppCtx _ n => lenN n
  | PcRq _ _ _ _ _ a ts => 4 + (syntax_total_length a + sum_map syntax_total_length ts)
  | PcAc _ _ _ _ _ t => 4 + syntax_total_length t
  | UserInfo _ subs => sum_map sub_total_length subs
  end.
Definition item_total_length (x : item) : N := 4 + item_length x.

Definition encode_item (x : item) : bytes :=
  match x with
  | AppCtx r n => hdr4 16 r (lenN n) ++ n
  | PcRq id r1 r2 r3 r4 a ts =>
      hdr4 32 r1 (item_length x) ++ [id; r2; r3; r4] ++ encode_syntax 48 a ++ concat (map (encode_syntax 64) ts)
  | PcAc id r1 r2 res r3 t =>
      hdr4 33 r1 (item_length x) ++ [id; r2; res; r3] ++ encode_syntax 64 t
  | UserInfo r subs => hdr4 80 r (item_length x) ++ concat (map encode_sub subs)
  end.

Definition pdv_total_length (v : pdv) : N := 4 + (lenN (pdv_data v) + 1).
Definition encode_pdv (v : pdv) : bytes := be32 (lenN (pdv_data v) + 1) ++ [pdv_ctx v] ++ pdv_data v.

(* struct '16s': NUL padding on the right, silent truncation to 16 bytes *)
Definition pad16 (t : bytes) : bytes := take 16 (t ++ repeat 0 16).

Definition kind_code (k : akind) : N := match k with KRq => 1 | KAc => 2 end.

Definition pdu_length (p : pdu) : N :=
  match p with
  | Assoc _ _ _ _ _ _ _ items => 68 + sum_map item_total_length items
  | PData _ vs => sum_map pdv_total_length vs
  | _ => 4
  end.
Definition total_length (p : pdu) : N := 6 + pdu_length p.

Definition encode (p : pdu) : bytes :=
  match p with
  | Assoc k r1 ver r2 called calling r3 items =>
      [kind_code k; r1] ++ be32 (pdu_length p) ++ be16 ver ++ be16 r2 ++ pad16 called ++ pad16 calling
      ++ concat (map be32 r3) ++ concat (map encode_item items)
  | AssocRj r1 r2 res src rsn => [3; r1] ++ be32 4 ++ [r2; res; src; rsn]
  | PData r vs => [4; r] ++ be32 (pdu_length p) ++ concat (map encode_pdv vs)
  | RelRq r1 r2 => [5; r1] ++ be32 4 ++ be32 r2
  | RelRp r1 r2 => [6; r1] ++ be32 4 ++ be32 r2
  | Abort r1 r2 r3 src rsn => [7; r1] ++ be32 4 ++ [r2; r3; src; rsn]
  end.

(* struct.pack range conditions: encode() raises struct.error iff this is false *)
Definition b8 (n : N) : bool := n <? 256.
Definition b16 (n : N) : bool := n <? 65536.
Definition b32 (n : N) : bool := n <? 4294967296.

Definition packable_sub (x : subitem) : bool :=
  match x with
  | MaxLen r l m => b8 r && b16 l && b32 m
  | ImplClass r u => b8 r && b16 (lenN u)
  | AsyncOps r l a b => b8 r && b16 l && b16 a && b16 b
  | RoleSel r u a b => b8 r && b16 (4 + lenN u) && b8 a && b8 b
  | ImplVersion r n => b8 r && b16 (lenN n)
  | ExtNeg r u a => b8 r && b16 (2 + lenN u + lenN a)
  | UserId r t q p s => b8 r && b8 t && b8 q && b16 (6 + lenN p + lenN s)
  | UserIdAc r s => b8 r && b16 (2 + lenN s)
  | Generic t r d => b8 t && b8 r && b16 (lenN d)
  end.
Definition packable_syntax (x : syntax_item) : bool := b8 (sy_reserved x) && b16 (lenN (sy_name x)).
Definition packable_item (x : item) : bool :=
  match x with
  | AppCtx r n => b8 r && b16 (lenN n)
  | PcRq id r1 r2 r3 r4 a ts =>
      b8 id && b8 r1 && b8 r2 && b8 r3 && b8 r4 && b16 (item_length x) && packable_syntax a && forallb packable_syntax ts
  | PcAc id r1 r2 res r3 t => b8 id && b8 r1 && b8 r2 && b8 res && b8 r3 && b16 (item_length x) && packable_syntax t
  | UserInfo r subs => b8 r && b16 (item_length x) && forallb packable_sub subs
  end.
Definition packable (p : pdu) : bool :=
  match p with
  | Assoc _ r1 ver r2 _ _ r3 items =>
      b8 r1 && b16 ver && b16 r2 && (lenN r3 =? 8) && forallb b32 r3 && b32 (pdu_length p) && forallb packable_item items
  | AssocRj r1 r2 a b c => b8 r1 && b8 r2 && b8 a && b8 b && b8 c
  | PData r vs => b8 r && b32 (pdu_length p) && forallb (fun v => b8 (pdv_ctx v) && b32 (lenN (pdv_data v) + 1)) vs
  | RelRq r1 r2 | RelRp r1 r2 => b8 r1 && b32 r2
  | Abort r1 r2 r3 a b => b8 r1 && b8 r2 && b8 r3 && b8 a && b8 b
  end.

(* ---------------------------------------------------------------- decode *)
(* bytes.decode(): strict UTF-8;  pydicom.uid.UID(str): str.strip() *)
Definition dec_text (raw : bytes) : result bytes :=
  if utf8_valid raw then Ok raw else Err UnicodeError.
Definition dec_uid (raw : bytes) : result bytes :=
  let* t := dec_text raw in Ok (strip_ws t).

(* a 4-byte item header followed by a field of the announced length (short reads allowed) *)
Definition split4 (s : bytes) : result (N * N * N * bytes) :=
  let* (h, rest) := read_exact 4 s in
  match h with
  | [t; r; l1; l2] => Ok (t, r, un16 l1 l2, rest)
  | _ => Err StructError
  end.

Definition dec_sub (t : N) (s : bytes) : result (subitem * bytes) :=
  if t =? 81 then
    let* (h, rest) := read_exact 8 s in
    match h with
    | [_; r; l1; l2; a; b; c; d] => Ok (MaxLen r (un16 l1 l2) (un32 a b c d), rest)
    | _ => Err StructError
    end
  else if t =? 82 then
    let* (_, r, len, rest) := split4 s in
    let* u := dec_uid (take len rest) in Ok (ImplClass r u, drop len rest)
  else if t =? 83 then
    let* (h, rest) := read_exact 8 s in
    match h with
    | [_; r; l1; l2; a1; a2; b1; b2] => Ok (AsyncOps r (un16 l1 l2) (un16 a1 a2) (un16 b1 b2), rest)
    | _ => Err StructError
    end
  else if t =? 84 then
    let* (h, rest) := read_exact 6 s in
    match h with
    | [_; r; _; _; u1; u2] =>
        let ulen := un16 u1 u2 in
        let* u := dec_uid (take ulen rest) in
        let* (ab, rest2) := read_exact 2 (drop ulen rest) in
        match ab with
        | [a; b] => Ok (RoleSel r u a b, rest2)
        | _ => Err StructError
        end
    | _ => Err StructError
    end
  else if t =? 85 then
    let* (_, r, len, rest) := split4 s in
    let* n := dec_text (take len rest) in Ok (ImplVersion r n, drop len rest)
  else if t =? 86 then
    let* (h, rest) := read_exact 6 s in
    match h with
    | [_; r; l1; l2; u1; u2] =>
        let ilen := un16 l1 l2 in
        let ulen := un16 u1 u2 in
        let* u := dec_uid (take ulen rest) in
        let rest1 := drop ulen rest in
        (* app_info_length = item_length - uid_length - 2; a negative read() size reads everything *)
        if ilen <? ulen + 2 then Ok (ExtNeg r u rest1, [])
        else Ok (ExtNeg r u (take (ilen - ulen - 2) rest1), drop (ilen - ulen - 2) rest1)
    | _ => Err StructError
    end
  else if t =? 88 then
    let* (h, rest) := read_exact 8 s in
    match h with
    | [_; r; _; _; ty; rq; p1; p2] =>
        let plen := un16 p1 p2 in
        let praw := take plen rest in
        let* (sl, rest2) := read_exact 2 (drop plen rest) in
        match sl with
        | [s1; s2] =>
            let slen := un16 s1 s2 in
            let* p := dec_text praw in
            let* q := dec_text (take slen rest2) in
            Ok (UserId r ty rq p q, drop slen rest2)
        | _ => Err StructError
        end
    | _ => Err StructError
    end
  else if t =? 89 then
    let* (h, rest) := read_exact 6 s in
    match h with
    | [_; r; _; _; l1; l2] =>
        let len := un16 l1 l2 in
        let* x := dec_text (take len rest) in Ok (UserIdAc r x, drop len rest)
    | _ => Err StructError
    end
  else
    let* (ty, r, len, rest) := split4 s in Ok (Generic ty r (take len rest), drop len rest).

(* UserInformationItem.sub_items: `while item_type:` — stops at end of stream or on a zero type byte *)
Fixpoint dec_subs (fuel : nat) (s : bytes) : result (list subitem * bytes) :=
  match fuel with
  | O => Err OutOfFuel
  | S f =>
    match s with
    | [] => Ok ([], [])
    | t :: _ =>
      if t =? 0 then Ok ([], s)
      else let* (x, rest) := dec_sub t s in
           let* (xs, rest') := dec_subs f rest in Ok (x :: xs, rest')
    end
  end.

(* Abstract/Transfer syntax sub-item: the type byte is not examined; UID(...) strips *)
Definition dec_syntax (s : bytes) : result (syntax_item * bytes) :=
  let* (_, r, len, rest) := split4 s in
  let* n := dec_uid (take len rest) in Ok ({| sy_reserved := r; sy_name := n |}, drop len rest).

(* `while _next_type(stream) == 0x40` *)
Fixpoint dec_tss (fuel : nat) (s : bytes) : result (list syntax_item * bytes) :=
  match fuel with
  | O => Err OutOfFuel
  | S f =>
    match s with
    | t :: _ =>
      if t =? 64 then
        let* (x, rest) := dec_syntax s in
        let* (xs, rest') := dec_tss f rest in Ok (x :: xs, rest')
      else Ok ([], s)
    | [] => Ok ([], [])
    end
  end.

Definition dec_item (t : N) (s : bytes) : result (item * bytes) :=
  if t =? 16 then
    let* (_, r, len, rest) := split4 s in
    let* n := dec_text (take len rest) in Ok (AppCtx r n, drop len rest)
  else if t =? 32 then
    let* (h, rest) := read_exact 8 s in
    match h with
    | [_; r1; _; _; id; r2; r3; r4] =>
        let* (a, rest1) := dec_syntax rest in
        let* (ts, rest2) := dec_tss (S (length rest1)) rest1 in
        Ok (PcRq id r1 r2 r3 r4 a ts, rest2)
    | _ => Err StructError
    end
  else if t =? 33 then
    let* (h, rest) := read_exact 8 s in
    match h with
    | [_; r1; _; _; id; r2; res; r3] =>
        let* (x, rest1) := dec_syntax rest in Ok (PcAc id r1 r2 res r3 x, rest1)
    | _ => Err StructError
    end
  else if t =? 80 then
    let* (_, r, _, rest) := split4 s in
    let* (subs, rest1) := dec_subs (S (length rest)) rest in Ok (UserInfo r subs, rest1)
  else Err PduError.

(* iter_items of AAssociatePDUBase.decode: `while item_type:` *)
Fixpoint dec_items (fuel : nat) (s : bytes) : result (list item) :=
  match fuel with
  | O => Err OutOfFuel
  | S f =>
    match s with
    | [] => Ok []
    | t :: _ =>
      if t =? 0 then Ok []
      else let* (x, rest) := dec_item t s in
           let* xs := dec_items f rest in Ok (x :: xs)
    end
  end.

Fixpoint un32s (l : bytes) : list N :=
  match l with
  | a :: b :: c :: d :: r => un32 a b c d :: un32s r
  | _ => []
  end.

Definition dec_assoc (k : akind) (s : bytes) : result pdu :=
  let* (h, rest) := read_exact 74 s in
  match h with
  | _ :: r1 :: _ :: _ :: _ :: _ :: v1 :: v2 :: q1 :: q2 :: h' =>
      let called_raw := take 16 h' in
      let h'' := drop 16 h' in
      let calling_raw := take 16 h'' in
      let r3 := un32s (drop 16 h'') in
      let* called := dec_text (strip_nul called_raw) in
      let* calling := dec_text (strip_nul calling_raw) in
      let* items := dec_items (S (length rest)) rest in
      Ok (Assoc k r1 (un16 v1 v2) (un16 q1 q2) called calling r3 items)
  | _ => Err StructError
  end.

(* PresentationDataValueItem.decode: read(item_length - 1); read(-1) reads everything *)
Definition dec_pdv (s : bytes) : result (pdv * bytes) :=
  let* (h, rest) := read_exact 5 s in
  match h with
  | [a; b; c; d; ctx] =>
      let ilen := un32 a b c d in
      if ilen =? 0 then Ok ({| pdv_ctx := ctx; pdv_data := rest |}, [])
      else Ok ({| pdv_ctx := ctx; pdv_data := take (ilen - 1) rest |}, drop (ilen - 1) rest)
  | _ => Err StructError
  end.

(* `while length_read != pdu_length` *)
Fixpoint dec_pdvs (fuel : nat) (read target : N) (s : bytes) : result (list pdv) :=
  match fuel with
  | O => Err OutOfFuel
  | S f =>
    if read =? target then Ok []
    else let* (v, rest) := dec_pdv s in
         let* vs := dec_pdvs f (read + pdv_total_length v) target rest in Ok (v :: vs)
  end.

Definition dec_pdata (s : bytes) : result pdu :=
  let* (h, rest) := read_exact 6 s in
  match h with
  | [_; r; a; b; c; d] =>
      let* vs := dec_pdvs (S (S (length rest))) 0 (un32 a b c d) rest in Ok (PData r vs)
  | _ => Err StructError
  end.

Definition dec_fixed (t : N) (s : bytes) : result pdu :=
  let* (h, _) := read_exact 10 s in
  match h with
  | [_; r1; _; _; _; _; a; b; c; d] =>
      if t =? 3 then Ok (AssocRj r1 a b c d)
      else if t =? 5 then Ok (RelRq r1 (un32 a b c d))
      else if t =? 6 then Ok (RelRp r1 (un32 a b c d))
      else Ok (Abort r1 a b c d)
  | _ => Err StructError
  end.

(* PDU_TYPES[type].decode(raw) *)
Definition decode_as (t : N) (s : bytes) : result pdu :=
  if t =? 1 then dec_assoc KRq s
  else if t =? 2 then dec_assoc KAc s
  else if t =? 4 then dec_pdata s
  else if (t =? 3) || (t =? 5) || (t =? 6) || (t =? 7) then dec_fixed t s
  else Err KeyError.

Definition type_of (p : pdu) : N :=
  match p with
  | Assoc k _ _ _ _ _ _ _ => kind_code k
  | AssocRj _ _ _ _ _ => 3
  | PData _ _ => 4
  | RelRq _ _ => 5
  | RelRp _ _ => 6
  | Abort _ _ _ _ _ => 7
  end.
