(* Model/NegoPdu.v — the negotiation functions of Model/Negotiation.v at the level of PDU values:
   AssociationAcceptor.accept, AssociationRequester._request (building the A-ASSOCIATE-RQ and reading
   the A-ASSOCIATE-AC). *)
From PND Require Import Lib.Base Lib.Text Model.Pdu Model.Negotiation.

Definition proposal_of (x : item) : option proposal :=
  match x with
  | PcRq id _ _ _ _ a tss => Some (mkprop id (sy_name a) (map sy_name tss))
  | _ => None
  end.

Fixpoint middle {A} (l : list A) : list A :=        (* variable_items[1:-1] *)
  match l with
  | _ :: r => removelast r
  | [] => []
  end.

(* the transfer-syntax sub-item object the acceptor puts in its answer: the proposed one, or a new
   TransferSyntaxSubItem('') *)
Fixpoint chosen_item (cfg : acfg) (tss : list syntax_item) : option syntax_item :=
  match tss with
  | [] => None
  | t :: r => if mem_b (sy_name t) (a_ts cfg) then Some t else chosen_item cfg r
  end.

Definition answer_item (cfg : acfg) (x : item) : option item :=
  match x with
  | PcRq id _ _ _ _ a tss =>
      if mem_b (sy_name a) (a_served cfg) then
        match chosen_item cfg tss with
        | Some t => Some (PcAc id 0 0 0 0 t)
        | None => Some (PcAc id 0 0 1 0 {| sy_reserved := 0; sy_name := [] |})
        end
      else Some (PcAc id 0 0 1 0 {| sy_reserved := 0; sy_name := [] |})
  | _ => None            (* the code reads .context_id / .abs_sub_item of whatever is there: AttributeError *)
  end.

Fixpoint map_opt {A B} (f : A -> option B) (l : list A) : option (list B) :=
  match l with
  | [] => Some []
  | x :: r => match f x, map_opt f r with Some y, Some ys => Some (y :: ys) | _, _ => None end
  end.

(* the Maximum Length sub-item is looked up by its type, wherever it stands among the user-information sub-items
   (find_max_length_sub_item); the acceptor overwrites the value of that very sub-item in its reply and, when the
   requestor announced nothing (= no limit), puts a new sub-item in front *)
Fixpoint find_maxlen (subs : list subitem) : option N :=
  match subs with
  | [] => None
  | MaxLen _ _ peer :: _ => Some peer
  | _ :: r => find_maxlen r
  end.

Fixpoint set_maxlen (v : N) (subs : list subitem) : list subitem :=
  match subs with
  | [] => []
  | MaxLen mr ml _ :: r => MaxLen mr ml v :: r
  | s :: r => s :: set_maxlen v r
  end.

Definition peer_announced (subs : list subitem) : N :=
  match find_maxlen subs with Some p => p | None => 0 end.

Definition announce (v : N) (subs : list subitem) : list subitem :=
  match find_maxlen subs with Some _ => set_maxlen v subs | None => MaxLen 0 4 v :: subs end.

Record accepted := mkacc {
  acc_pdu : pdu;                                   (* the A-ASSOCIATE-AC handed to the provider *)
  acc_table : list (N * bytes * bytes);            (* sop_classes_as_scp / accepted_contexts *)
  acc_max : N;                                     (* the acceptor's own sending limit afterwards *)
  acc_remote : bytes }.

Definition accept_pdu (cfg : acfg) (own : N) (rq : pdu) : option accepted :=
  match rq with
  | Assoc _ _ _ _ called calling _ items =>
      match items, last items (AppCtx 0 []) with
      | first :: _, UserInfo ur subs =>
          let newmax := eff_limit own (peer_announced subs) in
          match map_opt (answer_item cfg) (middle items), map_opt proposal_of (middle items) with
          | Some ans, Some props =>
              Some (mkacc (Assoc KAc 0 1 0 called calling [0;0;0;0;0;0;0;0]
                                 ([first] ++ ans ++ [UserInfo ur (announce newmax subs)]))
                          (served_table props (answers cfg props)) newmax calling)
          | _, _ => None
          end
      | _, _ => None
      end
  | _ => None
  end.

(* ---- requester ----------------------------------------------------------------------------------- *)
Definition APP_CONTEXT : bytes := [49;46;50;46;56;52;48;46;49;48;48;48;56;46;51;46;49;46;49;46;49].   (* 1.2.840.10008.3.1.1.1 *)

Definition request_pdu (called calling : bytes) (ctxs : list (N * bytes)) (ts_list : list bytes)
           (user_info : list subitem) : pdu :=
  Assoc KRq 0 1 0 called calling [0;0;0;0;0;0;0;0]
    ([AppCtx 0 APP_CONTEXT]
     ++ map (fun c => PcRq (fst c) 0 0 0 0 {| sy_reserved := 0; sy_name := snd c |}
                           (map (fun t => {| sy_reserved := 0; sy_name := t |}) ts_list)) ctxs
     ++ [UserInfo 0 user_info]).

Definition answer_of (x : item) : option answer :=
  match x with
  | PcAc id _ _ res _ t => Some (mkans id res (sy_name t))
  | _ => None
  end.

Record replied := mkrep { rep_usable : list (N * bytes * bytes); rep_max : N }.

(* reading the A-ASSOCIATE-AC: maximum length from the Maximum Length sub-item (any position), accepted contexts *)
Definition read_reply (own : N) (ctxs : list (N * bytes)) (ac : pdu) : option replied :=
  match ac with
  | Assoc _ _ _ _ _ _ _ items =>
      match last items (AppCtx 0 []) with
      | UserInfo _ subs =>
          let newmax := match find_maxlen subs with
                        | Some peer => eff_limit own peer
                        | None => own
                        end in
          match map_opt answer_of (middle items) with
          | Some ans => Some (mkrep (usable ctxs ans) newmax)
          | None => None
          end
      | _ => None
      end
  | _ => None
  end.
