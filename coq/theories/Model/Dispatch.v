(* Model/Dispatch.v — AssociationAcceptor._loop: which presentation context a request is served on.
   `table` is sop_classes_as_scp as accept() filled it (context id, abstract syntax, chosen transfer syntax), `served`
   the SOP classes the entity has a service for.  A message (its SOP class uid) arriving on context id pc is served iff
   pc is an accepted context and the entity serves the class; the context handed to the service is the one the message
   ARRIVED on: its id, the abstract syntax and the transfer syntax accepted for THAT id - also when the same abstract
   syntax was accepted on other ids with other transfer syntaxes. *)
From PND Require Import Lib.Base Lib.Text Model.Negotiation.

Definition entry := (N * bytes * bytes)%type.
Definition e_id (e : entry) : N := fst (fst e).

Fixpoint lookup (pc : N) (t : list entry) : option entry :=
  match t with
  | [] => None
  | e :: r => if e_id e =? pc then Some e else lookup pc r
  end.

Definition dispatch (served : list bytes) (t : list entry) (pc : N) (uid : bytes) : option entry :=
  match lookup pc t with
  | Some (_, sop, ts) => if mem_b uid served then Some (pc, sop, ts) else None
  | None => None
  end.
