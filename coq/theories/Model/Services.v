(* Model/Services.v — the service classes of sopclass.py as functions from a request (and the
   application handler's outcome) to the list of responses handed to Association.send, with the
   repairs D14 (C-ECHO response carries the SOP class; N-EVENT-REPORT response carries the message id
   and is sent also on a handler error) and D16 (C-MOVE counters, nothing-to-move returns). *)
From PND Require Import Lib.Base Lib.Text.

Record rq := mkrq {
  q_cf : N; q_pc : N; q_mid : N; q_sop : bytes; q_inst : option bytes; q_data : bytes }.

Record rsp := mkrsp {
  o_cf : N; o_pc : N;
  o_mid : option N;              (* Message ID Being Responded To *)
  o_sop : option bytes;          (* Affected SOP Class UID *)
  o_inst : option bytes;         (* Affected SOP Instance UID *)
  o_status : option N;
  o_rem : option N; o_comp : option N; o_fail : option N; o_warn : option N;   (* sub-operation counters *)
  o_data : bytes }.

(* what the application handler did *)
Inductive outcome := HStatus (code : N) | HError.     (* returned a status / raised EventHandlingError *)

Definition PROCESSING_FAILURE : N := 272.             (* 0110H *)
Definition CANNOT_UNDERSTAND : N := 49152.            (* C000H *)
Definition UNABLE_TO_PROCESS : N := 49152.            (* C000H (C-GET) *)
Definition PENDING : N := 65280.                      (* FF00H *)

Definition status_of (o : outcome) (on_error : N) : N :=
  match o with HStatus c => c | HError => on_error end.

Definition simple_rsp (cf : N) (q : rq) (inst : option bytes) (status : N) : rsp :=
  mkrsp cf (q_pc q) (Some (q_mid q)) (Some (q_sop q)) inst (Some status) None None None None [].

(* verification_scp *)
Definition echo_scp (q : rq) (o : outcome) : list rsp :=
  [simple_rsp 32816 q None (status_of o PROCESSING_FAILURE)].

(* storage_scp *)
Definition store_scp (q : rq) (o : outcome) : list rsp :=
  [simple_rsp 32769 q (q_inst q) (status_of o CANNOT_UNDERSTAND)].

(* the C-STORE response qr_get_scu sends for an incoming C-STORE request *)
Definition get_scu_store_rsp (q : rq) (o : outcome) : rsp :=
  simple_rsp 32769 q (q_inst q) (status_of o UNABLE_TO_PROCESS).

(* qr_find_scp: one pending response per match, then the final one *)
Definition find_scp (q : rq) (matches : list (bytes * N)) : list rsp :=
  map (fun m => mkrsp 32800 (q_pc q) (Some (q_mid q)) (Some (q_sop q)) None (Some (snd m)) None None None None (fst m))
      matches
  ++ [simple_rsp 32800 q None 0].

(* qr_find_scu: yields (data set or None, status) until a status that is not pending *)
Definition find_pending (code : N) : bool := (code =? 65280) || (code =? 65281).
Fixpoint find_scu (responses : list (bytes * N)) : list (option bytes * N) :=
  match responses with
  | [] => []
  | (d, s) :: r =>
      let y := (match d with [] => None | _ => Some d end, s) in
      if find_pending s then y :: find_scu r else [y]
  end.

(* ---- C-GET user ---------------------------------------------------------------------------------- *)
Inductive incoming :=
| GetRsp (status : N)                       (* a C-GET-RSP *)
| StoreRq (q : rq) (o : outcome).           (* a C-STORE-RQ and what on_receive_store does with it *)

Definition get_pending (code : N) : bool := code =? 65280.

(* returns (C-STORE responses sent, instances handed to the caller), consuming messages until the
   final C-GET response *)
Fixpoint get_scu (msgs : list incoming) : list rsp * list rq :=
  match msgs with
  | [] => ([], [])
  | GetRsp s :: r => if get_pending s then get_scu r else ([], [])
  | StoreRq q o :: r =>
      let (rs, ys) := get_scu r in
      (get_scu_store_rsp q o :: rs, match o with HStatus _ => q :: ys | HError => ys end)
  end.

(* ---- C-MOVE provider ------------------------------------------------------------------------------ *)
Inductive subclass := SubSuccess | SubWarning | SubFailure.    (* class of the sub-operation's C-STORE status *)

Definition move_rsp (q : rq) (status rem comp fail warn : N) : rsp :=
  mkrsp 32801 (q_pc q) (Some (q_mid q)) (Some (q_sop q)) None (Some status)
        (Some rem) (Some comp) (Some fail) (Some warn) [].

(* loop over the instances the application supplies: counters after each sub-operation *)
Fixpoint move_loop (q : rq) (nop : N) (subs : list subclass) (done failed warned : N) : list rsp :=
  match subs with
  | [] => [move_rsp q 0 (nop - done) done failed warned]
  | s :: r =>
      let failed' := match s with SubFailure => failed + 1 | _ => failed end in
      let warned' := match s with SubWarning => warned + 1 | _ => warned end in
      let done' := done + 1 in
      move_rsp q PENDING (nop - done') done' failed' warned' :: move_loop q nop r done' failed' warned'
  end.

(* nop = number of operations announced by the application; 0 = nothing to move / unknown destination *)
Definition move_scp (q : rq) (nop : N) (subs : list subclass) : list rsp :=
  if nop =? 0 then [move_rsp q 0 0 0 0 0] else move_loop q nop subs 0 0 0.

(* ---- storage commitment ----------------------------------------------------------------------------- *)
Definition PUSH_MODEL_INSTANCE : bytes := [49;46;50;46;56;52;48;46;49;48;48;48;56;46;49;46;50;48;46;49;46;49].

(* on_commitment_request returns the plan for the later N-EVENT-REPORT, not a status: success unless it raises *)
Definition n_action_scp (q : rq) (o : outcome) : list rsp :=
  [simple_rsp 33072 q (Some PUSH_MODEL_INSTANCE) (match o with HStatus _ => 0 | HError => PROCESSING_FAILURE end)].

Definition n_event_report_scp (q : rq) (o : outcome) : list rsp :=
  [simple_rsp 33024 q (q_inst q) (match o with HStatus _ => 0 | HError => PROCESSING_FAILURE end)].
