(* Model/Framing.v — the sequence of PDU frames the provider's buffer discipline recognises
   (DULServiceProvider._process_incoming applied until it finds no complete frame). *)
From PND Require Import Lib.Base Lib.Text Model.Pdu Model.CmdSet Model.Decoder Spec.Ps38Table Model.Fsm Model.Provider.

Fixpoint frames_fuel (fuel : nat) (buf : bytes) : list bytes * bytes :=
  match fuel with
  | O => ([], buf)
  | S f =>
    match frame_of buf with
    | Some (fr, rest) => let (fs, r) := frames_fuel f rest in (fr :: fs, r)
    | None => ([], buf)
    end
  end.

(* all complete frames at the head of a buffer, and the leftover *)
Definition frames (buf : bytes) : list bytes * bytes := frames_fuel (S (length buf)) buf.

(* the buffer is fed segment by segment; after each segment every complete frame is taken out *)
Fixpoint feed (buf : bytes) (segs : list bytes) : list bytes * bytes :=
  match segs with
  | [] => frames buf
  | s :: r =>
    let (fs, b') := frames (buf ++ s) in
    let (gs, b'') := feed b' r in (fs ++ gs, b'')
  end.
