(* Model/Fsm.v — the control part of DULServiceProvider.run / StateMachine: everything the loop's
   decisions depend on, as a FINITE state, driven by the finite classification of what the
   environment delivered in one iteration.  The data part (buffers, PDU values, wire bytes) lives in
   Model/Provider.v, which calls `cstep` for every control decision, so every invariant proved here
   for all input sequences holds along every concrete run.

   The model is of the code with the repairs D3 (events are polled only when the event deque is
   empty), D4-D6 (C04), D7 (a decode / reassembly error is Evt19 / AA-8), D8 (no blocking read in
   Sta13), D18 (undefined state/event pairs are ignored) and D23 (a failed write is a closed transport
   connection: `wf`). *)
From PND Require Import Lib.Base Spec.Ps38Table.

(* abort source classes (the source byte of an A-ABORT PDU) *)
Inductive asrc := S0 | S2 | SOther.

(* kind of the PDU / primitive in the provider's `primitive` slot *)
Inductive kind := KNone | KRq | KAc | KRj | KData | KRelRq | KRelRp | KAbort (s : asrc).

Inductive outcome := Running | Returned | Crashed.

Record ctrl := mkctrl {
  c_st : N;               (* protocol state 1..13 *)
  c_sock : bool;          (* dul_socket is not None *)
  c_tmr : bool;           (* ARTIM running *)
  c_pend : option N;      (* the event deque (at most one event once D3 is repaired) *)
  c_pk : kind;            (* kind of `primitive` *)
  c_gen : bool;           (* dimse_gen is set *)
  c_rcv : bool;           (* a DIMSE message is partly reassembled (dimse_decoder is not None) *)
  c_req : bool;           (* association requestor *)
  c_out : outcome;
}.

(* what the environment delivered / answered in one iteration *)
Inductive net := NNone | NEof | NErr | NBad | NPdu (k : kind).
Inductive usr := UNone | UPdu (k : kind) | UMsg | UMsgEmpty.
Inductive genans := GNext | GEnd.
Inductive decans := DIncomplete | DComplete | DError.

Record input := mkin {
  i_kill : bool; i_net : net; i_usr : usr; i_gen : genans; i_expired : bool; i_dec : decans }.

(* observable outputs of one iteration.  `fresh = true`: a PDU built by the provider with default
   fields (A-RELEASE-RQ/RP, A-ABORT with the source of the kind and reason 0); `fresh = false`: the
   value in the `primitive` slot when the action started. *)
Inductive output :=
| OSend (k : kind) (fresh : bool)   (* written to the transport *)
| OInd (k : kind) (fresh : bool)    (* handed to the local user *)
| OIndData                          (* a complete DIMSE message handed to the local user *)
| OClose | OOpen
| OSetPrim (k : kind)               (* slot := fresh PDU of this kind *)
| OClearPrim                        (* slot := None *)
| OTStart.                          (* ARTIM (re)started: start time := now *)

(* PDU_TYPES: received PDU -> event;  PDU_TO_EVENT: user primitive -> event *)
Definition evt_of_net (k : kind) : option N :=
  match k with
  | KRq => Some 6 | KAc => Some 3 | KRj => Some 4 | KData => Some 10
  | KRelRq => Some 12 | KRelRp => Some 13 | KAbort _ => Some 16 | KNone => None
  end.
Definition evt_of_usr (k : kind) : option N :=
  match k with
  | KRq => Some 1 | KAc => Some 7 | KRj => Some 8 | KData => Some 9
  | KRelRq => Some 11 | KRelRp => Some 14 | KAbort _ => Some 15 | KNone => None
  end.

Definition set_st (c : ctrl) (s : N) : ctrl :=
  mkctrl s (c_sock c) (c_tmr c) (c_pend c) (c_pk c) (c_gen c) (c_rcv c) (c_req c) (c_out c).
Definition set_sock (c : ctrl) (b : bool) : ctrl :=
  mkctrl (c_st c) b (c_tmr c) (c_pend c) (c_pk c) (c_gen c) (c_rcv c) (c_req c) (c_out c).
Definition set_tmr (c : ctrl) (b : bool) : ctrl :=
  mkctrl (c_st c) (c_sock c) b (c_pend c) (c_pk c) (c_gen c) (c_rcv c) (c_req c) (c_out c).
Definition set_pend (c : ctrl) (e : option N) : ctrl :=
  mkctrl (c_st c) (c_sock c) (c_tmr c) e (c_pk c) (c_gen c) (c_rcv c) (c_req c) (c_out c).
Definition set_pk (c : ctrl) (k : kind) : ctrl :=
  mkctrl (c_st c) (c_sock c) (c_tmr c) (c_pend c) k (c_gen c) (c_rcv c) (c_req c) (c_out c).
Definition set_gen (c : ctrl) (b : bool) : ctrl :=
  mkctrl (c_st c) (c_sock c) (c_tmr c) (c_pend c) (c_pk c) b (c_rcv c) (c_req c) (c_out c).
Definition set_rcv (c : ctrl) (b : bool) : ctrl :=
  mkctrl (c_st c) (c_sock c) (c_tmr c) (c_pend c) (c_pk c) (c_gen c) b (c_req c) (c_out c).
Definition set_out (c : ctrl) (o : outcome) : ctrl :=
  mkctrl (c_st c) (c_sock c) (c_tmr c) (c_pend c) (c_pk c) (c_gen c) (c_rcv c) (c_req c) o.

(* ---- actions (fsm.py), one clause per method ---------------------------------------------- *)
(* a send on a missing transport is `None.sendall` -> AttributeError out of the loop *)
(* `wf` (write fails): the transport refuses the write (the peer has reset or closed the connection).
   sendall raises out of the action: nothing after it happens, the state does not change; run() closes
   the socket and queues Evt17 (repair D23). *)
Definition write_failed (c : ctrl) : ctrl * list output := (set_pend (set_sock c false) (Some 17), [OClose]).

Definition send (wf : bool) (c : ctrl) (k : kind) (fresh : bool) (next : ctrl -> ctrl * list output)
  : ctrl * list output :=
  if c_sock c then
    if wf then write_failed c
    else let (c', outs) := next c in (c', OSend k fresh :: outs)
  else (set_out c Crashed, []).

Definition close (c : ctrl) : ctrl * list output :=
  if c_sock c then (set_sock c false, [OClose]) else (set_out c Crashed, []).

(* self.primitive = <fresh PDU> *)
Definition fresh (k : kind) (r : ctrl * list output) : ctrl * list output :=
  (fst r, OSetPrim k :: snd r).

Definition aa8 (wf : bool) (c : ctrl) : ctrl * list output :=
  let c1 := set_pk c (KAbort S2) in
  fresh (KAbort S2)
    (if c_sock c1 then
       if wf then write_failed c1
       else (set_st (set_tmr c1 true) 13, [OSend (KAbort S2) true; OInd (KAbort S2) true; OTStart])
     else (set_st c1 13, [])).

Definition actw (wf : bool) (a : action) (c : ctrl) (dec : decans) : ctrl * list output :=
  let send := send wf in
  let aa8 := aa8 wf in
  let pk := c_pk c in
  match a with
  | AE1 => (set_st (set_sock c true) 4, [OOpen])
  | AE2 => send c pk false (fun c => (set_st c 5, []))
  | AE3 => (set_st c 6, [OInd pk false])
  | AE4 => let (c', o) := close c in (set_st c' 1, OInd pk false :: o)
  | AE5 => (set_st (set_tmr c true) 2, [OTStart])
  | AE6 => (set_st (set_tmr c false) 3, [OInd pk false])
  | AE7 => send c pk false (fun c => (set_st c 6, []))
  | AE8 => send c pk false (fun c => (set_st (set_tmr c true) 13, [OTStart]))
  | DT1 => send c pk false (fun c => (set_st (set_pk c KNone) 6, [OClearPrim]))
  | DT2 | AR6 =>
      let back := match a with DT2 => 6 | _ => 7 end in
      match dec with
      | DIncomplete => (set_st (set_rcv c true) back, [])
      | DComplete => (set_st (set_rcv c false) back, [OIndData])
      | DError => aa8 (set_rcv c false)
      end
  | AR1 => fresh KRelRq (send (set_pk c KRelRq) KRelRq true (fun c => (set_st c 7, [])))
  | AR2 => (set_st c 8, [OInd pk false])
  | AR3 => let (c', o) := close c in (set_st c' 1, OInd pk false :: o)
  | AR4 => fresh KRelRp (send (set_pk c KRelRp) KRelRp true (fun c => (set_st (set_tmr c true) 13, [OTStart])))
  | AR5 => (set_st (set_tmr c false) 1, [])
  | AR7 => send c pk false (fun c => (set_st c 8, []))
  | AR8 => (set_st c (if c_req c then 9 else 10), [OInd pk false])
  | AR9 => fresh KRelRp (send (set_pk c KRelRp) KRelRp true (fun c => (set_st c 11, [])))
  | AR10 => (set_st c 12, [OInd pk false])
  | AA1 =>
      if c_st c =? 2 then
        fresh (KAbort S0) (send (set_pk c (KAbort S0)) (KAbort S0) true (fun c => (set_st (set_tmr c true) 13, [OTStart])))
      else send c pk false (fun c => (set_st (set_tmr c true) 13, [OTStart]))
  | AA2 => let (c', o) := close (set_tmr c false) in (set_st c' 1, o)
  | AA3 => let (c', o) := close c in (set_st c' 1, OInd pk false :: o)
  | AA4 => (set_st (set_pk c (KAbort S0)) 1, [OSetPrim (KAbort S0); OInd (KAbort S0) true])
  | AA5 => (set_st (set_tmr c false) 1, [])
  | AA6 => (set_st (set_pk c KNone) 13, [OClearPrim])
  | AA7 => fresh (KAbort S2) (send (set_pk c (KAbort S2)) (KAbort S2) true (fun c => (set_st c 13, [])))
  | AA8 => aa8 c
  end.

Definition act (a : action) (c : ctrl) (dec : decans) : ctrl * list output := actw false a c dec.

(* StateMachine.action: an undefined (event, state) pair is ignored *)
Definition dispatchw (wf : bool) (c : ctrl) (e : N) (dec : decans) : ctrl * list output :=
  match table e (c_st c) with
  | Some a => actw wf a c dec
  | None => (c, [])
  end.
Definition dispatch (c : ctrl) (e : N) (dec : decans) : ctrl * list output := dispatchw false c e dec.

(* ---- one iteration of DULServiceProvider.run ------------------------------------------------- *)
(* _check_network() or _check_outgoing_pdu() or _check_timer(): at most one new event *)
Definition poll_timer (c : ctrl) (i : input) : ctrl * option N * list output :=
  if c_tmr c && i_expired i then (c, Some 18, []) else (c, None, []).

Definition poll_queue (c : ctrl) (i : input) : ctrl * option N * list output :=
  match i_usr i with
  | UNone => poll_timer c i
  | UPdu k => match evt_of_usr k with
              | Some e => (set_pk c k, Some e, [])
              | None => (set_out c Crashed, None, [])
              end
  | UMsg => (set_pk (set_gen c true) KData, Some 9, [])
  | UMsgEmpty => (set_out (set_gen c true) Crashed, None, [])
  end.

Definition poll_outgoing (c : ctrl) (i : input) : ctrl * option N * list output :=
  if c_gen c then
    match i_gen i with
    | GNext => (set_pk c KData, Some 9, [])
    | GEnd => poll_queue (set_gen c false) i
    end
  else poll_queue c i.

Definition poll (c : ctrl) (i : input) : ctrl * option N * list output :=
  if c_sock c then
    if c_st c =? 4 then (c, Some 2, [])
    else match i_net i with
         | NEof | NErr => (set_sock c false, Some 17, [OClose])
         | NBad => (c, Some 19, [])
         | NPdu k => match evt_of_net k with
                     | Some e => (set_pk c k, Some e, [])
                     | None => (c, Some 19, [])
                     end
         | NNone => poll_outgoing c i
         end
  else poll_outgoing c i.

Definition cstep0w (wf : bool) (c : ctrl) (i : input) : ctrl * list output :=
  match c_out c with
  | Running =>
    if i_kill i then (set_out c Returned, [])
    else
      match c_pend c with
      | Some e => dispatchw wf (set_pend c None) e (i_dec i)
      | None =>
        match poll c i with
        | (c1, Some e, o1) =>
            match c_out c1 with
            | Running => let (c2, o2) := dispatchw wf c1 e (i_dec i) in (c2, o1 ++ o2)
            | _ => (c1, o1)
            end
        | (c1, None, o1) => (c1, o1)
        end
      end
  | _ => (c, [])
  end.

(* run(): `except Exception: self.to_service_user.put(AAbortPDU(source=0, reason_diag=0)); raise` *)
Definition cstepw (wf : bool) (c : ctrl) (i : input) : ctrl * list output :=
  let (c', o) := cstep0w wf c i in
  match c_out c, c_out c' with
  | Running, Crashed => (c', o ++ [OInd (KAbort S0) true])
  | _, _ => (c', o)
  end.
(* the transport accepts every write: the setting of all theorems that do not mention `wf` *)
Definition cstep0 (c : ctrl) (i : input) : ctrl * list output := cstep0w false c i.
Definition cstep (c : ctrl) (i : input) : ctrl * list output := cstepw false c i.

(* DULServiceProvider.__init__: an acceptor starts with Evt5 queued and the client socket *)
Definition init (requestor : bool) : ctrl :=
  mkctrl 1 (negb requestor) false (if requestor then None else Some 5) KNone false false requestor Running.

(* ---- finite enumerations (for proofs by reflection) ------------------------------------------ *)
Definition all_src : list asrc := [S0; S2; SOther].
Definition pdu_kinds : list kind := [KRq; KAc; KRj; KData; KRelRq; KRelRp] ++ map KAbort all_src.
Definition all_net : list net := [NNone; NEof; NErr; NBad] ++ map NPdu pdu_kinds.
Definition all_usr : list usr := [UNone; UMsg] ++ map UPdu pdu_kinds.      (* legal user inputs *)
Definition all_gen : list genans := [GNext; GEnd].
Definition all_dec : list decans := [DIncomplete; DComplete; DError].
(* all legal inputs except the stop request, which is absorbing and treated separately *)
Definition all_inputs : list input :=
  flat_map (fun n => flat_map (fun u => flat_map (fun g => flat_map (fun x =>
    map (fun d => mkin false n u g x d) all_dec) [true; false]) all_gen) all_usr) all_net.
