(* Model/Storage.v — pynetdicom2._get_storage_file: choosing the file an incoming instance is stored
   in, over an abstract directory (the set of names that exist). *)
From PND Require Import Lib.Base Lib.Text.

Fixpoint mem_name (x : bytes) (l : list bytes) : bool :=
  match l with [] => false | y :: r => beq_bytes x y || mem_name x r end.

(* decimal digits of a number (str.format) *)
Fixpoint digits_fuel (fuel : nat) (n : N) (acc : bytes) : bytes :=
  match fuel with
  | O => acc
  | S f => let acc' := (48 + n mod 10) :: acc in
           if n / 10 =? 0 then acc' else digits_fuel f (n / 10) acc'
  end.
Definition digits (n : N) : bytes := digits_fuel 40 n [].

(* full_name = '{}_{}'.format(full_name, i) *)
Definition next_name (name : bytes) (i : N) : bytes := name ++ [95] ++ digits i.

(* i = 0; while os.path.exists(full_name): i += 1; full_name = '{}_{}'.format(full_name, i) *)
Fixpoint find_free (fuel : nat) (existing : list bytes) (name : bytes) (i : N) : option bytes :=
  match fuel with
  | O => None
  | S f => if mem_name name existing then find_free f existing (next_name name (i + 1)) (i + 1)
           else Some name
  end.

(* '<uid>.dcm' *)
Definition base_name (uid : bytes) : bytes := uid ++ [46; 100; 99; 109].

Definition storage_name (existing : list bytes) (uid : bytes) : option bytes :=
  find_free (S (length existing)) existing (base_name uid) 0.
