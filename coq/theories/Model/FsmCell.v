(* Model/FsmCell.v — one observed cell of the real StateMachine (regenerated from the code on every
   run) and its conformance to PS3.8 Table 9-10. *)
From PND Require Import Lib.Base Spec.Ps38Table.

(* what was seen on the wire / given to the user, already abstracted by the harness *)
Record sent := mksent { s_type : N; s_a : N; s_b : N; s_is_prim : bool }.   (* for A-ABORT: a = source, b = reason *)
Record given := mkgiven { g_type : N; g_a : N; g_is_prim : bool }.            (* 100 = DIMSE message *)

Record cell := mkcell {
  c_state : N; c_event : N; c_requestor : bool; c_prim : primkind;
  c_raised : bool;                 (* the call raised instead of returning *)
  c_next : N;                      (* protocol state afterwards *)
  c_wire : list sent; c_user : list given;
  c_closed : bool; c_opened : bool;
  c_timer_before : bool; c_timer_after : bool; c_timer_reset : bool;
}.

Definition is_nil {A} (l : list A) : bool := match l with [] => true | _ => false end.

Definition wire_ok (w : wire) (obs : list sent) : bool :=
  match w, obs with
  | WNone, [] => true
  | WPrim, [x] => s_is_prim x
  | WFresh t, [x] => s_type x =? t
  | WAbort None, [x] => (s_type x =? 7)
  | WAbort (Some src), [x] => (s_type x =? 7) && (s_a x =? src)
  | _, _ => false
  end.

Definition user_ok (u : user) (obs : list given) : bool :=
  match u, obs with
  | UNone, [] => true
  | UPrim, [x] => g_is_prim x
  | UData, [x] => g_type x =? 100
  | UAbort None, [x] => g_type x =? 7
  | UAbort (Some src), [x] => (g_type x =? 7) && (g_a x =? src)
  | _, _ => false
  end.

Definition artim_ok (t : artim) (before after reset : bool) : bool :=
  match t with
  | TNone => Bool.eqb after before && negb reset
  | TStart | TStartOrRestart => after && reset
  | TStop => negb after
  end.

Definition effects_ok (ef : effects) (c : cell) : bool :=
  negb (c_raised c)
  && wire_ok (e_wire ef) (c_wire c) && user_ok (e_user ef) (c_user c)
  && Bool.eqb (e_close ef) (c_closed c) && Bool.eqb (e_open ef) (c_opened c)
  && artim_ok (e_artim ef) (c_timer_before c) (c_timer_after c) (c_timer_reset c)
  && existsb (N.eqb (c_next c)) (e_next ef).

Definition conforms (c : cell) : bool :=
  match table (c_event c) (c_state c) with
  | Some a =>
      effects_ok (effects_of a (c_requestor c) (c_event c) (c_prim c)) c
      || (match a with AE6 => effects_ok ae6_reject c | _ => false end)
  | None =>
      (* undefined: rejected or ignored, but no effect on wire, user, connection, timer, state *)
      is_nil (c_wire c) && is_nil (c_user c) && negb (c_closed c) && negb (c_opened c)
      && Bool.eqb (c_timer_after c) (c_timer_before c) && negb (c_timer_reset c)
      && (c_next c =? c_state c)
  end.

(* every (state, event, role) combination is present in the table of observations *)
Definition covered (cells : list cell) (s e : N) (rq : bool) : bool :=
  existsb (fun c => (c_state c =? s) && (c_event c =? e) && Bool.eqb (c_requestor c) rq) cells.

Definition complete (cells : list cell) : bool :=
  forallb (fun s => forallb (fun e => covered cells s e true && covered cells s e false) events) states.

Definition check_cells (cells : list cell) : bool := complete cells && forallb conforms cells.
