(* Model/Multi.v — several associations on one application entity.  The entity's configuration is
   immutable while associations run; every association has its own state; a step of association i
   applies the single-association step function to (configuration, state of i, input).  The schedule
   is an arbitrary interleaving of (association id, input) pairs. *)
From PND Require Import Lib.Base.

Section Multi.
  Variables (cfg state input : Type).
  Variable step : cfg -> state -> input -> state.

  Definition system := list (N * state).

  Fixpoint get (i : N) (s : system) : option state :=
    match s with
    | [] => None
    | (j, x) :: r => if i =? j then Some x else get i r
    end.

  Fixpoint set (i : N) (x : state) (s : system) : system :=
    match s with
    | [] => []
    | (j, y) :: r => if i =? j then (j, x) :: r else (j, y) :: set i x r
    end.

  Definition sys_step (c : cfg) (s : system) (ev : N * input) : system :=
    match get (fst ev) s with
    | Some x => set (fst ev) (step c x (snd ev)) s
    | None => s
    end.

  Definition run_system (c : cfg) (sched : list (N * input)) (s : system) : system :=
    fold_left (sys_step c) sched s.

  (* the inputs of association i, in schedule order *)
  Definition project (i : N) (sched : list (N * input)) : list input :=
    map snd (filter (fun ev => fst ev =? i) sched).

  Definition run_single (c : cfg) (x : state) (ins : list input) : state := fold_left (step c) ins x.
End Multi.

(* message ids handed out by the convenience API: a per-thread counter *)
Definition new_msg_id (counter : option N) : N * option N :=
  match counter with
  | None => (1, Some 1)
  | Some n => (n + 1, Some (n + 1))
  end.

Fixpoint msg_ids (k : nat) (counter : option N) : list N :=
  match k with
  | O => []
  | S k' => let (id, c') := new_msg_id counter in id :: msg_ids k' c'
  end.
