(* Model/Status.v — the behaviour of statuses.Status as a run-length table that the
   harness regenerates from the code on every run (mechanism A), and its look-up. *)
From PND Require Import Lib.Base Spec.StatusSpec.

(* one run: codes lo..hi (inclusive) all have signature sg *)
Definition run := (N * N * N)%type.
Definition rle := list run.
(* table: per command (None = no class) its runs *)
Definition table := list (option N * rle).

Fixpoint lookup_rle (t : rle) (code : N) : option N :=
  match t with
  | [] => None
  | (lo, hi, sg) :: r => if in_range lo hi code then Some sg else lookup_rle r code
  end.

Definition beq_cmd (a b : option N) : bool :=
  match a, b with
  | None, None => true
  | Some x, Some y => x =? y
  | _, _ => false
  end.

Fixpoint lookup_cmd (t : table) (cmd : option N) : option rle :=
  match t with
  | [] => None
  | (c, r) :: rest => if beq_cmd c cmd then Some r else lookup_cmd rest cmd
  end.

Definition lookup (t : table) (cmd : option N) (code : N) : option N :=
  match lookup_cmd t cmd with
  | Some r => lookup_rle r code
  | None => None
  end.

Fixpoint nrange_from (n : nat) (start : N) : list N :=
  match n with
  | O => []
  | S k => start :: nrange_from k (start + 1)
  end.
Definition nrange (n : nat) : list N := nrange_from n 0.
Definition codes (bound : N) : list N := nrange (N.to_nat bound).

Definition cell_ok (t : table) (cmd : option N) (code : N) : bool :=
  match lookup t cmd code with
  | Some sg => sg =? sig_of (spec_class cmd code)
  | None => false
  end.

Definition cmd_ok (bound : N) (t : table) (cmd : option N) : bool :=
  forallb (cell_ok t cmd) (codes bound).

Definition check_table (bound : N) (cmds : list (option N)) (t : table) : bool :=
  forallb (cmd_ok bound t) cmds.

(* failing cells, for the replay (first few only are printed by the harness) *)
Definition bad_cells (bound : N) (cmds : list (option N)) (t : table) : list (option N * N) :=
  flat_map (fun c => map (fun k => (c, k)) (filter (fun k => negb (cell_ok t c k)) (codes bound))) cmds.
