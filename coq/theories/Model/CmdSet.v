(* Model/CmdSet.v — the command group (0000,eeee) in implicit VR little endian, read strictly:
   tag(2+2, LE) length(4, LE) value.  Inputs that only pydicom's lenient reader accepts (odd US
   lengths, undefined lengths, truncated values ...) are outside the modelled domain and yield Err. *)
From PND Require Import Lib.Base Lib.Text.

Definition elem := (N * N * bytes)%type.      (* group, element, value *)

Definition un16le (a b : N) : N := a + 256 * b.
Definition un32le (a b c d : N) : N := a + 256 * (b + 256 * (c + 256 * d)).

Fixpoint parse_elems (fuel : nat) (s : bytes) : result (list elem) :=
  match fuel with
  | O => Err OutOfFuel
  | S f =>
    match s with
    | [] => Ok []
    | g1 :: g2 :: e1 :: e2 :: l1 :: l2 :: l3 :: l4 :: rest =>
        let len := un32le l1 l2 l3 l4 in
        if lenN rest <? len then Err ValueError
        else let* more := parse_elems f (drop len rest) in
             Ok ((un16le g1 g2, un16le e1 e2, take len rest) :: more)
    | _ => Err ValueError
    end
  end.

Definition parse_cmd (s : bytes) : result (list elem) := parse_elems (S (length s)) s.

Fixpoint find_elem (g e : N) (l : list elem) : option bytes :=
  match l with
  | [] => None
  | (g', e', v) :: r => if (g' =? g) && (e' =? e) then Some v else find_elem g e r
  end.

(* a US element with exactly one value *)
Definition us_value (g e : N) (l : list elem) : result N :=
  match find_elem g e l with
  | None => Err KeyError
  | Some [a; b] => Ok (un16le a b)
  | Some _ => Err ValueError
  end.

Definition is_pad (b : N) : bool := (b =? 0) || (b =? 32).
Definition ui_value (g e : N) (l : list elem) : option bytes :=
  option_map (rstrip is_pad) (find_elem g e l).

(* encoders for the fixed elements every message carries *)
Definition le16 (n : N) : bytes := [n mod 256; n / 256].
Definition le32b (n : N) : bytes := [n mod 256; (n / 256) mod 256; (n / 65536) mod 256; n / 16777216].
Definition enc_elem (x : elem) : bytes :=
  let '(g, e, v) := x in le16 g ++ le16 e ++ le32b (lenN v) ++ v.
Definition enc_elems (l : list elem) : bytes := concat (map enc_elem l).
