(* Model/ProviderW.v — the provider loop over a transport that can REFUSE A WRITE: once the peer has
   reset or closed the connection, sendall raises (ECONNRESET / EPIPE).  Since repair D23 the loop
   treats that as a closed transport connection (Model.Fsm.cstepw true).  `strict = false` is the
   transport of Model.Provider, which accepts every write (`iterw_plain`).

   One more world operation: bytes from the peer with its reset right behind them — the reads still get
   the bytes, every write fails from that moment on (harness/world.py: 'segreset'). *)
From PND Require Import Lib.Base Lib.Text Model.Pdu Model.CmdSet Model.Decoder Spec.Ps38Table Model.Fsm
  Model.Provider Model.Stream.

Inductive wop := Plain (o : op) | SegReset (b : bytes).

Definition apply_wop (s : pstate) (w : wop) : pstate :=
  match w with
  | Plain o => apply_op s o
  | SegReset b => apply_op (apply_op s (Seg b)) PeerReset
  end.

Definition wop_kill (w : wop) : bool := match w with Plain o => is_kill o | SegReset _ => false end.

(* the kernel refuses writes once the peer's reset or close has arrived, read or not *)
Definition write_fails (strict : bool) (s : pstate) : bool := strict && (rst s || eof s).

Definition iterw (strict : bool) (env : denv) (s0 : pstate) (w : wop) : pstate :=
  let s := apply_wop s0 w in
  let c := ctl s in
  let pt := iter_parts env s (wop_kill w) in
  let (c', outs) := cstepw (write_fails strict s) c (it_input pt) in
  let '(slot3, w', g') := interpret outs (it_slot pt) (it_msg pt) (it_slot pt) (wire s) (given s) in
  let tstart' := if existsb (fun o => match o with OTStart => true | _ => false end) outs
                 then now s else tstart s in
  let trace' := match it_evt pt with Some e => (c_st c, e) :: trace s | None => trace s end in
  mkp c' (it_raw pt) (it_pending pt) (it_eof pt) (it_rst pt) (now s) tstart' slot3 (it_userq pt) (it_gen pt)
      (it_dec pt) (maxlen s) w' g' trace'.

Definition run_scriptw (strict : bool) (env : denv) (requestor : bool) (maxlen : N) (ops : list wop) : pstate :=
  fold_left (iterw strict env) ops (p_init requestor maxlen).

(* the frame taken out of the byte stream in this iteration, if any (cf. Model.Stream.iter_frame) *)
Definition iter_framew (s0 : pstate) (w : wop) : option bytes :=
  let s := apply_wop s0 w in
  if polls_net (ctl s) (wop_kill w) then poll_frame s else None.

Fixpoint run_framesw (strict : bool) (env : denv) (s : pstate) (ops : list wop) : list bytes :=
  match ops with
  | [] => []
  | o :: r => match iter_framew s o with
              | Some f => f :: run_framesw strict env (iterw strict env s o) r
              | None => run_framesw strict env (iterw strict env s o) r
              end
  end.
