(* Model/Decoder.v — fsm.DIMSEDecoder: reassembly of a DIMSE message from PDVs. *)
From PND Require Import Lib.Base Lib.Text Model.Pdu Model.CmdSet.

(* MESSAGE_TYPE as tabulated from the code: command field -> element number of the tag the class's
   `sop_class_uid` property reads (0002H AffectedSOPClassUID or 0003H RequestedSOPClassUID) *)
Definition mtable := list (N * N).
Fixpoint mt_lookup (t : mtable) (cf : N) : option N :=
  match t with
  | [] => None
  | (k, v) :: r => if k =? cf then Some v else mt_lookup r cf
  end.

Record denv := mkdenv {
  e_mt : mtable;
  e_store_in_file : list bytes;          (* SOP classes configured for file storage *)
  e_contexts : list N;                   (* presentation context ids present in accepted_contexts *)
  e_prefix : bytes;                      (* what get_file_cb writes before the data set (preamble + meta) *)
}.

Record dstate := mkd {
  d_cmd_recv : bool; d_data_recv : bool; d_pc : N;
  d_cmd : bytes;                         (* command fragments received so far, concatenated *)
  d_data : bytes;                        (* data fragments held in memory, concatenated *)
  d_file : option bytes;                 (* contents of the storage file, when one was opened *)
  d_cf : option N;                       (* command field of the parsed command set *)
}.
Definition d_init : dstate := mkd false false 0 [] [] None None.

Inductive dmsg := DMsg (cf : N) (cmd : bytes) (data : bytes) (in_file : bool) (pc : N).

Inductive dres :=
| DMore (d : dstate)                     (* still receiving *)
| DDone (m : dmsg)
| DFail (e : exn).

Fixpoint mem_bytes (x : bytes) (l : list bytes) : bool :=
  match l with [] => false | y :: r => beq_bytes x y || mem_bytes x r end.

(* the body of the for-loop for one PDV; returns the new state and whether the loop breaks *)
Definition step_pdv (env : denv) (d : dstate) (v : pdv) : result (dstate * bool) :=
  match pdv_data v with
  | [] => Err IndexError
  | marker :: payload =>
    let d := mkd (d_cmd_recv d) (d_data_recv d) (pdv_ctx v) (d_cmd d) (d_data d) (d_file d) (d_cf d) in
    if (marker =? 1) || (marker =? 3) then
      let d := mkd (d_cmd_recv d) (d_data_recv d) (d_pc d) (d_cmd d ++ payload) (d_data d) (d_file d) (d_cf d) in
      if marker =? 3 then
        let* elems := parse_cmd (d_cmd d) in
        let* cf := us_value 0 256 elems in
        match mt_lookup (e_mt env) cf with
        | None => Err KeyError
        | Some uid_elem =>
          let* dst := us_value 0 2048 elems in
          let no_ds := dst =? 257 in
          let use_file := match ui_value 0 uid_elem elems with
                          | Some u => mem_bytes u (e_store_in_file env)
                          | None => false
                          end in
          let* file := (if negb no_ds && use_file then
                          if existsb (N.eqb (d_pc d)) (e_contexts env)
                          then Ok (Some (e_prefix env ++ d_data d)) else Err KeyError
                        else Ok (d_file d)) in
          let d := mkd true (d_data_recv d) (d_pc d) (d_cmd d) (d_data d) file (Some cf) in
          Ok (d, no_ds || d_data_recv d)
        end
      else Ok (d, false)
    else if (marker =? 0) || (marker =? 2) then
      let d := match d_file d with
               | Some f => mkd (d_cmd_recv d) (d_data_recv d) (d_pc d) (d_cmd d) (d_data d) (Some (f ++ payload)) (d_cf d)
               | None => mkd (d_cmd_recv d) (d_data_recv d) (d_pc d) (d_cmd d) (d_data d ++ payload) None (d_cf d)
               end in
      if marker =? 2 then
        let d := mkd (d_cmd_recv d) true (d_pc d) (d_cmd d) (d_data d) (d_file d) (d_cf d) in
        Ok (d, d_cmd_recv d)
      else Ok (d, false)
    else Err DimseError
  end.

Fixpoint loop_pdvs (env : denv) (d : dstate) (vs : list pdv) : result (dstate * bool) :=
  match vs with
  | [] => Ok (d, false)
  | v :: r =>
    let* (d', brk) := step_pdv env d v in
    if brk then Ok (d', true) else loop_pdvs env d' r
  end.

(* DIMSEDecoder.process(p_data) followed by the caller's `if not receiving` test *)
Definition process (env : denv) (d : dstate) (vs : list pdv) : dres :=
  match loop_pdvs env d vs with
  | Err e => DFail e
  | Ok (d', done) =>
    (* after the loop: `if self.data_set_received: self.msg.data_set = ...` (msg None -> AttributeError) *)
    if d_data_recv d' && negb (d_cmd_recv d') then DFail AttributeError
    else if done then
      match d_cf d' with
      | Some cf =>
          match d_file d' with
          | Some f => DDone (DMsg cf (d_cmd d') (if d_data_recv d' then f else []) (d_data_recv d') (d_pc d'))
          | None => DDone (DMsg cf (d_cmd d') (if d_data_recv d' then d_data d' else []) false (d_pc d'))
          end
      | None => DFail AttributeError
      end
    else DMore d'
  end.
