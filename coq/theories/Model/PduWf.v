(* Model/PduWf.v — "can be built from the public classes with in-range values in a legal order"
   as a boolean predicate, and boolean equality on PDU values (used by generated case files). *)
From PND Require Import Lib.Base Lib.Text Model.Pdu.

Definition wf_ascii (t : bytes) : bool := is_ascii t.
Definition wf_uid (t : bytes) : bool := is_ascii t && beq_bytes (strip_ws t) t.
Definition wf_utf8 (t : bytes) : bool := utf8_valid t.
Definition wf_ae (t : bytes) : bool := is_ascii t && beq_bytes (strip_nul t) t && (lenN t <=? 16).

Definition known_sub_type (t : N) : bool :=
  (t =? 81) || (t =? 82) || (t =? 83) || (t =? 84) || (t =? 85) || (t =? 86) || (t =? 88) || (t =? 89).

Definition wf_sub (x : subitem) : bool :=
  packable_sub x &&
  match x with
  | MaxLen _ _ _ => true
  | ImplClass _ u => wf_uid u
  | AsyncOps _ _ _ _ => true
  | RoleSel _ u _ _ => wf_uid u
  | ImplVersion _ n => wf_ascii n
  | ExtNeg _ u _ => wf_uid u
  | UserId _ _ _ p s => wf_utf8 p && wf_utf8 s && b16 (lenN p) && b16 (lenN s)
  | UserIdAc _ s => wf_utf8 s
  | Generic t _ _ => negb (t =? 0) && negb (known_sub_type t)
  end.

Definition wf_syntax (x : syntax_item) : bool := packable_syntax x && wf_uid (sy_name x).

Definition wf_item (x : item) : bool :=
  packable_item x &&
  match x with
  | AppCtx _ n => wf_ascii n
  | PcRq _ _ _ _ _ a ts => wf_syntax a && forallb wf_syntax ts
  | PcAc _ _ _ _ _ t => wf_syntax t
  | UserInfo _ subs => forallb wf_sub subs
  end.

Definition is_userinfo (x : item) : bool := match x with UserInfo _ _ => true | _ => false end.

(* PS3.8 9.3.1: items in increasing item-type order, so a User Information item can only be last *)
Fixpoint userinfo_last (l : list item) : bool :=
  match l with
  | [] => true
  | [x] => true
  | x :: r => negb (is_userinfo x) && userinfo_last r
  end.

Definition wf_pdu (p : pdu) : bool :=
  packable p &&
  match p with
  | Assoc _ _ _ _ called calling r3 items =>
      wf_ae called && wf_ae calling && forallb wf_item items && userinfo_last items
  | _ => true
  end.

(* ------------------------------------------------------- boolean equality *)
Definition beq_sub (a b : subitem) : bool :=
  match a, b with
  | MaxLen r l m, MaxLen r' l' m' => (r =? r') && (l =? l') && (m =? m')
  | ImplClass r u, ImplClass r' u' => (r =? r') && beq_bytes u u'
  | AsyncOps r l x y, AsyncOps r' l' x' y' => (r =? r') && (l =? l') && (x =? x') && (y =? y')
  | RoleSel r u x y, RoleSel r' u' x' y' => (r =? r') && beq_bytes u u' && (x =? x') && (y =? y')
  | ImplVersion r n, ImplVersion r' n' => (r =? r') && beq_bytes n n'
  | ExtNeg r u i, ExtNeg r' u' i' => (r =? r') && beq_bytes u u' && beq_bytes i i'
  | UserId r t q p s, UserId r' t' q' p' s' =>
      (r =? r') && (t =? t') && (q =? q') && beq_bytes p p' && beq_bytes s s'
  | UserIdAc r s, UserIdAc r' s' => (r =? r') && beq_bytes s s'
  | Generic t r d, Generic t' r' d' => (t =? t') && (r =? r') && beq_bytes d d'
  | _, _ => false
  end.

Fixpoint beq_list {A} (f : A -> A -> bool) (a b : list A) : bool :=
  match a, b with
  | [], [] => true
  | x :: a', y :: b' => f x y && beq_list f a' b'
  | _, _ => false
  end.

Definition beq_syntax (a b : syntax_item) : bool :=
  (sy_reserved a =? sy_reserved b) && beq_bytes (sy_name a) (sy_name b).

Definition beq_item (a b : item) : bool :=
  match a, b with
  | AppCtx r n, AppCtx r' n' => (r =? r') && beq_bytes n n'
  | PcRq i r1 r2 r3 r4 s ts, PcRq i' r1' r2' r3' r4' s' ts' =>
      (i =? i') && (r1 =? r1') && (r2 =? r2') && (r3 =? r3') && (r4 =? r4') && beq_syntax s s'
      && beq_list beq_syntax ts ts'
  | PcAc i r1 r2 x r3 t, PcAc i' r1' r2' x' r3' t' =>
      (i =? i') && (r1 =? r1') && (r2 =? r2') && (x =? x') && (r3 =? r3') && beq_syntax t t'
  | UserInfo r subs, UserInfo r' subs' => (r =? r') && beq_list beq_sub subs subs'
  | _, _ => false
  end.

Definition beq_pdv (a b : pdv) : bool := (pdv_ctx a =? pdv_ctx b) && beq_bytes (pdv_data a) (pdv_data b).
Definition beq_kind (a b : akind) : bool :=
  match a, b with KRq, KRq | KAc, KAc => true | _, _ => false end.

Definition beq_pdu (a b : pdu) : bool :=
  match a, b with
  | Assoc k r1 v r2 c1 c2 r3 its, Assoc k' r1' v' r2' c1' c2' r3' its' =>
      beq_kind k k' && (r1 =? r1') && (v =? v') && (r2 =? r2') && beq_bytes c1 c1' && beq_bytes c2 c2'
      && beq_bytes r3 r3' && beq_list beq_item its its'
  | AssocRj a1 a2 a3 a4 a5, AssocRj b1 b2 b3 b4 b5 =>
      (a1 =? b1) && (a2 =? b2) && (a3 =? b3) && (a4 =? b4) && (a5 =? b5)
  | PData r vs, PData r' vs' => (r =? r') && beq_list beq_pdv vs vs'
  | RelRq a1 a2, RelRq b1 b2 => (a1 =? b1) && (a2 =? b2)
  | RelRp a1 a2, RelRp b1 b2 => (a1 =? b1) && (a2 =? b2)
  | Abort a1 a2 a3 a4 a5, Abort b1 b2 b3 b4 b5 =>
      (a1 =? b1) && (a2 =? b2) && (a3 =? b3) && (a4 =? b4) && (a5 =? b5)
  | _, _ => false
  end.

Definition beq_exn (a b : exn) : bool :=
  match a, b with
  | StructError, StructError | UnicodeError, UnicodeError | KeyError, KeyError
  | IndexError, IndexError | AttributeError, AttributeError | ValueError, ValueError
  | TypeError, TypeError | PduError, PduError | DimseError, DimseError | OsError, OsError
  | StopIter, StopIter | OutOfFuel, OutOfFuel | OtherError, OtherError => true
  | _, _ => false
  end.

Definition beq_result {A} (f : A -> A -> bool) (a b : result A) : bool :=
  match a, b with
  | Ok x, Ok y => f x y
  | Err e, Err e' => beq_exn e e'
  | _, _ => false
  end.
