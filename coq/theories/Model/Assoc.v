(* Model/Assoc.v — the association layer (asceprovider.py / applicationentity.py) as far as errors
   and endings go: how DUL indications become library errors, what the acceptor does with a refusing
   application, how the request_association context manager ends an association. *)
From PND Require Import Lib.Base Model.Pdu.

Inductive lib_error :=
| ERejected (result source reason : N)      (* AssociationRejectedError *)
| EReleased                                  (* AssociationReleasedError *)
| EAborted (source reason : N)               (* AssociationAbortedError *)
| ETimeout                                   (* DCMTimeoutError *)
| ENetDicom.                                 (* NetDICOMError *)

(* Association._handle_errors *)
Definition handle_errors (p : pdu) : option lib_error :=
  match p with
  | RelRq _ _ => Some EReleased
  | Abort _ _ _ s r => Some (EAborted s r)
  | AssocRj _ _ r s d => Some (ERejected r s d)
  | _ => None
  end.

(* Association._get_dul_message for a PDU indication: the specific error, else NetDICOMError *)
Definition get_dul_message_pdu (p : pdu) : lib_error :=
  match handle_errors p with Some e => e | None => ENetDicom end.

(* what the application's on_association_request does *)
Inductive app_decision := AppAccept | AppReject (result source reason : N).

(* AssociationAcceptor._establish / handle: what is sent and whether services may run *)
Definition acceptor_establish (d : app_decision) : option pdu * bool :=
  match d with
  | AppAccept => (None, true)                                  (* accept() builds the AC; _loop runs *)
  | AppReject r s x => (Some (AssocRj 0 0 r s x), false)       (* reject(); the error propagates: no _loop *)
  end.

(* AEBase.request_association: how the association is ended when the with-block is left *)
Inductive ending := DoRelease | DoAbort | DoKill.
Definition exit_action (established : bool) (body_raised : bool) : ending :=
  if established then (if body_raised then DoAbort else DoRelease) else DoKill.
