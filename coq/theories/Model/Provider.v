(* Model/Provider.v — DULServiceProvider.run with its data: the raw buffer, the transport's pending
   bytes, the clock, the user's queue, the primitive slot, the fragment generator, the DIMSE decoder,
   the wire and the indications.  Every control decision is delegated to Model.Fsm.cstep, for which
   the invariants are proved; this layer only computes what the environment delivered (the `input`)
   and interprets the abstract outputs on concrete PDU values.

   One script operation is applied at the head of every loop iteration (harness/world.py applies it
   inside the real loop's `while not self.is_killed` test). *)
From PND Require Import Lib.Base Lib.Text Model.Pdu Model.CmdSet Model.Decoder Spec.Ps38Table Model.Fsm.

Inductive uitem :=
| UP (p : pdu)                     (* DULServiceProvider.send(<PDU>) *)
| UM (frags : list pdu).           (* DULServiceProvider.send(<generator of P-DATA-TF PDUs>) *)

Inductive op := Seg (b : bytes) | PeerClose | PeerReset | User (u : uitem) | Tick (d : N) | Idle | Kill.

Inductive indication :=
| IPdu (p : pdu)
| IMsg (m : dmsg).

Record pstate := mkp {
  ctl : ctrl;
  raw : bytes;                     (* raw_pdu *)
  pending : bytes; eof : bool; rst : bool;      (* the transport: bytes not yet read, EOF / reset pending *)
  now : N; tstart : N;             (* clock (seconds), ARTIM start time *)
  prim : option pdu;               (* the primitive slot *)
  userq : list uitem;              (* from_service_user *)
  gen : list pdu;                  (* remaining fragments of dimse_gen *)
  dec : dstate;                    (* dimse_decoder *)
  maxlen : N;                      (* max_pdu_length (recv size) *)
  wire : list bytes;               (* everything written to the transport, newest first *)
  given : list indication;         (* everything put on to_service_user, newest first *)
  trace : list (N * N);            (* (state, event) of every dispatched event, newest first *)
}.

Definition src_class (n : N) : asrc := if n =? 0 then S0 else if n =? 2 then S2 else SOther.

Definition kind_of (p : pdu) : kind :=
  match p with
  | Assoc Pdu.KRq _ _ _ _ _ _ _ => KRq
  | Assoc Pdu.KAc _ _ _ _ _ _ _ => KAc
  | AssocRj _ _ _ _ _ => KRj
  | PData _ _ => KData
  | RelRq _ _ => KRelRq
  | RelRp _ _ => KRelRp
  | Abort _ _ _ s _ => KAbort (src_class s)
  end.

(* a PDU built by the provider with default fields *)
Definition fresh_pdu (k : kind) : pdu :=
  match k with
  | KRelRq => RelRq 0 0
  | KRelRp => RelRp 0 0
  | KAbort S2 => Abort 0 0 0 2 0
  | _ => Abort 0 0 0 0 0
  end.

(* _process_incoming: a complete frame at the head of the buffer *)
Definition frame_of (buf : bytes) : option (bytes * bytes) :=
  match buf with
  | _ :: _ :: a :: b :: c :: d :: rest =>
      let full := un32 a b c d + 6 in
      if lenN buf <? full then None else Some (take full buf, drop full buf)
  | _ => None
  end.

(* the network poll: (input class, raw', pending', eof', rst', decoded PDU) *)
Definition classify (f : bytes) : net * option pdu :=
  match f with
  | t :: _ =>
      match decode_as t f with
      | Ok p => (NPdu (kind_of p), Some p)
      | Err _ => (NBad, None)          (* unknown type (KeyError) or any decoding error: Evt19 *)
      end
  | [] => (NBad, None)
  end.

Definition net_poll (s : pstate) : net * option pdu * bytes * bytes * bool * bool :=
  match frame_of (raw s) with
  | Some (f, rest) => let (n, p) := classify f in (n, p, rest, pending s, eof s, rst s)
  | None =>
    match pending s with
    | _ :: _ =>
        let rsize := if maxlen s =? 0 then 65536 else maxlen s in     (* recv(max_pdu_length or 65536) *)
        let got := take rsize (pending s) in
        let buf := raw s ++ got in
        let pend' := drop rsize (pending s) in
        match frame_of buf with
        | Some (f, rest) => let (n, p) := classify f in (n, p, rest, pend', eof s, rst s)
        | None => (NNone, None, buf, pend', eof s, rst s)
        end
    | [] =>
        if rst s then (NErr, None, raw s, [], true, false)
        else if eof s then (NEof, None, raw s, [], true, false)
        else (NNone, None, raw s, [], false, false)
    end
  end.

(* which sub-polls the loop performs in this iteration (mirrors Fsm.cstep's control flow) *)
Definition polls_net (c : ctrl) (kill : bool) : bool :=
  match c_out c, c_pend c with
  | Running, None => negb kill && c_sock c && negb (c_st c =? 4)
  | _, _ => false
  end.
Definition polls_out (c : ctrl) (kill : bool) (n : net) : bool :=
  match c_out c, c_pend c with
  | Running, None =>
      negb kill && (negb (c_sock c) || (negb (c_st c =? 4) && match n with NNone => true | _ => false end))
  | _, _ => false
  end.

Definition apply_op (s : pstate) (o : op) : pstate :=
  match o with
  | Seg b => if c_sock (ctl s)
             then mkp (ctl s) (raw s) (pending s ++ b) (eof s) (rst s) (now s) (tstart s) (prim s) (userq s)
                      (gen s) (dec s) (maxlen s) (wire s) (given s) (trace s)
             else s
  | PeerClose => mkp (ctl s) (raw s) (pending s) true (rst s) (now s) (tstart s) (prim s) (userq s)
                     (gen s) (dec s) (maxlen s) (wire s) (given s) (trace s)
  | PeerReset => mkp (ctl s) (raw s) (pending s) (eof s) true (now s) (tstart s) (prim s) (userq s)
                     (gen s) (dec s) (maxlen s) (wire s) (given s) (trace s)
  | User u => mkp (ctl s) (raw s) (pending s) (eof s) (rst s) (now s) (tstart s) (prim s) (userq s ++ [u])
                  (gen s) (dec s) (maxlen s) (wire s) (given s) (trace s)
  | Tick d => mkp (ctl s) (raw s) (pending s) (eof s) (rst s) (now s + d) (tstart s) (prim s) (userq s)
                  (gen s) (dec s) (maxlen s) (wire s) (given s) (trace s)
  | Idle | Kill => s
  end.

Definition is_kill (o : op) : bool := match o with Kill => true | _ => false end.

(* value denoted by an abstract output *)
Definition value_of (k : kind) (fresh : bool) (slot : option pdu) : option pdu :=
  if fresh then Some (fresh_pdu k) else slot.

Fixpoint interpret (outs : list output) (slot0 : option pdu) (msg : option dmsg)
         (slot : option pdu) (w : list bytes) (g : list indication)
  : option pdu * list bytes * list indication :=
  match outs with
  | [] => (slot, w, g)
  | o :: r =>
    match o with
    | OSend k f =>
        let w' := match value_of k f slot0 with Some p => encode p :: w | None => w end in
        interpret r slot0 msg slot w' g
    | OInd k f =>
        let g' := match value_of k f slot0 with Some p => IPdu p :: g | None => g end in
        interpret r slot0 msg slot w g'
    | OIndData =>
        let g' := match msg with Some m => IMsg m :: g | None => g end in
        interpret r slot0 msg slot w g'
    | OSetPrim k => interpret r slot0 msg (Some (fresh_pdu k)) w g
    | OClearPrim => interpret r slot0 msg None w g
    | OClose | OOpen | OTStart => interpret r slot0 msg slot w g
    end
  end.

Definition pdvs_of (p : option pdu) : list pdv := match p with Some (PData _ vs) => vs | _ => [] end.

(* everything one iteration computes; `it_input` is what the control step is given *)
Record parts := mkparts {
  it_input : input; it_raw : bytes; it_pending : bytes; it_eof : bool; it_rst : bool;
  it_slot : option pdu; it_gen : list pdu; it_userq : list uitem; it_dec : dstate;
  it_msg : option dmsg; it_evt : option N }.

Definition iter_parts (env : denv) (s : pstate) (kill : bool) : parts :=
  let c := ctl s in
  (* network *)
  let '(n, np, raw', pend', eof', rst') :=
      if polls_net c kill then net_poll s else (NNone, None, raw s, pending s, eof s, rst s) in
  let slot1 := match np with Some p => Some p | None => prim s end in
  (* outgoing *)
  let '(g, u, slot2, gen', userq') :=
      if polls_out c kill n then
        match (if c_gen c then gen s else []) with
        | p :: r => (GNext, UNone, Some p, r, userq s)
        | [] =>
          match userq s with
          | [] => (GEnd, UNone, slot1, [], [])
          | UP p :: q => (GEnd, UPdu (kind_of p), Some p, [], q)
          | UM (p :: r) :: q => (GEnd, UMsg, Some p, r, q)
          | UM [] :: q => (GEnd, UMsgEmpty, slot1, [], q)
          end
        end
      else (GEnd, UNone, slot1, gen s, userq s) in
  let expired := 10 <? now s - tstart s in
  (* which event will be dispatched, to run the decoder when it is a P-DATA indication *)
  let evt := match c_out c, c_pend c with
             | Running, Some e => if kill then None else Some e
             | Running, None => if kill then None else snd (fst (poll c (mkin false n u g expired DIncomplete)))
             | _, _ => None
             end in
  let is_data_ind := match evt with
                     | Some e => match table e (c_st c) with Some DT2 | Some AR6 => true | _ => false end
                     | None => false
                     end in
  let dr := if is_data_ind then Some (process env (dec s) (pdvs_of slot2)) else None in
  let d_ans := match dr with
               | Some (DMore _) => DIncomplete | Some (DDone _) => DComplete | Some (DFail _) => DError
               | None => DIncomplete
               end in
  let dec' := match dr with Some (DMore d) => d | Some _ => d_init | None => dec s end in
  let msg := match dr with Some (DDone m) => Some m | _ => None end in
  mkparts (mkin kill n u g expired d_ans) raw' pend' eof' rst' slot2 gen' userq' dec' msg evt.

Definition iter (env : denv) (s0 : pstate) (o : op) : pstate :=
  let s := apply_op s0 o in
  let c := ctl s in
  let pt := iter_parts env s (is_kill o) in
  let (c', outs) := cstep c (it_input pt) in
  let '(slot3, w', g') := interpret outs (it_slot pt) (it_msg pt) (it_slot pt) (wire s) (given s) in
  let tstart' := if existsb (fun o => match o with OTStart => true | _ => false end) outs
                 then now s else tstart s in
  let trace' := match it_evt pt with Some e => (c_st c, e) :: trace s | None => trace s end in
  mkp c' (it_raw pt) (it_pending pt) (it_eof pt) (it_rst pt) (now s) tstart' slot3 (it_userq pt) (it_gen pt)
      (it_dec pt) (maxlen s) w' g' trace'.

Definition p_init (requestor : bool) (maxlen : N) : pstate :=
  mkp (init requestor) [] [] false false 1000 0 None [] [] d_init maxlen [] [] [].

Definition run_script (env : denv) (requestor : bool) (maxlen : N) (ops : list op) : pstate :=
  fold_left (iter env) ops (p_init requestor maxlen).
