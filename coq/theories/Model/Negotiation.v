(* Model/Negotiation.v — association negotiation: AssociationAcceptor.accept, AEBase.add_scu/add_scp,
   AssociationRequester._request (proposal and reply processing), get_scu, and the maximum PDU length
   arithmetic of both sides (0 = unlimited). *)
From PND Require Import Lib.Base Lib.Text.

Fixpoint mem_b (x : bytes) (l : list bytes) : bool :=
  match l with [] => false | y :: r => beq_bytes x y || mem_b x r end.

(* ---- acceptor -------------------------------------------------------------------------------- *)
Record acfg := mkacfg { a_served : list bytes;     (* abstract syntaxes served as SCP (supported_scp keys) *)
                        a_ts : list bytes }.        (* supported transfer syntaxes *)

Record proposal := mkprop { p_id : N; p_abs : bytes; p_tss : list bytes }.
Record answer := mkans { an_id : N; an_result : N; an_ts : bytes }.

Fixpoint first_supported (cfg : acfg) (tss : list bytes) : option bytes :=
  match tss with
  | [] => None
  | t :: r => if mem_b t (a_ts cfg) then Some t else first_supported cfg r
  end.

Definition answer_one (cfg : acfg) (p : proposal) : answer :=
  if mem_b (p_abs p) (a_served cfg) then
    match first_supported cfg (p_tss p) with
    | Some t => mkans (p_id p) 0 t
    | None => mkans (p_id p) 1 []
    end
  else mkans (p_id p) 1 [].

Definition answers (cfg : acfg) (ps : list proposal) : list answer := map (answer_one cfg) ps.

(* the contexts the acceptor will serve afterwards: sop_classes_as_scp / accepted_contexts *)
Definition served_entry (p : proposal) (a : answer) : option (N * bytes * bytes) :=
  if an_result a =? 0 then Some (p_id p, p_abs p, an_ts a) else None.
Fixpoint served_table (ps : list proposal) (ans : list answer) : list (N * bytes * bytes) :=
  match ps, ans with
  | p :: ps', a :: ans' =>
      match served_entry p a with Some e => e :: served_table ps' ans' | None => served_table ps' ans' end
  | _, _ => []
  end.

(* ---- maximum PDU length, 0 = unlimited --------------------------------------------------------- *)
Definition eff_limit (own peer : N) : N :=
  if own =? 0 then peer else if peer =? 0 then own else N.min own peer.

(* requestor announces its configured maximum; the acceptor limits itself to eff_limit and announces
   that; the requestor limits itself to eff_limit of its own and the acceptor's announcement *)
Record negotiated := mkneg { ann_r : N; ann_a : N; lim_r : N; lim_a : N }.
Definition negotiate (own_r own_a : N) : negotiated :=
  let la := eff_limit own_a own_r in
  mkneg own_r la (eff_limit own_r la) la.

(* "x is within limit l" with 0 = no limit *)
Definition within (x l : N) : Prop := l = 0 \/ x <= l.
Definition le_inf (a b : N) : Prop := b = 0 \/ (a <> 0 /\ a <= b).    (* a <= b where 0 is infinity *)

(* ---- requester --------------------------------------------------------------------------------- *)
(* AEBase.update_context_def_list: ids start at max+2 (or 1) and go up by 2 *)
Fixpoint number_from (start : N) (classes : list bytes) : list (N * bytes) :=
  match classes with
  | [] => []
  | c :: r => (start, c) :: number_from (start + 2) r
  end.

Definition max_id (ctxs : list (N * bytes)) : N := fold_right (fun x acc => N.max (fst x) acc) 0 ctxs.

Definition add_classes (ctxs : list (N * bytes)) (classes : list bytes) : list (N * bytes) :=
  ctxs ++ number_from (match ctxs with [] => 1 | _ => max_id ctxs + 2 end) classes.

(* a sequence of add_scu / add_scp calls, each with its list of SOP classes *)
Definition configure (calls : list (list bytes)) : list (N * bytes) := fold_left add_classes calls [].

(* the reply: per context id the result and the transfer syntax chosen *)
Definition usable (ctxs : list (N * bytes)) (reply : list answer) : list (N * bytes * bytes) :=
  flat_map (fun a =>
    if an_result a =? 0 then
      match find (fun c => fst c =? an_id a) ctxs with
      | Some c => [(an_id a, snd c, an_ts a)]
      | None => []
      end
    else []) reply.

(* sop_classes_as_scu: later entries overwrite earlier ones for the same class *)
Fixpoint lookup_last (cls : bytes) (u : list (N * bytes * bytes)) : option (N * bytes) :=
  match u with
  | [] => None
  | (id, c, t) :: r =>
      match lookup_last cls r with
      | Some x => Some x
      | None => if beq_bytes c cls then Some (id, t) else None
      end
  end.

(* get_scu: a service is returned iff an accepted context exists for a class configured as SCU *)
Definition get_scu (scu_classes : list bytes) (u : list (N * bytes * bytes)) (cls : bytes) : option (N * bytes) :=
  match lookup_last cls u with
  | Some x => if mem_b cls scu_classes then Some x else None
  | None => None
  end.
