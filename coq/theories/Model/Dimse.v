(* Model/Dimse.v — dimsemessages.chunks / fragment / fragment_file / DIMSEMessage.encode.
   A fragment is what ends up in one single-PDV P-DATA-TF PDU:
   PDataTfPDU([PresentationDataValueItem(pc_id, struct.pack('b', ctl) + payload)]). *)
From PND Require Import Lib.Base.

Definition is_nil {A} (l : list A) : bool := match l with [] => true | _ => false end.

(* chunks(seq, size) for size >= 1:
   ((seq[pos:pos+size], pos+size < len(seq)) for pos in range(0, len(seq), size)) *)
Fixpoint chunks_fuel (fuel : nat) (size : N) (s : bytes) : list (bytes * bool) :=
  match fuel with
  | O => []
  | S f =>
    match s with
    | [] => []
    | _ => (take size s, negb (is_nil (drop size s))) :: chunks_fuel f size (drop size s)
    end
  end.
Definition chunks (size : N) (s : bytes) : list (bytes * bool) := chunks_fuel (length s) size s.

(* fragment(data, max_pdu_length, normal, last); max_pdu_length >= 7 is the domain of C06.
   (range() with step 0 raises ValueError, a negative step gives an empty range.) *)
(* a maximum length of 0 means "no limit": the library then fragments at 65536 *)
Definition eff_max (m : N) : N := if m =? 0 then 65536 else m.

Definition fragment (data : bytes) (m0 normal last : N) : result (list (bytes * N)) :=
  let m := eff_max m0 in
  if m =? 6 then (match data with [] => Ok (@nil (bytes * N)) | _ => Err ValueError end)
  else if m <? 6 then Ok []
  else Ok (map (fun cb : bytes * bool => (fst cb, if snd cb then normal else last)) (chunks (m - 6) data)).

(* fragment_file(fp, ...) : read(maxsize); stop on b''; peek one byte; seek back *)
Fixpoint frag_file_fuel (fuel : nat) (size : N) (s : bytes) : list (bytes * bool) :=
  match fuel with
  | O => []
  | S f =>
    let chunk := take size s in
    match chunk with
    | [] => []
    | _ => let rest := drop size s in
           (chunk, negb (is_nil (take 1 rest))) :: frag_file_fuel f size rest
    end
  end.
Definition fragment_file (contents : bytes) (m normal last : N) : list (bytes * N) :=
  map (fun cb : bytes * bool => (fst cb, if snd cb then normal else last))
      (frag_file_fuel (S (length contents)) (eff_max m - 6) contents).

Record frag := { f_ctx : N; f_ctl : N; f_payload : bytes }.

Definition mk_frags (pc : N) (l : list (bytes * N)) : list frag :=
  map (fun cb : bytes * N => {| f_ctx := pc; f_ctl := snd cb; f_payload := fst cb |}) l.

(* DIMSEMessage.encode(pc_id, max_pdu_length): command fragments (1 / 3) then, if the data set
   is truthy, data fragments (0 / 2).  `data = []` stands for "no data set" (None or b''). *)
(* DIMSEMessage.encode refuses (in the caller's thread) a maximum that cannot carry a fragment *)
Definition unusable_max (m : N) : bool := (0 <? m) && (m <? 7).

Definition dimse_encode (cmd data : bytes) (pc m : N) : result (list frag) :=
  if unusable_max m then Err DimseError else
  let* cs := fragment cmd m 1 3 in
  let* ds := (match data with [] => Ok [] | _ => fragment data m 0 2 end) in
  Ok (mk_frags pc cs ++ mk_frags pc ds).

(* length of the P-DATA-TF PDU's variable field: 4 (item length) + 1 (context id) + 1 (control) + payload *)
Definition frag_pdu_length (f : frag) : N := lenN (f_payload f) + 6.

Definition concat_payload (l : list frag) : bytes := concat (map f_payload l).

(* every fragment but the final one carries `normal`, the final one carries `last` *)
Fixpoint flags_ok (normal last : N) (l : list frag) : bool :=
  match l with
  | [] => false
  | [f] => f_ctl f =? last
  | f :: r => (f_ctl f =? normal) && flags_ok normal last r
  end.
