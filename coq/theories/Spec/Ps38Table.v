(* Spec/Ps38Table.v — PS3.8 Table 9-10 (13 states x 19 events, 123 defined cells) and the action
   texts of Tables 9-6 ... 9-9, transcribed independently of the code.  States and events are
   numbered as in the standard (Sta1..Sta13, Evt1..Evt19). *)
From PND Require Import Lib.Base.

Inductive action :=
| AE1 | AE2 | AE3 | AE4 | AE5 | AE6 | AE7 | AE8
| DT1 | DT2
| AR1 | AR2 | AR3 | AR4 | AR5 | AR6 | AR7 | AR8 | AR9 | AR10
| AA1 | AA2 | AA3 | AA4 | AA5 | AA6 | AA7 | AA8.

Fixpoint assoc_state (l : list (N * action)) (s : N) : option action :=
  match l with
  | [] => None
  | (k, a) :: r => if k =? s then Some a else assoc_state r s
  end.

(* rows used by the events a peer PDU can raise in every state with a transport connection *)
Definition unexpected_pdu (in5 in6 in7 in8 in9 in10 in11 in12 : action) (in13 : action)
  : list (N * action) :=
  [(2, AA1); (3, AA8); (5, in5); (6, in6); (7, in7); (8, in8); (9, in9); (10, in10); (11, in11);
   (12, in12); (13, in13)].

Definition row (e : N) : list (N * action) :=
  match e with
  | 1%N => [(1, AE1)]                                                   (* A-ASSOCIATE request *)
  | 2%N => [(4, AE2)]                                                   (* transport connect confirm *)
  | 3%N => unexpected_pdu AE3 AA8 AA8 AA8 AA8 AA8 AA8 AA8 AA6           (* A-ASSOCIATE-AC PDU *)
  | 4%N => unexpected_pdu AE4 AA8 AA8 AA8 AA8 AA8 AA8 AA8 AA6           (* A-ASSOCIATE-RJ PDU *)
  | 5%N => [(1, AE5)]                                                   (* transport connection indication *)
  | 6%N => [(2, AE6); (3, AA8); (5, AA8); (6, AA8); (7, AA8); (8, AA8); (9, AA8); (10, AA8);
            (11, AA8); (12, AA8); (13, AA7)]                            (* A-ASSOCIATE-RQ PDU *)
  | 7%N => [(3, AE7)]                                                   (* A-ASSOCIATE response (accept) *)
  | 8%N => [(3, AE8)]                                                   (* A-ASSOCIATE response (reject) *)
  | 9%N => [(6, DT1); (8, AR7)]                                         (* P-DATA request *)
  | 10%N => unexpected_pdu AA8 DT2 AR6 AA8 AA8 AA8 AA8 AA8 AA6          (* P-DATA-TF PDU *)
  | 11%N => [(6, AR1)]                                                  (* A-RELEASE request *)
  | 12%N => unexpected_pdu AA8 AR2 AR8 AA8 AA8 AA8 AA8 AA8 AA6          (* A-RELEASE-RQ PDU *)
  | 13%N => unexpected_pdu AA8 AA8 AR3 AA8 AA8 AR10 AR3 AA8 AA6         (* A-RELEASE-RP PDU *)
  | 14%N => [(8, AR4); (9, AR9); (12, AR4)]                             (* A-RELEASE response *)
  | 15%N => [(3, AA1); (4, AA2); (5, AA1); (6, AA1); (7, AA1); (8, AA1); (9, AA1); (10, AA1);
             (11, AA1); (12, AA1)]                                      (* A-ABORT request *)
  | 16%N => [(2, AA2); (3, AA3); (5, AA3); (6, AA3); (7, AA3); (8, AA3); (9, AA3); (10, AA3);
             (11, AA3); (12, AA3); (13, AA2)]                           (* A-ABORT PDU *)
  | 17%N => [(2, AA5); (3, AA4); (4, AA4); (5, AA4); (6, AA4); (7, AA4); (8, AA4); (9, AA4);
             (10, AA4); (11, AA4); (12, AA4); (13, AR5)]                (* transport connection closed *)
  | 18%N => [(2, AA2); (13, AA2)]                                       (* ARTIM timer expired *)
  | 19%N => [(2, AA1); (3, AA8); (5, AA8); (6, AA8); (7, AA8); (8, AA8); (9, AA8); (10, AA8);
             (11, AA8); (12, AA8); (13, AA7)]                           (* unrecognized / invalid PDU *)
  | _ => []
  end.

Definition table (e s : N) : option action := assoc_state (row e) s.

Definition states : list N := [1; 2; 3; 4; 5; 6; 7; 8; 9; 10; 11; 12; 13].
Definition events : list N := [1; 2; 3; 4; 5; 6; 7; 8; 9; 10; 11; 12; 13; 14; 15; 16; 17; 18; 19].

(* ---- what each action does (Tables 9-6 .. 9-9) ---------------------------------------------- *)
(* the PDU or primitive that triggered the event *)
Inductive primkind :=
| PkNone | PkRq | PkAc | PkRj | PkDataComplete | PkDataPartial | PkRelRq | PkRelRp | PkAbort (source : N).

Inductive wire :=
| WNone
| WPrim               (* the triggering primitive, encoded, exactly *)
| WFresh (t : N)      (* a PDU of type t built by the provider: 5 A-RELEASE-RQ, 6 A-RELEASE-RP *)
| WAbort (src : option N).   (* an A-ABORT PDU; Some s = with this source *)

Inductive user :=
| UNone
| UPrim               (* the received PDU is handed to the local user (indication / confirmation) *)
| UData               (* P-DATA indication: the reassembled DIMSE message *)
| UAbort (src : option N).   (* A-(P-)ABORT indication *)

Inductive artim := TNone | TStart | TStop | TStartOrRestart.

Record effects := mkeff {
  e_wire : wire; e_user : user; e_close : bool; e_open : bool; e_artim : artim; e_next : list N }.

(* is_requestor decides the release-collision branch of AR-8; evt distinguishes the two uses of AA-1 *)
Definition effects_of (a : action) (is_requestor : bool) (evt : N) (pk : primkind) : effects :=
  match a with
  | AE1 => mkeff WNone UNone false true TNone [4]
  | AE2 => mkeff WPrim UNone false false TNone [5]
  | AE3 => mkeff WNone UPrim false false TNone [6]
  | AE4 => mkeff WNone UPrim true false TNone [1]
  | AE5 => mkeff WNone UNone false false TStart [2]
  | AE6 => mkeff WNone UPrim false false TStop [3]       (* acceptable request; see conforms for the reject branch *)
  | AE7 => mkeff WPrim UNone false false TNone [6]
  | AE8 => mkeff WPrim UNone false false TStart [13]
  | DT1 => mkeff WPrim UNone false false TNone [6]
  | DT2 => mkeff WNone (match pk with PkDataComplete => UData | _ => UNone end) false false TNone [6]
  | AR1 => mkeff (WFresh 5) UNone false false TNone [7]
  | AR2 => mkeff WNone UPrim false false TNone [8]
  | AR3 => mkeff WNone UPrim true false TNone [1]
  | AR4 => mkeff (WFresh 6) UNone false false TStart [13]
  | AR5 => mkeff WNone UNone false false TStop [1]
  | AR6 => mkeff WNone (match pk with PkDataComplete => UData | _ => UNone end) false false TNone [7]
  | AR7 => mkeff WPrim UNone false false TNone [8]
  | AR8 => mkeff WNone UPrim false false TNone [if is_requestor then 9 else 10]
  | AR9 => mkeff (WFresh 6) UNone false false TNone [11]
  | AR10 => mkeff WNone UPrim false false TNone [12]
  | AA1 => mkeff (if evt =? 15 then WPrim else WAbort (Some 0)) UNone false false TStartOrRestart [13]
  | AA2 => mkeff WNone UNone true false TStop [1]
  | AA3 => mkeff WNone UPrim true false TNone [1]
  | AA4 => mkeff WNone (UAbort None) false false TNone [1]
  | AA5 => mkeff WNone UNone false false TStop [1]
  | AA6 => mkeff WNone UNone false false TNone [13]
  | AA7 => mkeff (WAbort None) UNone false false TNone [13]
  | AA8 => mkeff (WAbort (Some 2)) (UAbort (Some 2)) false false TStart [13]
  end.

(* AE-6, request not acceptable to the provider: A-ASSOCIATE-RJ, start ARTIM, Sta13 *)
Definition ae6_reject : effects := mkeff (WFresh 3) UNone false false TStart [13].
