(* Spec/StatusSpec.v — status classes as transcribed from PS3.7 Annex C and the
   service tables of PS3.4 (DESIGN.md Appendix A).  Independent of the code. *)
From PND Require Import Lib.Base.

Inductive sclass := Success | Pending | Warning | Cancel | Failure.

Definition in_range (lo hi c : N) : bool := (lo <=? c) && (c <=? hi).

(* command fields of the four response types that have service-specific codes *)
Definition C_STORE_RSP : N := 32769.   (* 8001H *)
Definition C_GET_RSP   : N := 32784.   (* 8010H *)
Definition C_FIND_RSP  : N := 32800.   (* 8020H *)
Definition C_MOVE_RSP  : N := 32801.   (* 8021H *)

(* service-specific classification; None = the service table says nothing *)
Definition service_class (cmd code : N) : option sclass :=
  if cmd =? C_STORE_RSP then
    if in_range 42752 43007 code then Some Failure          (* A7xx *)
    else if in_range 43264 43519 code then Some Failure     (* A9xx *)
    else if in_range 49152 53247 code then Some Failure     (* Cxxx *)
    else if (code =? 45056) || (code =? 45062) || (code =? 45063) then Some Warning (* B000 B006 B007 *)
    else None
  else if cmd =? C_FIND_RSP then
    if (code =? 42752) || (code =? 43264) then Some Failure  (* A700 A900 *)
    else if in_range 49152 53247 code then Some Failure
    else if (code =? 65280) || (code =? 65281) then Some Pending   (* FF00 FF01 *)
    else if code =? 65024 then Some Cancel                          (* FE00 *)
    else None
  else if cmd =? C_GET_RSP then
    if (code =? 42753) || (code =? 42754) || (code =? 43264) then Some Failure (* A701 A702 A900 *)
    else if in_range 49152 53247 code then Some Failure
    else if code =? 45056 then Some Warning
    else if code =? 65280 then Some Pending
    else if code =? 65024 then Some Cancel
    else None
  else if cmd =? C_MOVE_RSP then
    if (code =? 42753) || (code =? 42754) || (code =? 43009) || (code =? 43264) then Some Failure
    else if in_range 49152 53247 code then Some Failure
    else if in_range 43520 43524 code then Some Failure     (* AA00-AA04 *)
    else if code =? 45056 then Some Warning
    else if code =? 65280 then Some Pending
    else if code =? 65024 then Some Cancel
    else None
  else None.

(* general classification: 0000 success, anything else (known 01xx/02xx or unknown) failure *)
Definition general_class (code : N) : sclass :=
  if code =? 0 then Success else Failure.

(* cmd = None: no message class given *)
Definition spec_class (cmd : option N) (code : N) : sclass :=
  match cmd with
  | Some c => match service_class c code with Some k => k | None => general_class code end
  | None => general_class code
  end.

(* what the five is_* flags and int() must look like for a class:
   bit0 success, bit1 pending, bit2 failure, bit3 warning, bit4 cancel, bit5 int(Status c)=c *)
Definition sig_of (k : sclass) : N :=
  match k with
  | Success => 33 | Pending => 34 | Failure => 36 | Warning => 40 | Cancel => 48
  end.

Definition flags_of_sig (s : N) : list bool :=
  [N.testbit s 0; N.testbit s 1; N.testbit s 2; N.testbit s 3; N.testbit s 4].
Definition count_true (l : list bool) : nat := length (filter (fun b => b) l).
