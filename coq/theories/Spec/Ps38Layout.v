(* Spec/Ps38Layout.v — the byte layouts of PS3.8 section 9.3 and PS3.7 Annex D, written
   declaratively and independently of the code: every structure is "header, length of the value,
   value", the length being COMPUTED from the value's bytes (so a theorem `encode p = layout p`
   says that each length field delimits exactly the bytes it governs), plus a strict
   length-driven parser used as an oracle on the bytes the implementation emits. *)
From PND Require Import Lib.Base Lib.Text Model.Pdu.

(* item / sub-item: type(1) reserved(1) length(2) value *)
Definition tlv (t r : N) (value : bytes) : bytes := [t; r] ++ be16 (lenN value) ++ value.
(* PDU: type(1) reserved(1) length(4) variable field *)
Definition frame (t r : N) (body : bytes) : bytes := [t; r] ++ be32 (lenN body) ++ body.

(* AE title field: 16 bytes.  PS3.8 pads with spaces; the library pads with NUL (observation O1
   in DESIGN.md) — the layout (width, position) is what is specified here. *)
Definition ae16 (t : bytes) : bytes := t ++ repeat 0 (16 - length t).

Definition layout_sub (x : subitem) : bytes :=
  match x with
  | MaxLen r _ m => tlv 81 r (be32 m)
  | ImplClass r u => tlv 82 r u
  | AsyncOps r _ a b => tlv 83 r (be16 a ++ be16 b)
  | RoleSel r u a b => tlv 84 r (be16 (lenN u) ++ u ++ [a; b])
  | ImplVersion r n => tlv 85 r n
  | ExtNeg r u i => tlv 86 r (be16 (lenN u) ++ u ++ i)
  | UserId r t q p s => tlv 88 r ([t; q] ++ be16 (lenN p) ++ p ++ be16 (lenN s) ++ s)
  | UserIdAc r s => tlv 89 r (be16 (lenN s) ++ s)
  | Generic t r d => tlv t r d
  end.

Definition layout_syntax (t : N) (x : syntax_item) : bytes := tlv t (sy_reserved x) (sy_name x).

Definition layout_item (x : item) : bytes :=
  match x with
  | AppCtx r n => tlv 16 r n
  | PcRq id r1 r2 r3 r4 a ts =>
      tlv 32 r1 ([id; r2; r3; r4] ++ layout_syntax 48 a ++ concat (map (layout_syntax 64) ts))
  | PcAc id r1 r2 res r3 t => tlv 33 r1 ([id; r2; res; r3] ++ layout_syntax 64 t)
  | UserInfo r subs => tlv 80 r (concat (map layout_sub subs))
  end.

Definition layout_pdv (v : pdv) : bytes :=
  let value := pdv_ctx v :: pdv_data v in be32 (lenN value) ++ value.

Definition layout (p : pdu) : bytes :=
  match p with
  | Assoc k r1 ver r2 called calling r3 items =>
      frame (kind_code k) r1
        (be16 ver ++ be16 r2 ++ ae16 called ++ ae16 calling ++ concat (map be32 r3)
         ++ concat (map layout_item items))
  | AssocRj r1 r2 res src rsn => frame 3 r1 [r2; res; src; rsn]
  | PData r vs => frame 4 r (concat (map layout_pdv vs))
  | RelRq r1 r2 => frame 5 r1 (be32 r2)
  | RelRp r1 r2 => frame 6 r1 (be32 r2)
  | Abort r1 r2 r3 src rsn => frame 7 r1 [r2; r3; src; rsn]
  end.

(* the two fixed-size sub-items must announce their fixed size *)
Definition fixed_len_ok (x : subitem) : bool :=
  match x with
  | MaxLen _ l _ => l =? 4
  | AsyncOps _ l _ _ => l =? 4
  | _ => true
  end.
Definition fixed_lens_item (x : item) : bool :=
  match x with UserInfo _ subs => forallb fixed_len_ok subs | _ => true end.
Definition fixed_lens (p : pdu) : bool :=
  match p with Assoc _ _ _ _ _ _ _ items => forallb fixed_lens_item items | _ => true end.

(* ---------------------------------------------------------------------------------------
   Strict length-driven parser (oracle): every length field delimits exactly its value; a value
   must be consumed completely; nothing may follow the PDU. *)
Definition cut (n : N) (s : bytes) : option (bytes * bytes) :=
  if lenN s <? n then None else Some (take n s, drop n s).

Definition p_tlv (s : bytes) : option (N * N * bytes * bytes) :=   (* type, reserved, value, rest *)
  match s with
  | t :: r :: l1 :: l2 :: s' =>
      match cut (un16 l1 l2) s' with
      | Some (v, rest) => Some (t, r, v, rest)
      | None => None
      end
  | _ => None
  end.

Definition p_text (v : bytes) : option bytes := if utf8_valid v then Some v else None.

Definition p_sub_value (t r : N) (v : bytes) : option subitem :=
  if t =? 81 then
    match v with [a; b; c; d] => Some (MaxLen r 4 (un32 a b c d)) | _ => None end
  else if t =? 82 then option_map (ImplClass r) (p_text v)
  else if t =? 83 then
    match v with [a1; a2; b1; b2] => Some (AsyncOps r 4 (un16 a1 a2) (un16 b1 b2)) | _ => None end
  else if t =? 84 then
    match v with
    | u1 :: u2 :: v' =>
        match cut (un16 u1 u2) v' with
        | Some (u, [a; b]) => option_map (fun u' => RoleSel r u' a b) (p_text u)
        | _ => None
        end
    | _ => None
    end
  else if t =? 85 then option_map (ImplVersion r) (p_text v)
  else if t =? 86 then
    match v with
    | u1 :: u2 :: v' =>
        match cut (un16 u1 u2) v' with
        | Some (u, info) => option_map (fun u' => ExtNeg r u' info) (p_text u)
        | None => None
        end
    | _ => None
    end
  else if t =? 88 then
    match v with
    | ty :: rq :: p1 :: p2 :: v' =>
        match cut (un16 p1 p2) v' with
        | Some (p, s1 :: s2 :: v'') =>
            match cut (un16 s1 s2) v'' with
            | Some (s, []) =>
                match p_text p, p_text s with
                | Some p', Some s' => Some (UserId r ty rq p' s')
                | _, _ => None
                end
            | _ => None
            end
        | _ => None
        end
    | _ => None
    end
  else if t =? 89 then
    match v with
    | l1 :: l2 :: v' =>
        match cut (un16 l1 l2) v' with
        | Some (s, []) => option_map (UserIdAc r) (p_text s)
        | _ => None
        end
    | _ => None
    end
  else Some (Generic t r v).

Fixpoint p_subs (fuel : nat) (s : bytes) : option (list subitem) :=
  match fuel with
  | O => None
  | S f =>
    match s with
    | [] => Some []
    | _ =>
      match p_tlv s with
      | Some (t, r, v, rest) =>
          match p_sub_value t r v, p_subs f rest with
          | Some x, Some xs => Some (x :: xs)
          | _, _ => None
          end
      | None => None
      end
    end
  end.

Definition p_syntax (expected : N) (s : bytes) : option (syntax_item * bytes) :=
  match p_tlv s with
  | Some (t, r, v, rest) =>
      if t =? expected then option_map (fun n => ({| sy_reserved := r; sy_name := n |}, rest)) (p_text v)
      else None
  | None => None
  end.

Fixpoint p_tss (fuel : nat) (s : bytes) : option (list syntax_item) :=
  match fuel with
  | O => None
  | S f =>
    match s with
    | [] => Some []
    | _ => match p_syntax 64 s with
           | Some (x, rest) => option_map (cons x) (p_tss f rest)
           | None => None
           end
    end
  end.

Definition p_item_value (t r : N) (v : bytes) : option item :=
  if t =? 16 then option_map (AppCtx r) (p_text v)
  else if t =? 32 then
    match v with
    | id :: r2 :: r3 :: r4 :: v' =>
        match p_syntax 48 v' with
        | Some (a, rest) => option_map (PcRq id r r2 r3 r4 a) (p_tss (S (length rest)) rest)
        | None => None
        end
    | _ => None
    end
  else if t =? 33 then
    match v with
    | id :: r2 :: res :: r3 :: v' =>
        match p_syntax 64 v' with
        | Some (x, []) => Some (PcAc id r r2 res r3 x)
        | _ => None
        end
    | _ => None
    end
  else if t =? 80 then option_map (UserInfo r) (p_subs (S (length v)) v)
  else None.

Fixpoint p_items (fuel : nat) (s : bytes) : option (list item) :=
  match fuel with
  | O => None
  | S f =>
    match s with
    | [] => Some []
    | _ =>
      match p_tlv s with
      | Some (t, r, v, rest) =>
          match p_item_value t r v, p_items f rest with
          | Some x, Some xs => Some (x :: xs)
          | _, _ => None
          end
      | None => None
      end
    end
  end.

Fixpoint p_pdvs (fuel : nat) (s : bytes) : option (list pdv) :=
  match fuel with
  | O => None
  | S f =>
    match s with
    | [] => Some []
    | a :: b :: c :: d :: s' =>
        match cut (un32 a b c d) s' with
        | Some (ctx :: data, rest) =>
            option_map (cons {| pdv_ctx := ctx; pdv_data := data |}) (p_pdvs f rest)
        | _ => None
        end
    | _ => None
    end
  end.

(* trailing NUL padding of an AE title field is not significant *)
Definition p_ae (f : bytes) : bytes := rstrip is_nul f.

Definition parse (s : bytes) : option pdu :=
  match s with
  | t :: r1 :: a :: b :: c :: d :: body =>
      if negb (lenN body =? un32 a b c d) then None
      else if (t =? 1) || (t =? 2) then
        match body with
        | v1 :: v2 :: q1 :: q2 :: h =>
            match cut 16 h with
            | Some (called, h1) =>
                match cut 16 h1 with
                | Some (calling, h2) =>
                    match cut 32 h2 with
                    | Some (r3, its) =>
                        option_map (Assoc (if t =? 1 then KRq else KAc) r1 (un16 v1 v2) (un16 q1 q2)
                                          (p_ae called) (p_ae calling) (un32s r3))
                                   (p_items (S (length its)) its)
                    | None => None
                    end
                | None => None
                end
            | None => None
            end
        | _ => None
        end
      else if t =? 4 then option_map (PData r1) (p_pdvs (S (length body)) body)
      else match body with
           | [w; x; y; z] =>
               if t =? 3 then Some (AssocRj r1 w x y z)
               else if t =? 5 then Some (RelRq r1 (un32 w x y z))
               else if t =? 6 then Some (RelRp r1 (un32 w x y z))
               else if t =? 7 then Some (Abort r1 w x y z)
               else None
           | _ => None
           end
  | _ => None
  end.
