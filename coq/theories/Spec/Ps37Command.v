(* Spec/Ps37Command.v — PS3.7 command fields (Annex E) and the command elements used by the
   message classes, transcribed independently of the code. *)
From PND Require Import Lib.Base.

(* the 23 command field codes *)
Definition command_fields : list N :=
  [ 1; 32769;        (* C-STORE-RQ 0001H / RSP 8001H *)
    16; 32784;       (* C-GET 0010H / 8010H *)
    32; 32800;       (* C-FIND 0020H / 8020H *)
    33; 32801;       (* C-MOVE 0021H / 8021H *)
    48; 32816;       (* C-ECHO 0030H / 8030H *)
    256; 33024;      (* N-EVENT-REPORT 0100H / 8100H *)
    272; 33040;      (* N-GET 0110H / 8110H *)
    288; 33056;      (* N-SET 0120H / 8120H *)
    304; 33072;      (* N-ACTION 0130H / 8130H *)
    320; 33088;      (* N-CREATE 0140H / 8140H *)
    336; 33104;      (* N-DELETE 0150H / 8150H *)
    4095 ].          (* C-CANCEL 0FFFH *)

(* requests whose SOP class travels in Requested SOP Class UID (0000,0003) instead of (0000,0002) *)
Definition uses_requested_uid (cf : N) : bool := (cf =? 272) || (cf =? 288) || (cf =? 304) || (cf =? 336).

Definition is_response (cf : N) : bool := 32768 <=? cf.
Definition response_of (cf : N) : N := cf + 32768.

Definition NO_DATASET : N := 257.   (* 0101H *)

(* message kinds and their command field values (PS3.7 Annex E, Table E.1-1) *)
Inductive msgkind :=
| C_STORE_RQ | C_STORE_RSP | C_GET_RQ | C_GET_RSP | C_FIND_RQ | C_FIND_RSP | C_MOVE_RQ | C_MOVE_RSP
| C_ECHO_RQ | C_ECHO_RSP | N_EVENT_REPORT_RQ | N_EVENT_REPORT_RSP | N_GET_RQ | N_GET_RSP
| N_SET_RQ | N_SET_RSP | N_ACTION_RQ | N_ACTION_RSP | N_CREATE_RQ | N_CREATE_RSP
| N_DELETE_RQ | N_DELETE_RSP | C_CANCEL_RQ.

Definition code_of (k : msgkind) : N :=
  match k with
  | C_STORE_RQ => 1 | C_STORE_RSP => 32769 | C_GET_RQ => 16 | C_GET_RSP => 32784
  | C_FIND_RQ => 32 | C_FIND_RSP => 32800 | C_MOVE_RQ => 33 | C_MOVE_RSP => 32801
  | C_ECHO_RQ => 48 | C_ECHO_RSP => 32816 | N_EVENT_REPORT_RQ => 256 | N_EVENT_REPORT_RSP => 33024
  | N_GET_RQ => 272 | N_GET_RSP => 33040 | N_SET_RQ => 288 | N_SET_RSP => 33056
  | N_ACTION_RQ => 304 | N_ACTION_RSP => 33072 | N_CREATE_RQ => 320 | N_CREATE_RSP => 33088
  | N_DELETE_RQ => 336 | N_DELETE_RSP => 33104 | C_CANCEL_RQ => 4095
  end.
