(* Corr/CorrFsm.v — the hand-written control model (Model.Fsm.dispatch) against the complete table of
   observed cells of the real StateMachine (mechanism A for the model used by C05 / C12 / C13): for
   every state, event, role and primitive kind the model's effects are exactly the observed ones. *)
From PND Require Import Lib.Base Spec.Ps38Table Model.FsmCell Model.Fsm.

Definition kind_of_prim (p : primkind) : kind * decans :=
  match p with
  | PkNone => (KNone, DIncomplete) | PkRq => (KRq, DIncomplete) | PkAc => (KAc, DIncomplete)
  | PkRj => (KRj, DIncomplete) | PkDataComplete => (KData, DComplete) | PkDataPartial => (KData, DIncomplete)
  | PkRelRq => (KRelRq, DIncomplete) | PkRelRp => (KRelRp, DIncomplete)
  | PkAbort n => (KAbort (if n =? 0 then S0 else if n =? 2 then S2 else SOther), DIncomplete)
  end.

Definition type_code (k : kind) : N :=
  match k with KNone => 0 | KRq => 1 | KAc => 2 | KRj => 3 | KData => 4 | KRelRq => 5 | KRelRp => 6 | KAbort _ => 7 end.

Definition prim_source (p : primkind) : N := match p with PkAbort n => n | _ => 0 end.
Definition fresh_source (k : kind) : N := match k with KAbort S2 => 2 | _ => 0 end.

(* the transport the harness gives the state machine in this cell *)
Definition cell_ctrl (c : cell) : ctrl :=
  let (k, _) := kind_of_prim (c_prim c) in
  mkctrl (c_state c) (negb (c_requestor c && (c_state c =? 1))) (c_timer_before c) None k false false
         (c_requestor c) Running.

Definition sent_matches (p : primkind) (o : output) (x : sent) : bool :=
  match o with
  | OSend k fresh =>
      (s_type x =? type_code k)
      && (if fresh then (negb (s_type x =? 7) || (s_a x =? fresh_source k))
          else s_is_prim x && (negb (s_type x =? 7) || (s_a x =? prim_source p)))
  | _ => false
  end.

Definition given_matches (p : primkind) (o : output) (x : given) : bool :=
  match o with
  | OInd k fresh =>
      (g_type x =? type_code k)
      && (if fresh then (negb (g_type x =? 7) || (g_a x =? fresh_source k))
          else g_is_prim x)
  | OIndData => g_type x =? 100
  | _ => false
  end.

Fixpoint match_lists {A B} (f : A -> B -> bool) (a : list A) (b : list B) : bool :=
  match a, b with
  | [], [] => true
  | x :: a', y :: b' => f x y && match_lists f a' b'
  | _, _ => false
  end.

Definition is_send (o : output) : bool := match o with OSend _ _ => true | _ => false end.
Definition is_given (o : output) : bool := match o with OInd _ _ | OIndData => true | _ => false end.
Definition has (f : output -> bool) (l : list output) : bool := existsb f l.

Definition model_matches (c : cell) : bool :=
  let (k, d) := kind_of_prim (c_prim c) in
  let (c', outs) := dispatch (cell_ctrl c) (c_event c) d in
  match table (c_event c) (c_state c) with
  | None =>      (* undefined: the model ignores it; the code may raise or ignore, without effects *)
      match c_wire c, c_user c with [], [] => true | _, _ => false end
      && negb (c_closed c) && negb (c_opened c) && Bool.eqb (c_timer_after c) (c_timer_before c)
      && (c_next c =? c_state c)
  | Some _ =>
      match c_out c' with
      | Crashed => c_raised c
      | _ =>
          negb (c_raised c) && (c_next c =? c_st c')
          && match_lists (sent_matches (c_prim c)) (filter is_send outs) (c_wire c)
          && match_lists (given_matches (c_prim c)) (filter is_given outs) (c_user c)
          && Bool.eqb (c_closed c) (has (fun o => match o with OClose => true | _ => false end) outs)
          && Bool.eqb (c_opened c) (has (fun o => match o with OOpen => true | _ => false end) outs)
          && Bool.eqb (c_timer_after c) (c_tmr c')
          && Bool.eqb (c_timer_reset c) (has (fun o => match o with OTStart => true | _ => false end) outs)
      end
  end.
