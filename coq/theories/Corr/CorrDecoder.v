(* Corr/CorrDecoder.v — obligations on observations of the real fsm.DIMSEDecoder (C07). *)
From PND Require Import Lib.Base Lib.Text Model.Pdu Model.PduWf Model.CmdSet Model.Decoder Model.Dimse
  Spec.Ps37Command.

Record dcase := mkdc {
  dc_env : denv;
  dc_cmd : bytes; dc_data : bytes; dc_pc : N; dc_m : N;       (* the message that was fragmented *)
  dc_cf : N;                                                    (* its command field (class attribute) *)
  dc_groups : list (list pdv);                                  (* how its fragments were grouped into PDUs *)
  dc_flags : list bool;                                         (* decoder.receiving after each PDU *)
  dc_final : option dmsg;                                       (* what the decoder delivered at the end *)
  dc_file_ok : bool;                                            (* file-backed: readable DICOM file, data set re-read equal *)
}.

(* the model fed group by group *)
Fixpoint feed (env : denv) (d : dstate) (groups : list (list pdv)) : list bool * option dmsg :=
  match groups with
  | [] => ([], None)
  | g :: r =>
    match process env d g with
    | DMore d' => let (fl, m) := feed env d' r in (true :: fl, m)
    | DDone m => (false :: map (fun _ => false) r, Some m)     (* the caller replaces the decoder; not fed further *)
    | DFail _ => ([], None)
    end
  end.

Definition beq_dmsg (a b : dmsg) : bool :=
  match a, b with
  | DMsg c1 m1 d1 f1 p1, DMsg c2 m2 d2 f2 p2 =>
      (c1 =? c2) && beq_bytes m1 m2 && beq_bytes d1 d2 && Bool.eqb f1 f2 && (p1 =? p2)
  end.
Definition beq_odmsg (a b : option dmsg) : bool :=
  match a, b with Some x, Some y => beq_dmsg x y | None, None => true | _, _ => false end.

Definition dec_corr (c : dcase) : bool :=
  let (fl, m) := feed (dc_env c) d_init (dc_groups c) in
  beq_list Bool.eqb fl (dc_flags c) && beq_odmsg m (dc_final c).

(* the groups really are the fragments of the message, in order *)
Definition pdv_of_frag (f : frag) : pdv := {| pdv_ctx := f_ctx f; pdv_data := f_ctl f :: f_payload f |}.
Definition groups_ok (c : dcase) : bool :=
  match dimse_encode (dc_cmd c) (dc_data c) (dc_pc c) (dc_m c) with
  | Ok fs => beq_list beq_pdv (concat (dc_groups c)) (map pdv_of_frag fs)
             && forallb (fun g => match g with [] => false | _ => true end) (dc_groups c)
  | Err _ => false
  end.

Fixpoint all_true_but_last (l : list bool) : bool :=
  match l with
  | [] => false
  | [x] => negb x
  | x :: r => x && all_true_but_last r
  end.

(* the property's oracle: completion exactly at the last PDU; right type, context, command set, data *)
Definition dec_spec (c : dcase) : bool :=
  groups_ok c && all_true_but_last (dc_flags c) && dc_file_ok c
  && match dc_final c with
     | Some (DMsg cf cmd data in_file pc) =>
         (cf =? dc_cf c) && beq_bytes cmd (dc_cmd c) && (pc =? dc_pc c)
         && (if in_file then beq_bytes data (e_prefix (dc_env c) ++ dc_data c) else beq_bytes data (dc_data c))
     | None => false
     end.

(* MESSAGE_TYPE as tabulated: key, the class's command_field attribute, element of the uid tag *)
Definition mt_row_ok (r : N * N * N) : bool :=
  let '(key, field, uid_elem) := r in
  (key =? field) && existsb (N.eqb key) command_fields
  && (uid_elem =? (if uses_requested_uid key then 3 else 2)).
Definition mt_ok (rows : list (N * N * N)) : bool :=
  forallb mt_row_ok rows && (lenN rows =? 23)
  && forallb (fun cf => existsb (fun r => fst (fst r) =? cf) rows) command_fields.
