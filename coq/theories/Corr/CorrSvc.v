(* Corr/CorrSvc.v — obligations on observations of the real service classes (C16, C17, C19). *)
From PND Require Import Lib.Base Lib.Text Model.Services Spec.Ps37Command.

Definition beq_ob (a b : option bytes) : bool :=
  match a, b with Some x, Some y => beq_bytes x y | None, None => true | _, _ => false end.
Definition beq_on (a b : option N) : bool :=
  match a, b with Some x, Some y => x =? y | None, None => true | _, _ => false end.

Definition beq_rsp (a b : rsp) : bool :=
  (o_cf a =? o_cf b) && (o_pc a =? o_pc b) && beq_on (o_mid a) (o_mid b) && beq_ob (o_sop a) (o_sop b)
  && beq_ob (o_inst a) (o_inst b) && beq_on (o_status a) (o_status b) && beq_on (o_rem a) (o_rem b)
  && beq_on (o_comp a) (o_comp b) && beq_on (o_fail a) (o_fail b) && beq_on (o_warn a) (o_warn b)
  && beq_bytes (o_data a) (o_data b).

Fixpoint beq_rsps (a b : list rsp) : bool :=
  match a, b with
  | [], [] => true
  | x :: a', y :: b' => beq_rsp x y && beq_rsps a' b'
  | _, _ => false
  end.

(* the property's notion of correlation, as a boolean *)
Definition correlates_b (q : rq) (r : rsp) : bool :=
  (o_pc r =? q_pc q) && beq_on (o_mid r) (Some (q_mid q)) && beq_ob (o_sop r) (Some (q_sop q))
  && (o_cf r =? response_of (q_cf q))
  && match q_inst q with Some i => beq_ob (o_inst r) (Some i) | None => true end.

(* ---- C17: one request to one provider ------------------------------------------------------------- *)
Inductive provider := PEcho | PStore | PFind | PMove | PNAction | PNEventReport | PGetStoreRsp.

Record pcase := mkpcase {
  pv : provider; pq : rq; po : outcome;
  p_matches : list (bytes * N);            (* C-FIND: what the application yields *)
  p_nop : N; p_subs : list subclass;       (* C-MOVE: announced operations, outcome class of each sub-operation *)
  p_obs : list rsp }.                      (* responses handed to Association.send, in order *)

Definition model_responses (c : pcase) : list rsp :=
  match pv c with
  | PEcho => echo_scp (pq c) (po c)
  | PStore => store_scp (pq c) (po c)
  | PFind => find_scp (pq c) (p_matches c)
  | PMove => move_scp (pq c) (p_nop c) (p_subs c)
  | PNAction => n_action_scp (pq c) (po c)
  | PNEventReport => n_event_report_scp (pq c) (po c)
  | PGetStoreRsp => [get_scu_store_rsp (pq c) (po c)]
  end.

Definition svc_corr (c : pcase) : bool := beq_rsps (model_responses c) (p_obs c).

Definition failure_status (v : provider) : N :=
  match v with
  | PStore => CANNOT_UNDERSTAND | PGetStoreRsp => UNABLE_TO_PROCESS | _ => PROCESSING_FAILURE
  end.

Definition is_final (r : rsp) : bool :=
  match o_status r with Some s => negb ((s =? 65280) || (s =? 65281)) | None => true end.

(* every request is answered; every response correlates; exactly one final response, and it is the
   last; the status is the handler's, or the documented failure status on EventHandlingError *)
Definition svc_spec (c : pcase) : bool :=
  let obs := p_obs c in
  negb (match obs with [] => true | _ => false end)
  && forallb (correlates_b (pq c)) obs
  && (lenN (filter is_final obs) =? 1) && is_final (last obs (mkrsp 0 0 None None None None None None None None []))
  && match pv c with
     | PEcho | PStore | PGetStoreRsp =>
         match obs with
         | [r] => beq_on (o_status r) (Some (status_of (po c) (failure_status (pv c))))
         | _ => false
         end
     | PNEventReport | PNAction =>
         match obs with
         | [r] => beq_on (o_status r) (Some (match po c with HStatus _ => 0 | HError => PROCESSING_FAILURE end))
         | _ => false
         end
     | _ => true
     end.

(* ---- C16: C-FIND end to end ------------------------------------------------------------------------ *)
Record fcase_full := mkfcase {
  f_q : rq; f_matches : list (bytes * N);
  f_sent : list rsp;                                  (* what the provider handed to send *)
  f_query_seen : bool;                                (* the handler received exactly the query data set *)
  f_yield : list (option bytes * N);                  (* what the user side yields when fed with those responses *)
  f_extra_consumed : bool }.                          (* the user side read past the final response *)

Definition beq_yield (a b : list (option bytes * N)) : bool :=
  (fix go (a b : list (option bytes * N)) :=
     match a, b with
     | [], [] => true
     | (d, s) :: a', (e, t) :: b' => beq_ob d e && (s =? t) && go a' b'
     | _, _ => false
     end) a b.

Definition rsp_pair (r : rsp) : bytes * N := (o_data r, match o_status r with Some s => s | None => 0 end).

Inductive fcase :=
| EndToEnd (c : fcase_full)
| UserOnly (responses : list (bytes * N)) (yielded : list (option bytes * N)) (consumed : N)
| Wrapper (query_seen : bool) (matches : list (bytes * N)) (yielded : list (option bytes * N)).   (* pynetdicom2.c_find *)

Definition find_corr (c : fcase) : bool :=
  match c with
  | EndToEnd c =>
      beq_rsps (find_scp (f_q c) (f_matches c)) (f_sent c)
      && beq_yield (find_scu (map rsp_pair (f_sent c))) (f_yield c)
  | UserOnly rs ys n => beq_yield (find_scu rs) ys && (n =? lenN ys)
  | Wrapper _ ms ys => beq_yield (find_scu (map rsp_pair (find_scp (mkrq 32 1 1 [] None []) ms))) ys
  end.

(* pend ++ [final]: everything up to and including the first response that is not pending *)
Fixpoint upto_final (rs : list (bytes * N)) : list (bytes * N) :=
  match rs with
  | [] => []
  | (d, s) :: r => if (s =? 65280) || (s =? 65281) then (d, s) :: upto_final r else [(d, s)]
  end.

Definition find_spec (c : fcase) : bool :=
  match c with
  | EndToEnd c =>
      f_query_seen c && negb (f_extra_consumed c)
      && beq_yield (f_yield c) (map (fun m => (match fst m with [] => None | d => Some d end, snd m)) (f_matches c) ++ [(None, 0)])
      && forallb (correlates_b (f_q c)) (f_sent c)
  | UserOnly rs ys n =>
      beq_yield ys (map (fun m => (match fst m with [] => None | d => Some d end, snd m)) (upto_final rs))
      && (n =? lenN (upto_final rs))
  | Wrapper seen ms ys =>
      seen && beq_yield ys (map (fun m => (match fst m with [] => None | d => Some d end, snd m)) ms ++ [(None, 0)])
  end.

(* ---- C19: C-GET user ------------------------------------------------------------------------------- *)
Record gcase := mkgcase {
  g_msgs : list incoming;                              (* what arrives, in order (ends with a final C-GET-RSP) *)
  g_obs_rsps : list rsp;                               (* C-STORE responses sent *)
  g_obs_yields : list bytes;                           (* instance UIDs handed to the caller, in order *)
  g_ended : bool;                                      (* the iteration ended by itself (no error, no time-out) *)
  g_unconsumed : N }.                                  (* messages still queued afterwards *)

Definition inst_of (q : rq) : bytes := match q_inst q with Some i => i | None => [] end.

Fixpoint beq_list_bytes (a b : list bytes) : bool :=
  match a, b with
  | [], [] => true
  | x :: a', y :: b' => beq_bytes x y && beq_list_bytes a' b'
  | _, _ => false
  end.

(* messages up to and including the final C-GET response *)
Fixpoint get_consumed (msgs : list incoming) : N :=
  match msgs with
  | [] => 0
  | GetRsp s :: r => if get_pending s then 1 + get_consumed r else 1
  | StoreRq _ _ :: r => 1 + get_consumed r
  end.

Definition get_corr (c : gcase) : bool :=
  let (rs, ys) := get_scu (g_msgs c) in
  beq_rsps rs (g_obs_rsps c) && beq_list_bytes (map inst_of ys) (g_obs_yields c).

Fixpoint store_rqs (msgs : list incoming) : list (rq * outcome) :=
  match msgs with
  | [] => []
  | GetRsp s :: r => if get_pending s then store_rqs r else []
  | StoreRq q o :: r => (q, o) :: store_rqs r
  end.

(* every C-STORE request answered exactly once, in order, on its own context with its message id;
   each handled instance handed over once, in order *)
Definition get_spec (c : gcase) : bool :=
  let sr := store_rqs (g_msgs c) in
  (lenN (g_obs_rsps c) =? lenN sr)
  && (fix go (qs : list (rq * outcome)) (rs : list rsp) :=
        match qs, rs with
        | (q, _) :: qs', r :: rs' => correlates_b q r && go qs' rs'
        | [], [] => true
        | _, _ => false
        end) sr (g_obs_rsps c)
  && beq_list_bytes (map (fun p => inst_of (fst p))
                         (filter (fun p => match snd p with HStatus _ => true | HError => false end) sr))
                    (g_obs_yields c)
  (* the final C-GET response - whatever its class: success, warning, failure, cancel - ends the operation:
     the iteration ends by itself and nothing queued behind that response is read *)
  && g_ended c && (g_unconsumed c + get_consumed (g_msgs c) =? lenN (g_msgs c)).

(* ---- C19: C-MOVE provider -------------------------------------------------------------------------- *)
Record mvcase := mkmvcase {
  m_q : rq; m_nop : N; m_subs : list subclass;
  m_instances : list bytes;                            (* instance UIDs the application supplies, in order *)
  m_dest_known : bool;
  m_obs : list rsp;
  m_obs_subops : list (bytes * N);                     (* (instance UID, destination ok) of each C-STORE sub-operation *)
}.

Definition move_corr (c : mvcase) : bool := beq_rsps (move_scp (m_q c) (m_nop c) (m_subs c)) (m_obs c).

Definition move_spec (c : mvcase) : bool :=
  let obs := m_obs c in
  let total := m_nop c in
  (* each instance sent exactly once, in order, to the designated destination *)
  beq_list_bytes (map fst (m_obs_subops c)) (if total =? 0 then [] else m_instances c)
  && forallb (fun p => snd p =? 1) (m_obs_subops c)
  (* exactly one final response, the last one; all correlate *)
  && (lenN (filter is_final obs) =? 1) && is_final (last obs (mkrsp 0 0 None None None None None None None None []))
  && forallb (correlates_b (m_q c)) obs
  (* progress: the k-th pending response reports k performed and total - k remaining *)
  && (fix go (k : N) (rs : list rsp) :=
        match rs with
        | [] => true
        | r :: rs' =>
            (is_final r || (beq_on (o_comp r) (Some k) && beq_on (o_rem r) (Some (total - k)))) && go (k + 1) rs'
        end) 1 obs.
