(* Corr/CorrNego.v — obligations on observations of the real negotiation code (C09, C10, C11). *)
From PND Require Import Lib.Base Lib.Text Model.Pdu Model.PduWf Model.Negotiation Model.NegoPdu Model.Dimse.

Fixpoint beq_table (a b : list (N * bytes * bytes)) : bool :=
  match a, b with
  | [], [] => true
  | (i, c, t) :: a', (j, d, u) :: b' => (i =? j) && beq_bytes c d && beq_bytes t u && beq_table a' b'
  | _, _ => false
  end.

(* ---- C09 ------------------------------------------------------------------------------------------ *)
Record acase := mkac {
  ac_cfg : acfg; ac_own : N; ac_rq : pdu;
  ac_obs_pdu : option pdu;                         (* the AC given to the provider (None: accept raised) *)
  ac_obs_table : list (N * bytes * bytes);         (* sop_classes_as_scp, in insertion order *)
  ac_obs_ctx_same : bool;                          (* provider's accepted_contexts carries the same entries *)
  ac_obs_max : N; ac_obs_remote : bytes;
  ac_dispatch_ok : bool;                           (* _loop serves a message on context id iff id is in the table *)
}.

Definition accept_corr (c : acase) : bool :=
  match accept_pdu (ac_cfg c) (ac_own c) (ac_rq c), ac_obs_pdu c with
  | Some m, Some p =>
      beq_pdu (acc_pdu m) p && beq_table (acc_table m) (ac_obs_table c) && (acc_max m =? ac_obs_max c)
      && beq_bytes (acc_remote m) (ac_obs_remote c)
  | None, None => true
  | _, _ => false
  end.

(* the property's oracle, on the observed reply alone *)
Definition items_of (p : pdu) : list item := match p with Assoc _ _ _ _ _ _ _ its => its | _ => [] end.
Definition called_of (p : pdu) : bytes := match p with Assoc _ _ _ _ c _ _ _ => c | _ => [] end.
Definition calling_of (p : pdu) : bytes := match p with Assoc _ _ _ _ _ c _ _ => c | _ => [] end.

Definition answer_ok (cfg : acfg) (x y : item) : bool :=     (* x proposed, y answered *)
  match x, y with
  | PcRq id _ _ _ _ a tss, PcAc id' _ _ res _ t =>
      let acceptable := mem_b (sy_name a) (a_served cfg)
                        && existsb (fun s => mem_b (sy_name s) (a_ts cfg)) tss in
      (id =? id') && Bool.eqb (res =? 0) acceptable
      && (negb (res =? 0)
          || (existsb (fun s => beq_bytes (sy_name s) (sy_name t)) tss && mem_b (sy_name t) (a_ts cfg)))
  | _, _ => false
  end.

Fixpoint forall2b {A B} (f : A -> B -> bool) (a : list A) (b : list B) : bool :=
  match a, b with
  | [], [] => true
  | x :: a', y :: b' => f x y && forall2b f a' b'
  | _, _ => false
  end.

Definition expected_table (rq ac : list item) : list (N * bytes * bytes) :=
  flat_map (fun xy => match xy with
                      | (PcRq id _ _ _ _ a _, PcAc _ _ _ res _ t) =>
                          if res =? 0 then [(id, sy_name a, sy_name t)] else []
                      | _ => []
                      end) (combine rq ac).

Definition accept_spec (c : acase) : bool :=
  match ac_obs_pdu c with
  | Some ac =>
      let rqi := items_of (ac_rq c) in let aci := items_of ac in
      forall2b (answer_ok (ac_cfg c)) (middle rqi) (middle aci)          (* once each, same id, same order *)
      && beq_bytes (called_of ac) (called_of (ac_rq c)) && beq_bytes (calling_of ac) (calling_of (ac_rq c))
      && match rqi, aci with x :: _, y :: _ => beq_item x y | _, _ => false end    (* application context repeated *)
      && beq_table (ac_obs_table c) (expected_table (middle rqi) (middle aci))     (* served = reported accepted *)
      && ac_obs_ctx_same c && ac_dispatch_ok c
  | None => false
  end.

(* ---- C11 ------------------------------------------------------------------------------------------ *)
Record rcase := mkrc {
  rc_calls : list (list bytes);                    (* the SOP class lists of successive add_scu / add_scp calls *)
  rc_scu : list bytes;                             (* classes configured as SCU *)
  rc_ts : list bytes;                              (* supported_ts in the entity's iteration order *)
  rc_called : bytes; rc_calling : bytes; rc_own : N;
  rc_user_info : list subitem;                     (* the user-information sub-items the code is expected to send *)
  rc_obs_ctxs : list (N * bytes);                  (* context_def_list after configuration *)
  rc_obs_rq : option pdu;                          (* the A-ASSOCIATE-RQ handed to the provider *)
  rc_rq_encodes : bool;                            (* ... and its encode() succeeds *)
  rc_reply : pdu;                                  (* the A-ASSOCIATE-AC the peer answers with *)
  rc_obs_usable : list (N * bytes * bytes);        (* accepted_contexts afterwards, by id *)
  rc_obs_max : N;
  rc_lookups : list (bytes * option (N * bytes));  (* get_scu(cls): Some (id, ts) or ClassNotSupportedError *)
}.

Fixpoint beq_ctxs (a b : list (N * bytes)) : bool :=
  match a, b with
  | [], [] => true
  | (i, c) :: a', (j, d) :: b' => (i =? j) && beq_bytes c d && beq_ctxs a' b'
  | _, _ => false
  end.

Definition sort_insert (x : N * bytes * bytes) := fix ins (l : list (N * bytes * bytes)) :=
  match l with
  | [] => [x]
  | y :: r => if fst (fst x) <=? fst (fst y) then x :: l else y :: ins r
  end.
Definition sort_by_id (l : list (N * bytes * bytes)) : list (N * bytes * bytes) :=
  fold_right sort_insert [] l.

(* dict semantics of accepted_contexts: one entry per id, the last one wins *)
Fixpoint dedupe_ids (l : list (N * bytes * bytes)) : list (N * bytes * bytes) :=
  match l with
  | [] => []
  | x :: r => if existsb (fun y => fst (fst y) =? fst (fst x)) r then dedupe_ids r else x :: dedupe_ids r
  end.

Definition lookup_ok (scu : list bytes) (u : list (N * bytes * bytes)) (q : bytes * option (N * bytes)) : bool :=
  match get_scu scu u (fst q), snd q with
  | Some (i, t), Some (j, s) => (i =? j) && beq_bytes t s
  | None, None => true
  | _, _ => false
  end.

Definition request_corr (c : rcase) : bool :=
  let ctxs := configure (rc_calls c) in
  beq_ctxs ctxs (rc_obs_ctxs c)
  && match rc_obs_rq c with
     | Some rq => beq_pdu rq (request_pdu (rc_called c) (rc_calling c) ctxs (rc_ts c) (rc_user_info c))
                  && Bool.eqb (rc_rq_encodes c) (packable rq)
     | None => false
     end
  && match read_reply (rc_own c) ctxs (rc_reply c) with
     | Some r => beq_table (sort_by_id (dedupe_ids (rep_usable r))) (rc_obs_usable c) && (rep_max r =? rc_obs_max c)
                 && forallb (lookup_ok (rc_scu c) (rep_usable r)) (rc_lookups c)
     | None => false
     end.

(* oracle on the observation: well-formed proposal; usable = accepted among proposed; lookup <-> usable *)
Definition ids_ok (ctxs : list (N * bytes)) : bool :=
  forallb (fun c => N.odd (fst c) && (1 <=? fst c) && (fst c <=? 255)) ctxs
  && (fix nodup (l : list (N * bytes)) := match l with
                                          | [] => true
                                          | x :: r => negb (existsb (fun y => fst y =? fst x) r) && nodup r
                                          end) ctxs.

Definition proposal_ok (c : rcase) (rq : pdu) : bool :=
  match rq with
  | Assoc Pdu.KRq _ _ _ called calling _ items =>
      beq_bytes called (rc_called c) && beq_bytes calling (rc_calling c)
      && match items with AppCtx _ n :: _ => beq_bytes n APP_CONTEXT | _ => false end
      && match last items (AppCtx 0 []) with
         | UserInfo _ (MaxLen _ _ m :: _) => m =? rc_own c
         | _ => false
         end
      && forall2b (fun (x : item) (cls : bytes) =>
                     match x with
                     | PcRq _ _ _ _ _ a tss =>
                         beq_bytes (sy_name a) cls
                         && forallb (fun t => mem_b (sy_name t) (rc_ts c)) tss
                         && forallb (fun t => existsb (fun s => beq_bytes (sy_name s) t) tss) (rc_ts c)
                     | _ => false
                     end) (middle items) (concat (rc_calls c))
      && ids_ok (flat_map (fun x => match x with PcRq id _ _ _ _ a _ => [(id, sy_name a)] | _ => [] end) (middle items))
  | _ => false
  end.

Definition usable_ok (c : rcase) : bool :=
  (* every usable context was accepted in the reply with that transfer syntax and was proposed with that class *)
  forallb (fun u => let '(id, cls, t) := u in
             existsb (fun x => match x with PcAc i _ _ res _ s => (i =? id) && (res =? 0) && beq_bytes (sy_name s) t | _ => false end)
                     (middle (items_of (rc_reply c)))
             && existsb (fun p => (fst p =? id) && beq_bytes (snd p) cls) (rc_obs_ctxs c)) (rc_obs_usable c)
  (* and every accepted proposed context is usable *)
  && forallb (fun x => match x with
                       | PcAc i _ _ res _ _ =>
                           negb (res =? 0) || negb (existsb (fun p => fst p =? i) (rc_obs_ctxs c))
                           || existsb (fun u => fst (fst u) =? i) (rc_obs_usable c)
                       | _ => true
                       end) (middle (items_of (rc_reply c)))
  (* a service can be obtained iff a usable context exists for the class (and it is configured as SCU) *)
  && forallb (fun q => Bool.eqb (match snd q with Some _ => true | None => false end)
                                (mem_b (fst q) (rc_scu c)
                                 && existsb (fun u => beq_bytes (snd (fst u)) (fst q)) (rc_obs_usable c)))
             (rc_lookups c).

Definition request_spec (c : rcase) : bool :=
  match rc_obs_rq c with
  | Some rq => proposal_ok c rq && rc_rq_encodes c && usable_ok c
  | None => false
  end.

(* ---- C10 ------------------------------------------------------------------------------------------ *)
Record mcase := mkmc {
  mc_own_r : N; mc_own_a : N;                       (* configured maxima of requestor and acceptor *)
  mc_ann_r : N; mc_ann_a : N;                       (* what each side announced (Maximum Length sub-item) *)
  mc_lim_r : N; mc_lim_a : N;                       (* max_pdu_length of each association object afterwards *)
  mc_sent_r : list (N * N * bool);                  (* requestor sends: (data length, longest P-DATA-TF variable field, complete) *)
  mc_sent_a : list (N * N * bool);
}.

Definition max_corr (c : mcase) : bool :=
  let n := negotiate (mc_own_r c) (mc_own_a c) in
  (ann_r n =? mc_ann_r c) && (ann_a n =? mc_ann_a c) && (lim_r n =? mc_lim_r c) && (lim_a n =? mc_lim_a c).

Definition leb_inf (a b : N) : bool := (b =? 0) || (negb (a =? 0) && (a <=? b)).   (* a <= b, 0 = infinity *)

Definition max_spec (c : mcase) : bool :=
  (* each side announces a value it is itself prepared to receive *)
  leb_inf (mc_ann_r c) (mc_own_r c) && leb_inf (mc_ann_a c) (mc_own_a c)
  (* neither side sends a P-DATA-TF longer than the peer announced (0 restricts nothing);
     every message was sent completely, whatever its size *)
  && forallb (fun s => let '(_, longest, complete) := s in
                       complete && ((mc_ann_a c =? 0) || (longest <=? mc_ann_a c))) (mc_sent_r c)
  && forallb (fun s => let '(_, longest, complete) := s in
                       complete && ((mc_ann_r c =? 0) || (longest <=? mc_ann_r c))) (mc_sent_a c).

(* ---- C10: what a side announced it is prepared to receive, it does receive ---------------------------
   (own configured maximum = announced, the peer's smaller announcement, variable-field length of an incoming
   P-DATA-TF, whether the message in it reached the local user) *)
Definition rvcase := (N * N * N * bool)%type.
Definition recv_spec (c : rvcase) : bool :=
  let '(own, peer_ann, pdu_len, delivered) := c in
  negb ((own =? 0) || (pdu_len <=? own)) || delivered.
