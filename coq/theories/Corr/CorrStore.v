(* Corr/CorrStore.v — obligations on observations of real C-STORE runs over loopback TCP and of the
   directory-backed storage entity (C15). *)
From PND Require Import Lib.Base Lib.Text Model.Services Model.Storage.

Inductive c15case :=
| StoreRun (data : bytes)                         (* the data-set bytes the sender had to transmit *)
           (received : bytes) (in_file : bool)    (* what the handler got: bytes, or the whole file *)
           (sent_cls sent_inst seen_cls seen_inst : bytes)
           (handler : outcome) (status_back : N)  (* what the handler did; the status storage_scu returned *)
           (file_parses_equal : bool)             (* file-backed: pydicom reads the file and the data set equals the original *)
| DirStore (existing : list bytes) (uid : bytes) (chosen : bytes)
           (others_intact : bool) (new_file_ok : bool).

Definition preamble_ok (prefix : bytes) : bool :=
  (132 <=? lenN prefix) && forallb (N.eqb 0) (take 128 prefix) && beq_bytes (take 4 (drop 128 prefix)) [68; 73; 67; 77].

Definition c15_corr (c : c15case) : bool :=
  match c with
  | StoreRun data received in_file _ _ _ _ h st _ =>
      beq_bytes (drop (lenN received - lenN data) received) data
      && (st =? status_of h CANNOT_UNDERSTAND)
  | DirStore existing uid chosen _ _ =>
      match storage_name existing uid with Some n => beq_bytes n chosen | None => false end
  end.

Definition c15_spec (c : c15case) : bool :=
  match c with
  | StoreRun data received in_file sc si kc ki h st parses =>
      (if in_file
       then (lenN data <=? lenN received) && preamble_ok (take (lenN received - lenN data) received)
            && beq_bytes (drop (lenN received - lenN data) received) data && parses
       else beq_bytes received data)
      && beq_bytes sc kc && beq_bytes si ki
      && (st =? match h with HStatus s => s | HError => CANNOT_UNDERSTAND end)
  | DirStore existing uid chosen intact ok => negb (mem_name chosen existing) && intact && ok
  end.
