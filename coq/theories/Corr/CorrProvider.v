(* Corr/CorrProvider.v — obligations on observations of the real DULServiceProvider.run driven by
   the scripted world (harness/world.py), used by C03, C05, C12, C13. *)
From PND Require Import Lib.Base Lib.Text Model.Pdu Model.PduWf Model.CmdSet Model.Decoder
  Spec.Ps38Table Model.Fsm Model.Provider Model.Stream.

Definition snap := (N * bool * bool * N * N * N)%type.   (* state, socket, ARTIM, len(raw_pdu), #wire, #given *)

Record obs := mkobs {
  o_outcome : N;                   (* 0 returned, 1 crashed, 2 blocked, 3 diverged *)
  o_wire : list bytes;             (* oldest first *)
  o_given : list indication;       (* oldest first *)
  o_snaps : list snap;             (* after every iteration *)
  o_frames : list bytes;           (* the byte strings handed to the PDU decoders, in order *)
}.

Definition snap_of (s : pstate) : snap :=
  (c_st (ctl s), c_sock (ctl s), c_tmr (ctl s), lenN (raw s), lenN (wire s), lenN (given s)).

Fixpoint run_snaps (env : denv) (s : pstate) (ops : list op) : pstate * list snap :=
  match ops with
  | [] => (s, [])
  | o :: r =>
    match c_out (ctl s) with
    | Running =>
        let s' := iter env s o in
        let (sf, l) := run_snaps env s' r in (sf, snap_of s' :: l)
    | _ => (s, [])
    end
  end.

(* the implementation holds the command set as a parsed Dataset (one element per tag, the last
   occurrence wins, ascending tags); the observation re-encodes it.  Canonical form of raw bytes: *)
Fixpoint put_elem (x : elem) (l : list elem) : list elem :=
  match l with
  | [] => [x]
  | y :: r =>
      let '(g, e, _) := x in let '(g', e', _) := y in
      if (g =? g') && (e =? e') then x :: r
      else if (g <? g') || ((g =? g') && (e <? e')) then x :: l
      else y :: put_elem x r
  end.
Definition canon_cmd (cmd : bytes) : bytes :=
  match parse_cmd cmd with
  | Ok elems => enc_elems (fold_left (fun acc x => put_elem x acc) elems [])
  | Err _ => cmd
  end.
Definition canon_ind (i : indication) : indication :=
  match i with
  | IMsg (DMsg cf cmd data f pc) => IMsg (DMsg cf (canon_cmd cmd) data f pc)
  | _ => i
  end.

Definition model_obs (env : denv) (requestor : bool) (maxlen : N) (ops : list op) : obs :=
  let (sf, snaps) := run_snaps env (p_init requestor maxlen) ops in
  mkobs (match c_out (ctl sf) with Crashed => 1 | _ => 0 end) (rev (wire sf)) (map canon_ind (rev (given sf))) snaps
        (run_frames env (p_init requestor maxlen) ops).

Definition beq_dmsg (a b : dmsg) : bool :=
  match a, b with
  | DMsg c1 m1 d1 f1 p1, DMsg c2 m2 d2 f2 p2 =>
      (c1 =? c2) && beq_bytes m1 m2 && beq_bytes d1 d2 && Bool.eqb f1 f2 && (p1 =? p2)
  end.
Definition beq_ind (a b : indication) : bool :=
  match a, b with
  | IPdu p, IPdu q => beq_pdu p q
  | IMsg m, IMsg n => beq_dmsg m n
  | _, _ => false
  end.
Definition beq_snap (a b : snap) : bool :=
  let '(s1, k1, t1, r1, w1, g1) := a in let '(s2, k2, t2, r2, w2, g2) := b in
  (s1 =? s2) && Bool.eqb k1 k2 && Bool.eqb t1 t2 && (r1 =? r2) && (w1 =? w2) && (g1 =? g2).

Definition beq_obs (a b : obs) : bool :=
  (o_outcome a =? o_outcome b) && beq_list beq_bytes (o_wire a) (o_wire b)
  && beq_list beq_ind (o_given a) (o_given b) && beq_list beq_snap (o_snaps a) (o_snaps b)
  && beq_list beq_bytes (o_frames a) (o_frames b).

(* same result, whatever the number of iterations it took *)
Definition last_snap (l : list snap) : snap := last l (0, false, false, 0, 0, 0).
Definition beq_result_obs (a b : obs) : bool :=
  (o_outcome a =? o_outcome b) && beq_list beq_bytes (o_wire a) (o_wire b)
  && beq_list beq_ind (o_given a) (o_given b) && beq_list beq_bytes (o_frames a) (o_frames b)
  && (let '(s1, k1, t1, _, _, _) := last_snap (o_snaps a) in
      let '(s2, k2, t2, _, _, _) := last_snap (o_snaps b) in
      (s1 =? s2) && Bool.eqb k1 k2 && Bool.eqb t1 t2).

Record pcase := mkpc {
  pc_env : denv; pc_req : bool; pc_max : N; pc_ops : list op;
  pc_obs : obs;                    (* what the real provider did *)
  pc_ref : obs;                    (* C03: the real provider on the one-PDU-per-segment delivery *)
}.

Definition prov_corr (c : pcase) : bool :=
  beq_obs (model_obs (pc_env c) (pc_req c) (pc_max c) (pc_ops c)) (pc_obs c).

(* ---- the properties' oracles on the implementation's observation -------------------------- *)
Definition in_st (l : list N) (s : N) : bool := existsb (N.eqb s) l.
Definition first_byte (b : bytes) : N := match b with x :: _ => x | [] => 0 end.
Definition is_msg (i : indication) : bool := match i with IMsg _ => true | _ => false end.

(* wire items / indications produced during iteration k = those with index in [before, after) *)
Definition is_nil_l {A} (l : list A) : bool := match l with [] => true | _ => false end.
Definition slice {A} (l : list A) (from to : N) : list A := firstn (N.to_nat (to - from)) (skipn (N.to_nat from) l).

Fixpoint steps_ok (acceptor_start : bool) (wire : list bytes) (given : list indication)
         (prev : snap) (snaps : list snap) : bool :=
  match snaps with
  | [] => true
  | cur :: r =>
    let '(s0, k0, t0, _, w0, g0) := prev in
    let '(s1, k1, t1, _, w1, g1) := cur in
    let sent := slice wire w0 w1 in
    let ind := slice given g0 g1 in
    (* ARTIM runs exactly in Sta2 / Sta13;  idle => transport closed *)
    Bool.eqb t1 (in_st [2; 13] s1)
    && (negb (s1 =? 1) || negb k1 || ((s0 =? 1) && k0))   (* (Sta1, transport) only as the untouched initial state *)
    (* P-DATA sent only from Sta6 / Sta8, indicated only from Sta6 / Sta7 *)
    && (negb (existsb (fun b => first_byte b =? 4) sent) || in_st [6; 8] s0)
    && (negb (existsb is_msg ind) || in_st [6; 7] s0)
    (* nothing is indicated once the association is over / before there is one *)
    && (negb (in_st [1; 13] s0) || is_nil_l ind)
    && steps_ok false wire given cur r
  end.

Definition c05_spec (c : pcase) : bool :=
  let o := pc_obs c in
  (o_outcome o =? 0)
  && steps_ok true (o_wire o) (o_given o) (1, negb (pc_req c), false, 0, 0, 0) (o_snaps o)
  (* everything the library transmitted is a well-formed PDU *)
  && forallb (fun b => match decode_as (first_byte b) b with Ok p => wf_pdu p | Err _ => false end) (o_wire o).

(* C03: identical result to the one-PDU-per-segment delivery *)
Definition c03_spec (c : pcase) : bool := beq_result_obs (pc_obs c) (pc_ref c) && (o_outcome (pc_obs c) =? 0).

(* C12 / C13: ends at rest (Sta1, closed, timer off), loop returned, the user told iff an association had been indicated *)
Definition told_assoc (i : indication) : bool :=
  match i with IPdu (Assoc _ _ _ _ _ _ _ _) => true | _ => false end.
Definition told_gone (i : indication) : bool :=
  match i with
  | IPdu (Abort _ _ _ _ _) | IPdu (RelRp _ _) | IPdu (AssocRj _ _ _ _ _) | IPdu (RelRq _ _) => true
  | _ => false
  end.
(* the local user ended it itself: reject, abort, release response *)
Definition user_ended (ops : list op) : bool :=
  existsb (fun o => match o with
                    | User (UP (AssocRj _ _ _ _ _)) | User (UP (Abort _ _ _ _ _)) | User (UP (RelRp _ _)) => true
                    | _ => false
                    end) ops.
Definition ends_at_rest (c : pcase) : bool :=
  let o := pc_obs c in
  (o_outcome o =? 0)
  && (let '(s, k, t, _, _, _) := last_snap (o_snaps o) in (s =? 1) && negb k && negb t)
  && (negb (existsb told_assoc (o_given o)) || existsb told_gone (o_given o) || user_ended (pc_ops c)).

(* C13, peer silent: after the ARTIM period the provider is at rest unless it is waiting for its own
   local user (Sta3, Sta4..Sta12 are not bounded by the peer: the standard arms no timer there) *)
Definition silence_ok (c : pcase) : bool :=
  let o := pc_obs c in
  (o_outcome o =? 0)
  && (let '(s, k, t, _, _, _) := last_snap (o_snaps o) in
      ((s =? 1) && negb k && negb t) || in_st [3; 4; 5; 6; 7; 8; 9; 10; 11; 12] s).
