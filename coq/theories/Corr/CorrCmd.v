(* Corr/CorrCmd.v — obligations on command sets the real library transmits (C08). *)
From PND Require Import Lib.Base Lib.Text Model.CmdSet Model.CmdMsg Spec.Ps37Command.

Record ccase := mkcc {
  cc_kind : msgkind;                     (* which PS3.7 message the class is *)
  cc_others : list N;                    (* element numbers of the class's command_fields *)
  cc_ops : list mop;
  cc_sends : list (bytes * bool);        (* per send: command set bytes transmitted, data fragments followed *)
}.

Fixpoint beq_sends (a b : list (bytes * bool)) : bool :=
  match a, b with
  | [], [] => true
  | (x, p) :: a', (y, q) :: b' => beq_bytes x y && Bool.eqb p q && beq_sends a' b'
  | _, _ => false
  end.

Definition cmd_corr (c : ccase) : bool :=
  beq_sends (run_msg (new_msg (code_of (cc_kind c)) (cc_others c)) (cc_ops c)) (cc_sends c).

(* the property's oracle on the transmitted bytes *)
Fixpoint tags_ascending (l : list elem) : bool :=
  match l with
  | (g1, e1, _) :: (((g2, e2, _) :: _) as r) =>
      ((g1 <? g2) || ((g1 =? g2) && (e1 <? e2))) && tags_ascending r
  | _ => true
  end.

Definition send_spec (k : msgkind) (s : bytes * bool) : bool :=
  let (cmd, has_data) := s in
  match parse_cmd cmd with
  | Ok elems =>
      tags_ascending elems
      && forallb (fun x => N.even (lenN (snd x))) elems                    (* even value lengths *)
      && match elems with
         | (0, 0, [a; b; c; d]) :: _ => un32le a b c d + 12 =? lenN cmd      (* group length = bytes that follow *)
         | _ => false
         end
      && match us_value 0 256 elems with Ok cf => cf =? code_of k | Err _ => false end
      && match us_value 0 2048 elems with Ok dst => Bool.eqb (dst =? NO_DATASET) (negb has_data) | Err _ => false end
  | Err _ => false
  end.

Definition cmd_spec (c : ccase) : bool := forallb (send_spec (cc_kind c)) (cc_sends c).
