(* Corr/CorrPdu.v — obligations on observations of the real pdu.py / userdataitems.py. *)
From PND Require Import Lib.Base Lib.Text Model.Pdu Model.PduWf.

(* a structured PDU value built by the generator, and what the implementation did with it *)
Record rt_case := mkrt {
  rt_p : pdu;
  rt_enc : option bytes;            (* encode(): bytes, or None when it raised struct.error *)
  rt_total : N;                     (* total_length() *)
  rt_dec : result pdu;              (* type.decode(encode()) *)
  rt_reenc : option bytes;          (* decode(...).encode() *)
}.

Definition beq_obytes (a b : option bytes) : bool :=
  match a, b with
  | Some x, Some y => beq_bytes x y
  | None, None => true
  | _, _ => false
  end.

(* correspondence: model = implementation, step by step *)
Definition rt_corr (c : rt_case) : bool :=
  let p := rt_p c in
  match rt_enc c with
  | None => negb (packable p)
  | Some b =>
      packable p && beq_bytes (encode p) b && (total_length p =? rt_total c)
      && beq_result beq_pdu (decode_as (type_of p) b) (rt_dec c)
  end.

(* the property's oracle on the implementation's observation (C01): wf values survive the round trip
   field for field and re-encode to the same bytes; total_length() = number of bytes emitted (C02) *)
Definition rt_spec (c : rt_case) : bool :=
  let p := rt_p c in
  if wf_pdu p then
    match rt_enc c with
    | Some b => beq_result beq_pdu (rt_dec c) (Ok p) && beq_obytes (rt_reenc c) (Some b)
                && (rt_total c =? lenN b)
    | None => false
    end
  else true.

Definition rt_wf (c : rt_case) : bool := wf_pdu (rt_p c).

(* a byte string fed to <type>.decode and what came back *)
Record dec_case := mkdec { dc_type : N; dc_bytes : bytes; dc_obs : result pdu }.
Definition dec_corr (c : dec_case) : bool :=
  beq_result beq_pdu (decode_as (dc_type c) (dc_bytes c)) (dc_obs c).

(* C02: the implementation's bytes are the independent layout; the strict length-driven parser
   reads them back to exactly the encoded value; total_length() = bytes emitted *)
From PND Require Import Spec.Ps38Layout.
Definition rt_layout (c : rt_case) : bool :=
  let p := rt_p c in
  if wf_pdu p && fixed_lens p then
    match rt_enc c with
    | Some b => beq_bytes b (layout p)
                && match parse b with Some q => beq_pdu q p | None => false end
                && (rt_total c =? lenN b)
                && beq_result beq_pdu (rt_dec c) (Ok p)
    | None => false
    end
  else true.
Definition rt_wf2 (c : rt_case) : bool := wf_pdu (rt_p c) && fixed_lens (rt_p c).
