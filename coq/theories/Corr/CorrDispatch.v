(* Corr/CorrDispatch.v — obligations on observations of AssociationAcceptor._loop (C17: every response leaves on the
   context its request arrived on). *)
From PND Require Import Lib.Base Lib.Text Model.Negotiation Model.Dispatch.

Record dcase := mkdc {
  dc_served : list bytes;               (* classes the entity has a service for *)
  dc_table : list entry;                (* sop_classes_as_scp after the real accept(), in insertion order *)
  dc_arrivals : list (N * bytes);       (* (context id, SOP class uid of the message) in order of arrival *)
  dc_handed : list (option entry);      (* the context the real _loop() handed to the service (None: not served) *)
  dc_answered : list N }.               (* the context id of every response, in order *)

Definition beq_entry (a b : entry) : bool :=
  (fst (fst a) =? fst (fst b)) && beq_bytes (snd (fst a)) (snd (fst b)) && beq_bytes (snd a) (snd b).

Definition beq_oentry (a b : option entry) : bool :=
  match a, b with
  | Some x, Some y => beq_entry x y
  | None, None => true
  | _, _ => false
  end.

Fixpoint all2 {A B} (f : A -> B -> bool) (a : list A) (b : list B) : bool :=
  match a, b with
  | [], [] => true
  | x :: a', y :: b' => f x y && all2 f a' b'
  | _, _ => false
  end.

(* model = implementation *)
Definition disp_corr (c : dcase) : bool :=
  all2 (fun arr got => beq_oentry (dispatch (dc_served c) (dc_table c) (fst arr) (snd arr)) got)
       (dc_arrivals c) (dc_handed c).

(* the clause on the observation alone: a served request was served on the context it arrived on, with what was
   accepted for that context, and (one response per request in these cases) answered on it *)
Definition disp_spec (c : dcase) : bool :=
  all2 (fun arr got => match got with
                       | Some (i, sop, ts) => (i =? fst arr) && existsb (beq_entry (i, sop, ts)) (dc_table c)
                       | None => true
                       end) (dc_arrivals c) (dc_handed c)
  && all2 (fun arr_got pc => match snd arr_got with Some _ => pc =? fst (fst arr_got) | None => false end)
          (filter (fun ag => match snd ag with Some _ => true | None => false end) (combine (dc_arrivals c) (dc_handed c)))
          (dc_answered c).
