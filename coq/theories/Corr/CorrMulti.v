(* Corr/CorrMulti.v — obligations on observations of concurrent associations over loopback (C20). *)
From Coq Require Import Sorting.Mergesort Orders.
From PND Require Import Lib.Base Lib.Text.

Fixpoint beq_lb (a b : list bytes) : bool :=
  match a, b with
  | [], [] => true
  | x :: a', y :: b' => beq_bytes x y && beq_lb a' b'
  | _, _ => false
  end.

(* no value twice: sort (stdlib merge sort), then no two neighbours equal - n log n, for runs of 70000 ids *)
Module NLe <: Orders.TotalLeBool.
  Definition t := N.
  Definition leb := N.leb.
  Theorem leb_total : forall a b, leb a b = true \/ leb b a = true.
  Proof.
    intros a b. unfold leb. destruct (N.leb_spec a b); [left; reflexivity|right].
    apply N.leb_le. apply N.lt_le_incl. assumption.
  Qed.
End NLe.
Module NSort := Mergesort.Sort NLe.
Fixpoint adjacent_distinct (l : list N) : bool :=
  match l with
  | x :: ((y :: _) as r) => negb (x =? y) && adjacent_distinct r
  | _ => true
  end.
Definition nodup_n (l : list N) : bool := adjacent_distinct (NSort.sort l).

Inductive c20case :=
| LoopClient (expected got server_expected server_stored : list bytes) (error : bool)
| MsgIds (ids : list N).

(* every client got exactly its own answers, in order (a prefix when it aborted on purpose: the harness
   then truncates `expected`), the server stored exactly its instances under its patient id, no error *)
Definition c20_spec (c : c20case) : bool :=
  match c with
  | LoopClient e g se ss err => negb err && beq_lb e g && beq_lb se ss
  | MsgIds ids => nodup_n ids && negb (match ids with [] => true | _ => false end)
  end.
