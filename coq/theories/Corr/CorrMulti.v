(* Corr/CorrMulti.v — obligations on observations of concurrent associations over loopback (C20). *)
From PND Require Import Lib.Base Lib.Text.

Fixpoint beq_lb (a b : list bytes) : bool :=
  match a, b with
  | [], [] => true
  | x :: a', y :: b' => beq_bytes x y && beq_lb a' b'
  | _, _ => false
  end.

Fixpoint nodup_n (l : list N) : bool :=
  match l with [] => true | x :: r => negb (existsb (N.eqb x) r) && nodup_n r end.

Inductive c20case :=
| LoopClient (expected got server_expected server_stored : list bytes) (error : bool)
| MsgIds (ids : list N).

(* every client got exactly its own answers, in order (a prefix when it aborted on purpose: the harness
   then truncates `expected`), the server stored exactly its instances under its patient id, no error *)
Definition c20_spec (c : c20case) : bool :=
  match c with
  | LoopClient e g se ss err => negb err && beq_lb e g && beq_lb se ss
  | MsgIds ids => nodup_n ids && negb (match ids with [] => true | _ => false end)
  end.
