(* Corr/CorrProviderW.v — observations of the real provider loop on a transport that refuses writes
   once the peer has reset / closed the connection (harness/world.py with fail_sends), against
   Model.ProviderW.  Used by C12 and C13 for the reset scenarios. *)
From PND Require Import Lib.Base Lib.Text Model.Pdu Model.PduWf Model.CmdSet Model.Decoder
  Spec.Ps38Table Model.Fsm Model.Provider Model.Stream Model.ProviderW Corr.CorrProvider.

Fixpoint run_snapsw (strict : bool) (env : denv) (s : pstate) (ops : list wop) : pstate * list snap :=
  match ops with
  | [] => (s, [])
  | o :: r =>
    match c_out (ctl s) with
    | Running =>
        let s' := iterw strict env s o in
        let (sf, l) := run_snapsw strict env s' r in (sf, snap_of s' :: l)
    | _ => (s, [])
    end
  end.

Definition model_obsw (strict : bool) (env : denv) (requestor : bool) (maxlen : N) (ops : list wop) : obs :=
  let (sf, snaps) := run_snapsw strict env (p_init requestor maxlen) ops in
  mkobs (match c_out (ctl sf) with Crashed => 1 | _ => 0 end) (rev (wire sf)) (map canon_ind (rev (given sf))) snaps
        (run_framesw strict env (p_init requestor maxlen) ops).

Record wcase := mkwc {
  wc_env : denv; wc_req : bool; wc_max : N; wc_strict : bool; wc_ops : list wop;
  wc_obs : obs;                    (* what the real provider did *)
}.

Definition prov_corr_w (c : wcase) : bool :=
  beq_obs (model_obsw (wc_strict c) (wc_env c) (wc_req c) (wc_max c) (wc_ops c)) (wc_obs c).

(* the properties' oracles of CorrProvider on the same observation *)
Definition plain_of (w : wop) : op := match w with Plain o => o | SegReset b => Seg b end.
Definition as_pcase (c : wcase) : pcase :=
  mkpc (wc_env c) (wc_req c) (wc_max c) (map plain_of (wc_ops c)) (wc_obs c) (wc_obs c).
Definition ends_at_rest_w (c : wcase) : bool := ends_at_rest (as_pcase c).
Definition c05_spec_w (c : wcase) : bool := c05_spec (as_pcase c).

(* C03 on this transport: the same stream delivered in two ways (e.g. whole, ending exactly on a read
   boundary with the peer's reset right behind it, and one PDU per segment followed by the reset) gives
   the same result *)
Record wpair := mkwp { wp_a : wcase; wp_b : wcase }.
Definition c03_spec_w (p : wpair) : bool :=
  beq_result_obs (wc_obs (wp_a p)) (wc_obs (wp_b p)) && (o_outcome (wc_obs (wp_a p)) =? 0).
Definition prov_corr_w2 (p : wpair) : bool := prov_corr_w (wp_a p) && prov_corr_w (wp_b p).
