(* Corr/CorrC06.v — obligations evaluated on observations of the real
   DIMSEMessage.encode / Association.send (harness/check_C06.py). *)
From PND Require Import Lib.Base Model.Dimse.

(* slice of a source byte string, used to write observed payloads compactly *)
Definition sl (src : bytes) (off len : N) : bytes := take len (drop off src).

Record case := mk {
  c_cmd : bytes;                       (* encoded command set (from the implementation) *)
  c_data : bytes;                      (* data set bytes; [] = none *)
  c_pc : N; c_m : N;
  c_obs : list (N * N * bytes);        (* observed fragments: (context id, control byte, payload) *)
  c_one_pdv : bool;                    (* every observed PDU had exactly one PDV and len(encode()) = payload+12 *)
  c_refused : bool;                    (* Association.send raised in the caller's thread, before anything was handed over *)
}.

Definition triple_of (f : frag) : N * N * bytes := (f_ctx f, f_ctl f, f_payload f).

Fixpoint beq_triples (a b : list (N * N * bytes)) : bool :=
  match a, b with
  | [], [] => true
  | (x1, y1, z1) :: a', (x2, y2, z2) :: b' =>
      (x1 =? x2) && (y1 =? y2) && beq_bytes z1 z2 && beq_triples a' b'
  | _, _ => false
  end.

(* correspondence: the model computes exactly the observed fragments *)
Definition check_corr (c : case) : bool :=
  match dimse_encode (c_cmd c) (c_data c) (c_pc c) (c_m c) with
  | Ok fs => beq_triples (map triple_of fs) (c_obs c) && c_one_pdv c && negb (c_refused c)
  | Err _ => c_refused c && is_nil (c_obs c)
  end.

(* the property's own oracle, evaluated on the observation alone *)
Definition is_cmd_ctl (x : N) : bool := (x =? 1) || (x =? 3).
Definition is_data_ctl (x : N) : bool := (x =? 0) || (x =? 2).
Definition ctl3 (t : N * N * bytes) : N := snd (fst t).
Definition ctx3 (t : N * N * bytes) : N := fst (fst t).

Fixpoint span_cmd (l : list (N * N * bytes)) : list (N * N * bytes) * list (N * N * bytes) :=
  match l with
  | t :: r => if is_cmd_ctl (ctl3 t) then let (a, b) := span_cmd r in (t :: a, b) else ([], l)
  | [] => ([], [])
  end.

Fixpoint obs_flags_ok (normal last : N) (l : list (N * N * bytes)) : bool :=
  match l with
  | [] => false
  | [t] => ctl3 t =? last
  | t :: r => (ctl3 t =? normal) && obs_flags_ok normal last r
  end.

Definition check_spec (c : case) : bool :=
  let obs := c_obs c in
  let (cs, ds) := span_cmd obs in
  (* within a maximum that cannot carry a single fragment (1..6) nothing can be sent: the caller must be
     told, the message must not vanish silently and nothing may reach the provider *)
  if unusable_max (c_m c) then c_refused c && is_nil obs else
  negb (c_refused c) && c_one_pdv c
  && forallb (fun t => (lenN (snd t) + 6 <=? eff_max (c_m c)) && (ctx3 t =? c_pc c) && negb (is_nil (snd t))) obs
  && forallb (fun t => is_data_ctl (ctl3 t)) ds
  && obs_flags_ok 1 3 cs
  && (if is_nil (c_data c) then is_nil ds else obs_flags_ok 0 2 ds)
  && beq_bytes (concat (map snd cs)) (c_cmd c)
  && beq_bytes (concat (map snd ds)) (c_data c).
