(* Corr/CorrAssoc.v — obligations on observations of the association layer (C14). *)
From PND Require Import Lib.Base Model.Pdu Model.PduWf Model.Assoc.

Definition beq_err (a b : lib_error) : bool :=
  match a, b with
  | ERejected r s d, ERejected r' s' d' => (r =? r') && (s =? s') && (d =? d')
  | EReleased, EReleased | ETimeout, ETimeout | ENetDicom, ENetDicom => true
  | EAborted s r, EAborted s' r' => (s =? s') && (r =? r')
  | _, _ => false
  end.
Definition beq_ending (a b : ending) : bool :=
  match a, b with DoRelease, DoRelease | DoAbort, DoAbort | DoKill, DoKill => true | _, _ => false end.

Inductive c14case :=
| ErrCase (indicated : pdu) (raised : lib_error)           (* a PDU indication surfacing as a library error *)
| RefuseCase (d : app_decision) (sent : option pdu) (services_run : bool)
| ExitCase (established body_raised : bool) (observed : ending)
| EndToEnd (given : lib_error) (seen : lib_error) (services_run : bool).   (* over real loopback TCP *)

Definition c14_corr (c : c14case) : bool :=
  match c with
  | ErrCase p e => beq_err (get_dul_message_pdu p) e
  | RefuseCase d sent run =>
      let (m, ok) := acceptor_establish d in
      match m, sent with
      | Some x, Some y => beq_pdu x y
      | None, None => true
      | None, Some (Assoc _ _ _ _ _ _ _ _) => true          (* accept(): the A-ASSOCIATE-AC (C09) *)
      | _, _ => false
      end && Bool.eqb ok run
  | ExitCase est raised obs => beq_ending (exit_action est raised) obs
  | EndToEnd _ _ _ => true
  end.

(* the property's oracle *)
Definition c14_spec (c : c14case) : bool :=
  match c with
  | ErrCase p e =>
      match p, e with
      | AssocRj _ _ r s d, ERejected r' s' d' => (r =? r') && (s =? s') && (d =? d')
      | Abort _ _ _ s r, EAborted s' r' => (s =? s') && (r =? r')
      | RelRq _ _, EReleased => true
      | AssocRj _ _ _ _ _, _ | Abort _ _ _ _ _, _ | RelRq _ _, _ => false
      | _, _ => true
      end
  | RefuseCase (AppReject r s d) (Some (AssocRj _ _ r' s' d')) run =>
      (r =? r') && (s =? s') && (d =? d') && negb run
  | RefuseCase (AppReject _ _ _) _ _ => false
  | RefuseCase AppAccept _ _ => true
  | ExitCase true false obs => beq_ending obs DoRelease
  | ExitCase true true obs => beq_ending obs DoAbort
  | ExitCase false _ obs => beq_ending obs DoKill
  | EndToEnd given seen run =>
      beq_err given seen && match given with ERejected _ _ _ => negb run | _ => true end
  end.
