(* Property C01 — PDU encode/decode round trip for every PDU, item and sub-item.
   wf_pdu is the formal reading of "can be built from the public classes with in-range values in a
   legal order": every integer within its field width, AE titles <= 16 ASCII bytes without
   leading/trailing NUL, UIDs / names ASCII without surrounding white space, user-identity fields
   valid UTF-8, an unknown (generic) sub-item type that is non-zero and not one of the eight known
   types, every length within its field, User Information only as the last item (PS3.8 9.3.1);
   sub-items in ANY order and number, any number of presentation contexts, transfer syntaxes and
   PDVs, payloads of any length that fits the 32-bit PDU length. *)
From PND Require Import Lib.Base Model.Pdu Model.PduWf Proofs.PduProofs.

Theorem C01_roundtrip : forall p : pdu, wf_pdu p = true ->
  decode_as (type_of p) (encode p) = Ok p.
Proof. exact decode_encode. Qed.
Print Assumptions C01_roundtrip.

(* re-encoding the decoded PDU reproduces the original bytes exactly *)
Theorem C01_reencode : forall (p : pdu) (b : bytes), wf_pdu p = true -> encode p = b ->
  exists q, decode_as (type_of p) b = Ok q /\ encode q = b.
Proof.
  intros p b Hwf <-. exists p. split; [exact (decode_encode p Hwf)|reflexivity].
Qed.
Print Assumptions C01_reencode.

(* in-range values can always be encoded (struct.pack does not raise) *)
Theorem C01_wf_packable : forall p : pdu, wf_pdu p = true -> packable p = true.
Proof. intros p H. unfold wf_pdu in H. apply andb_prop in H. exact (proj1 H). Qed.
Print Assumptions C01_wf_packable.

(* non-vacuity: a request carrying all nine sub-item kinds, two presentation contexts and odd values *)
Example C01_example_wf :
  wf_pdu (Assoc KRq 0 1 0 [65; 69] [66] [0;0;0;0;0;0;0;0]
    [ AppCtx 0 [49; 46; 50];
      PcRq 1 0 0 0 0 {| sy_reserved := 0; sy_name := [49; 46; 50] |}
           [{| sy_reserved := 0; sy_name := [49] |}; {| sy_reserved := 7; sy_name := [] |}];
      PcAc 3 0 0 4 0 {| sy_reserved := 0; sy_name := [] |};
      UserInfo 0 [ ExtNeg 0 [49; 46; 51] [1; 2; 3]; MaxLen 0 4 16384; Generic 87 0 [9];
                   UserId 0 2 1 [195; 169] [120]; UserIdAc 0 [226; 130; 172]; RoleSel 0 [49] 1 0;
                   AsyncOps 0 4 1 1; ImplVersion 0 [86; 49]; ImplClass 0 [49; 46; 50; 46; 51] ] ])
  = true.
Proof. vm_compute. reflexivity. Qed.
