(* Property C19 — retrieve performs each sub-operation exactly once and reports true progress. *)
From PND Require Import Lib.Base Model.Services Proofs.ServicesProofs.

(* C-GET user: for ANY interleaving of pending C-GET responses and C-STORE requests ended by a final
   C-GET response (whatever follows it), every C-STORE request is answered exactly once, in order
   (each answer correlating with its request: C17_get_user_store_response), and every instance the
   handler accepted is handed to the caller once, in order *)
Theorem C19_get_user : forall (msgs : list incoming) (final : N) (rest : list incoming),
  all_pending_get msgs -> get_pending final = false ->
  get_scu (msgs ++ GetRsp final :: rest)
  = (map (fun p => get_scu_store_rsp (fst p) (snd p)) (stores_of msgs),
     map fst (filter (fun p => match snd p with HStatus _ => true | HError => false end) (stores_of msgs))).
Proof. exact get_scu_spec. Qed.
Print Assumptions C19_get_user.

(* C-MOVE provider: for ANY list of sub-operation outcomes the responses are |subs| pending ones, the
   k-th reporting k performed and nop - k remaining, followed by exactly one final response with the
   totals (also when the list is empty) *)
Theorem C19_move_provider : forall q nop subs done failed warned,
  exists pend final,
    move_loop q nop subs done failed warned = pend ++ [final]
    /\ length pend = length subs
    /\ (forall k r, nth_error pend k = Some r ->
          o_status r = Some PENDING /\ o_comp r = Some (done + N.of_nat (S k))
          /\ o_rem r = Some (nop - (done + N.of_nat (S k))))
    /\ o_status final = Some 0 /\ o_comp final = Some (done + lenN subs)
    /\ o_rem final = Some (nop - (done + lenN subs))
    /\ o_fail final = Some (failed + count is_fail subs) /\ o_warn final = Some (warned + count is_warn subs).
Proof. exact move_loop_spec. Qed.
Print Assumptions C19_move_provider.

(* nothing to move: exactly one (final) response *)
Theorem C19_nothing_to_move : forall q subs, move_scp q 0 subs = [move_rsp q 0 0 0 0 0].
Proof. reflexivity. Qed.
Print Assumptions C19_nothing_to_move.
