(* Property C12 — no byte sequence from the peer can crash or hang the provider.
   In the control model the peer's bytes appear as the network part of the input, which is
   unconstrained by legal_input: any decodable PDU of any kind in any state (NPdu), an unrecognised or
   undecodable PDU (NBad), P-DATA that cannot be reassembled (DError), nothing, close, reset.
   Model.Pdu.decode_as and Model.Decoder.process are total functions (every byte string yields a value
   or an error kind), `classify` maps every frame to NPdu or NBad, and the correspondence on
   malformed streams (C01 dec_corr, C12 prov_corr) checks that the real code raises where the model
   says Err.  Hanging: the model has no blocking operation; the correspondence world reports a
   blocking read of the implementation as outcome `blocked`. *)
From PND Require Import Lib.Base Model.Pdu Model.PduWf Spec.Ps38Table Model.Fsm Model.Provider
  Proofs.FsmProofs Proofs.FsmSpecProofs Proofs.FsmProofs2 Proofs.ProviderProofs Proofs.ProviderTheorems.

(* the loop never dies from an unhandled error, whatever the peer sends, in every history *)
Theorem C12_never_crashes : forall (r : bool) (is : list input), forallb legal_input is = true ->
  inv_state (run (init r) is) = true.
Proof. exact history_inv. Qed.
Print Assumptions C12_never_crashes.

(* every frame is classified: decoding is total *)
Theorem C12_decode_total : forall f : bytes,
  (exists k p, classify f = (NPdu k, Some p) /\ legal_kind k = true) \/ classify f = (NBad, None).
Proof. exact classify_total. Qed.
Print Assumptions C12_decode_total.

(* an unrecognised / undecodable PDU is answered with an A-ABORT (and a provider-abort indication
   where an association had been indicated or requested); the provider goes to Sta13 with ARTIM *)
Theorem C12_bad_pdu_aborted : forall (r : bool) (is : list input) (i : input),
  forallb legal_input is = true -> legal_input i = true -> bad_pdu_aborted (run (init r) is) i = true.
Proof. exact history_bad_pdu. Qed.
Print Assumptions C12_bad_pdu_aborted.

Theorem C12_bad_pdata_aborted : forall (r : bool) (is : list input) (i : input),
  forallb legal_input is = true -> legal_input i = true -> bad_data_aborted (run (init r) is) i = true.
Proof. exact history_bad_data. Qed.
Print Assumptions C12_bad_pdata_aborted.

(* a user that had been told of the association is told when anything but its own primitive ends it *)
Theorem C12_user_told : forall (r : bool) (is : list input) (i : input),
  forallb legal_input is = true -> legal_input i = true -> told_when_gone (run (init r) is) i = true.
Proof. exact history_told. Qed.
Print Assumptions C12_user_told.

(* the peer closing brings the provider to rest (Sta1, transport closed, ARTIM off) in <= 2 iterations *)
Theorem C12_closed_after_peer_close : forall (r : bool) (is : list input),
  forallb legal_input is = true -> after_eof (run (init r) is) = true.
Proof. exact history_eof. Qed.
Print Assumptions C12_closed_after_peer_close.

(* whatever the provider itself builds and transmits is a well-formed PDU (round-trips by C01) *)
Theorem C12_own_pdus_wellformed : forall k : kind, wf_pdu (fresh_pdu k) = true.
Proof. exact fresh_wf. Qed.
Print Assumptions C12_own_pdus_wellformed.

(* and the same for the concrete model compared with the implementation *)
Theorem C12_concrete : forall env requestor maxlen (ops : list op), forallb legal_op ops = true ->
  inv_state (ctl (run_script env requestor maxlen ops)) = true
  /\ after_eof (ctl (run_script env requestor maxlen ops)) = true.
Proof. intros. split; [apply script_inv|apply script_eof]; assumption. Qed.
Print Assumptions C12_concrete.

(* ---- the peer resets the connection while the provider still has something to write ------------
   (its A-ABORT in answer to the very bytes that were invalid): the kernel refuses the write.  Over
   Model.ProviderW / Model.Fsm.cstepw — every script, whether and whenever writes are refused: the loop
   never dies (first conjunct of inv_statew), and a refused write is followed, in the next iteration,
   by rest with the local user told (after_failed_write). *)
From PND Require Import Model.ProviderW Proofs.FsmWProofs Proofs.ProviderWProofs.

Theorem C12_survives_refused_writes : forall strict env requestor maxlen (ops : list wop),
  forallb legal_wop ops = true ->
  inv_statew (ctl (run_scriptw strict env requestor maxlen ops)) = true
  /\ after_failed_write (ctl (run_scriptw strict env requestor maxlen ops)) = true.
Proof. intros strict env requestor maxlen ops H. destruct (scriptw_inv strict env requestor maxlen ops H) as [A [B _]]. split; assumption. Qed.
Print Assumptions C12_survives_refused_writes.
