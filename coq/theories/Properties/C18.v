(* Property C18 — status codes are classified totally and consistently.
   The table `t` is the complete behaviour of statuses.Status regenerated from /repo on
   every run; the per-run obligation is `check_table 65536 cmds t = true` (vm_compute over all
   65536 codes x 24 classes).  This theorem lifts it to the universally quantified claim. *)
From PND Require Import Lib.Base Spec.StatusSpec Model.Status Proofs.StatusProofs.

Theorem C18_classification :
  forall (bound : N) (cmds : list (option N)) (t : table), check_table bound cmds t = true ->
  forall cmd code, In cmd cmds -> code < bound ->
    exists k, lookup t cmd code = Some (sig_of k)
      /\ k = spec_class cmd code
      /\ count_true (flags_of_sig (sig_of k)) = 1%nat     (* exactly one is_* flag *)
      /\ N.testbit (sig_of k) 5 = true.                    (* int(Status c) = c *)
Proof.
  intros bound cmds t H cmd code Hin Hlt. exists (spec_class cmd code).
  split; [exact (check_table_sound bound cmds t H cmd code Hin Hlt)|].
  split; [reflexivity|]. split; [apply sig_exactly_one | apply sig_int_roundtrip].
Qed.
Print Assumptions C18_classification.

Theorem C18_spec_anchors :
  (forall cmd, spec_class cmd 0 = Success)
  /\ (spec_class (Some C_FIND_RSP) 65280 = Pending /\ spec_class (Some C_FIND_RSP) 65281 = Pending /\
      spec_class (Some C_GET_RSP) 65280 = Pending /\ spec_class (Some C_MOVE_RSP) 65280 = Pending)
  /\ (forall code, code <> 0 -> spec_class None code = Failure).
Proof. exact (conj spec_zero_success (conj spec_pending spec_unknown_failure)). Qed.
Print Assumptions C18_spec_anchors.
