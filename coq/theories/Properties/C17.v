(* Property C17 — every SCP response correlates with its request.
   Model.Services gives, for every service provider of sopclass.py, the responses it hands to
   Association.send as a function of the request (any message id, any SOP class / instance UID, any
   context id) and of the application handler's outcome (any status, or EventHandlingError).
   `correlates`: sent on the request's context, Message ID Being Responded To = Message ID, same SOP
   class, response type = request type + 8000H; `same_instance`: SOP instance repeated. *)
From PND Require Import Lib.Base Model.Services Proofs.ServicesProofs Spec.Ps37Command.

Theorem C17_echo : forall q o, q_cf q = 48 ->
  exists r, echo_scp q o = [r] /\ correlates q r /\ o_status r = Some (status_of o PROCESSING_FAILURE).
Proof. exact echo_correlates. Qed.
Print Assumptions C17_echo.

Theorem C17_store : forall q o, q_cf q = 1 ->
  exists r, store_scp q o = [r] /\ correlates q r /\ same_instance q r
            /\ o_status r = Some (status_of o CANNOT_UNDERSTAND).
Proof. exact store_correlates. Qed.
Print Assumptions C17_store.

Theorem C17_get_user_store_response : forall q o, q_cf q = 1 ->
  correlates q (get_scu_store_rsp q o) /\ same_instance q (get_scu_store_rsp q o)
  /\ o_status (get_scu_store_rsp q o) = Some (status_of o UNABLE_TO_PROCESS).
Proof. exact get_store_rsp_correlates. Qed.
Print Assumptions C17_get_user_store_response.

Theorem C17_find : forall q matches, q_cf q = 32 -> Forall (correlates q) (find_scp q matches).
Proof. exact find_scp_correlates. Qed.
Print Assumptions C17_find.

Theorem C17_n_action : forall q o, q_cf q = 304 ->
  exists r, n_action_scp q o = [r] /\ correlates q r
            /\ o_status r = Some (match o with HStatus _ => 0 | HError => PROCESSING_FAILURE end).
Proof. exact n_action_correlates. Qed.
Print Assumptions C17_n_action.

Theorem C17_n_event_report : forall q o, q_cf q = 256 ->
  exists r, n_event_report_scp q o = [r] /\ correlates q r /\ same_instance q r
            /\ o_status r = Some (match o with HStatus _ => 0 | HError => PROCESSING_FAILURE end).
Proof. exact n_event_report_correlates. Qed.
Print Assumptions C17_n_event_report.

Theorem C17_move : forall q nop subs, q_cf q = 33 -> Forall (correlates q) (move_scp q nop subs).
Proof. exact move_scp_correlates. Qed.
Print Assumptions C17_move.

(* every request that reaches a provider is answered: the responses end with exactly one final
   (non-pending) response; everything before it is pending (for C-ECHO / C-STORE: provided the status the
   application returns is itself a final one) *)
Theorem C17_every_request_answered : forall q,
  (forall o, (forall c, o = HStatus c -> final_code c) -> answered (echo_scp q o))
  /\ (forall o, (forall c, o = HStatus c -> final_code c) -> answered (store_scp q o))
  /\ (forall o, answered (n_action_scp q o)) /\ (forall o, answered (n_event_report_scp q o))
  /\ (forall matches, Forall (fun m => find_pending (snd m) = true) matches -> answered (find_scp q matches))
  /\ (forall nop subs, answered (move_scp q nop subs)).
Proof. exact all_answered_for. Qed.
Print Assumptions C17_every_request_answered.

(* ---- the context a request is served on (AssociationAcceptor._loop, Model/Dispatch.v): the context handed to the
   service - on which every provider sends its responses (C17_echo ... C17_move) - is the one the message arrived on *)
From PND Require Import Model.Negotiation Model.Dispatch Proofs.DispatchProofs.

Theorem C17_served_on_arrival_context : forall served t pc uid i sop ts,
  dispatch served t pc uid = Some (i, sop, ts) -> i = pc /\ In (pc, sop, ts) t /\ mem_b uid served = true.
Proof. exact dispatch_on_arrival. Qed.
Print Assumptions C17_served_on_arrival_context.

Theorem C17_served_iff : forall served t pc uid,
  (exists e, dispatch served t pc uid = Some e) <-> (In pc (map e_id t) /\ mem_b uid served = true).
Proof. exact dispatch_iff. Qed.
Print Assumptions C17_served_iff.

(* the same abstract syntax accepted on several contexts (one per transfer syntax): the service gets what was accepted
   for the context of arrival *)
Theorem C17_same_class_on_several_contexts : forall served t pc uid sop ts sop' ts',
  NoDup (map e_id t) -> In (pc, sop', ts') t -> dispatch served t pc uid = Some (pc, sop, ts) -> sop = sop' /\ ts = ts'.
Proof. exact dispatch_unique. Qed.
Print Assumptions C17_same_class_on_several_contexts.

(* composed with C09: a request is served only on a context the acceptor reported as accepted, for the abstract syntax
   proposed on it and with the transfer syntax answered *)
Theorem C17_served_context_was_accepted : forall cfg ps served pc uid i sop ts,
  dispatch served (served_table ps (answers cfg ps)) pc uid = Some (i, sop, ts) ->
  i = pc /\ exists p, In p ps /\ p_id p = pc /\ p_abs p = sop /\ an_result (answer_one cfg p) = 0
                      /\ an_ts (answer_one cfg p) = ts.
Proof. exact served_request_was_accepted. Qed.
Print Assumptions C17_served_context_was_accepted.

(* class "1" accepted on contexts 1 and 5 with different transfer syntaxes: each request is served on its own context *)
Example C17_dispatch_example :
  let t := [(1, [49], [65]); (3, [50], [66]); (5, [49], [67])] in
  dispatch [[49]; [50]] t 1 [49] = Some (1, [49], [65]) /\ dispatch [[49]; [50]] t 5 [49] = Some (5, [49], [67])
  /\ dispatch [[49]; [50]] t 7 [49] = None /\ dispatch [[49]] t 3 [50] = None.
Proof. exact dispatch_example. Qed.
