(* Property C17 — every SCP response correlates with its request.
   Model.Services gives, for every service provider of sopclass.py, the responses it hands to
   Association.send as a function of the request (any message id, any SOP class / instance UID, any
   context id) and of the application handler's outcome (any status, or EventHandlingError).
   `correlates`: sent on the request's context, Message ID Being Responded To = Message ID, same SOP
   class, response type = request type + 8000H; `same_instance`: SOP instance repeated. *)
From PND Require Import Lib.Base Model.Services Proofs.ServicesProofs Spec.Ps37Command.

Theorem C17_echo : forall q o, q_cf q = 48 ->
  exists r, echo_scp q o = [r] /\ correlates q r /\ o_status r = Some (status_of o PROCESSING_FAILURE).
Proof. exact echo_correlates. Qed.
Print Assumptions C17_echo.

Theorem C17_store : forall q o, q_cf q = 1 ->
  exists r, store_scp q o = [r] /\ correlates q r /\ same_instance q r
            /\ o_status r = Some (status_of o CANNOT_UNDERSTAND).
Proof. exact store_correlates. Qed.
Print Assumptions C17_store.

Theorem C17_get_user_store_response : forall q o, q_cf q = 1 ->
  correlates q (get_scu_store_rsp q o) /\ same_instance q (get_scu_store_rsp q o)
  /\ o_status (get_scu_store_rsp q o) = Some (status_of o UNABLE_TO_PROCESS).
Proof. exact get_store_rsp_correlates. Qed.
Print Assumptions C17_get_user_store_response.

Theorem C17_find : forall q matches, q_cf q = 32 -> Forall (correlates q) (find_scp q matches).
Proof. exact find_scp_correlates. Qed.
Print Assumptions C17_find.

Theorem C17_n_action : forall q o, q_cf q = 304 ->
  exists r, n_action_scp q o = [r] /\ correlates q r
            /\ o_status r = Some (match o with HStatus _ => 0 | HError => PROCESSING_FAILURE end).
Proof. exact n_action_correlates. Qed.
Print Assumptions C17_n_action.

Theorem C17_n_event_report : forall q o, q_cf q = 256 ->
  exists r, n_event_report_scp q o = [r] /\ correlates q r /\ same_instance q r
            /\ o_status r = Some (match o with HStatus _ => 0 | HError => PROCESSING_FAILURE end).
Proof. exact n_event_report_correlates. Qed.
Print Assumptions C17_n_event_report.

Theorem C17_move : forall q nop subs, q_cf q = 33 -> Forall (correlates q) (move_scp q nop subs).
Proof. exact move_scp_correlates. Qed.
Print Assumptions C17_move.

(* every request that reaches a provider is answered: the responses end with exactly one final
   (non-pending) response; everything before it is pending (for C-ECHO / C-STORE: provided the status the
   application returns is itself a final one) *)
Theorem C17_every_request_answered : forall q,
  (forall o, (forall c, o = HStatus c -> final_code c) -> answered (echo_scp q o))
  /\ (forall o, (forall c, o = HStatus c -> final_code c) -> answered (store_scp q o))
  /\ (forall o, answered (n_action_scp q o)) /\ (forall o, answered (n_event_report_scp q o))
  /\ (forall matches, Forall (fun m => find_pending (snd m) = true) matches -> answered (find_scp q matches))
  /\ (forall nop subs, answered (move_scp q nop subs)).
Proof. exact all_answered_for. Qed.
Print Assumptions C17_every_request_answered.
