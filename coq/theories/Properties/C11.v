(* Property C11 — requester: well-formed proposal, accepted contexts and service lookup agree. *)
From PND Require Import Lib.Base Lib.Text Model.Negotiation Proofs.NegotiationProofs.

(* whatever the sequence of add_scu / add_scp calls and the sizes of their class lists, the configured
   contexts are the configured classes in order, one context per class, numbered 1, 3, 5, ... *)
Theorem C11_contexts : forall calls : list (list bytes), configure calls = number_from 1 (concat calls).
Proof. exact configure_spec. Qed.
Print Assumptions C11_contexts.

(* ids are distinct, odd, at least 1, and the i-th class gets id 2i+1 *)
Theorem C11_ids : forall (cls : list bytes),
  NoDup (map fst (number_from 1 cls)) /\ map snd (number_from 1 cls) = cls
  /\ (forall id c, In (id, c) (number_from 1 cls) -> 1 <= id /\ N.odd id = true)
  /\ (forall i c, nth_error cls i = Some c -> nth_error (number_from 1 cls) i = Some (1 + 2 * N.of_nat i, c)).
Proof. exact ids_spec. Qed.
Print Assumptions C11_ids.

(* every id fits the one-byte context id field exactly when at most 128 classes are configured:
   with 129 or more the proposal cannot be encoded (known finding D17) *)
Theorem C11_ids_fit_iff_at_most_128 : forall cls : list bytes, cls <> [] ->
  (forall id c, In (id, c) (number_from 1 cls) -> id <= 255) <-> lenN cls <= 128.
Proof. exact ids_fit_iff. Qed.
Print Assumptions C11_ids_fit_iff_at_most_128.

(* after the reply: usable = the contexts the peer accepted among those proposed, bound to the
   transfer syntax the peer chose *)
Theorem C11_usable : forall ctxs reply, NoDup (map fst ctxs) -> forall id c t,
  In (id, c, t) (usable ctxs reply) <->
  exists a, In a reply /\ an_id a = id /\ an_result a = 0 /\ an_ts a = t /\ In (id, c) ctxs.
Proof. exact usable_spec. Qed.
Print Assumptions C11_usable.

(* a service is obtained for a class iff it is configured as SCU and a usable context exists for it;
   otherwise the lookup fails (ClassNotSupportedError) *)
Theorem C11_lookup : forall scu u cls,
  (exists x, get_scu scu u cls = Some x) <-> (In cls scu /\ exists id t, In (id, cls, t) u).
Proof. exact get_scu_spec. Qed.
Print Assumptions C11_lookup.

(* requester and acceptor together (C09 + C11): after negotiation both sides hold the same table of
   usable presentation contexts — what the requester regards as usable is exactly what the acceptor will
   serve: same ids, abstract syntaxes, transfer syntaxes, order — for EVERY acceptor configuration and
   EVERY set of proposed contexts with distinct ids *)
Theorem C11_both_sides_agree : forall (cfg : acfg) (tss : list bytes) (all : list (N * bytes)),
  NoDup (map fst all) -> forall ctxs, incl ctxs all ->
  usable all (answers cfg (proposals_of tss ctxs))
  = served_table (proposals_of tss ctxs) (answers cfg (proposals_of tss ctxs)).
Proof. exact both_sides_agree. Qed.
Print Assumptions C11_both_sides_agree.
