(* Property C06 — DIMSE fragmentation: size bound, fragment flags, byte-exact content.
   Unbounded in the command-set bytes, the data-set bytes, the presentation context id and the
   maximum PDU length m >= 7 (2^32-1 is just another m), or m = 0 (no limit). *)
From PND Require Import Lib.Base Model.Dimse Proofs.DimseProofs.

(* legal_max m: m = 0 (no maximum in force: the library fragments at eff_max 0 = 65536) or m >= 7;
   eff_max m = m for m >= 7 *)
Theorem C06_fragmentation : forall (cmd data : bytes) (pc m : N), legal_max m ->
  exists cs ds,
    dimse_encode cmd data pc m = Ok (cs ++ ds)          (* all command fragments, then all data fragments *)
    /\ stream_ok pc (eff_max m) 1 3 cmd cs                (* command stream: ctl 1 ... 1 3 *)
    /\ stream_ok pc (eff_max m) 0 2 data ds.              (* data stream:    ctl 0 ... 0 2, absent iff no data *)
Proof. exact fragmentation_spec. Qed.
Print Assumptions C06_fragmentation.

(* identical whether the data set was supplied as bytes or as a seekable file *)
Theorem C06_file_equals_bytes : forall (contents : bytes) (m normal last : N), legal_max m ->
  Ok (fragment_file contents m normal last) = fragment contents m normal last.
Proof. exact fragment_file_eq. Qed.
Print Assumptions C06_file_equals_bytes.

(* non-vacuity: a 3-fragment data stream at the smallest legal maximum *)
Example C06_example :
  dimse_encode [7] [1; 2; 3] 5 7 =
  Ok [ {| f_ctx := 5; f_ctl := 3; f_payload := [7] |};
       {| f_ctx := 5; f_ctl := 0; f_payload := [1] |};
       {| f_ctx := 5; f_ctl := 0; f_payload := [2] |};
       {| f_ctx := 5; f_ctl := 2; f_payload := [3] |} ].
Proof. reflexivity. Qed.
