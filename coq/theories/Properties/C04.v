(* Property C04 — the state machine performs the PS3.8 Table 9-10 action and transition in every cell.
   `cells` is the complete tabulation of the real StateMachine (13 states x 19 events x both roles x
   every applicable primitive kind), regenerated from /repo on every run; the per-run obligation is
   `check_cells cells = true` (vm_compute).  `conforms` compares a cell with Spec/Ps38Table.v:
   defined cell -> the prescribed PDU on the wire, indication to the user, transport close/open, ARTIM
   effect and an allowed next state; undefined cell -> no effect on wire, user, connection, timer or
   state (whether it raised or not). *)
From PND Require Import Lib.Base Spec.Ps38Table Model.FsmCell Model.Fsm Corr.CorrFsm Proofs.FsmCellProofs
  Proofs.FsmStaticProofs.

Theorem C04_every_cell : forall cells : list cell, check_cells cells = true ->
  (forall s e rq, In s states -> In e events ->
     exists c, In c cells /\ c_state c = s /\ c_event c = e /\ c_requestor c = rq)
  /\ (forall c, In c cells -> conforms c = true).
Proof. exact check_cells_sound. Qed.
Print Assumptions C04_every_cell.

Theorem C04_table_size : defined_cells = 123%nat.
Proof. exact table_has_123_defined_cells. Qed.
Print Assumptions C04_table_size.

(* the control model the C05 / C12 / C13 invariants are proved about is itself the PS3.8 machine: in EVERY
   cell — 13 states x 19 events x both roles x every primitive kind that can be in the slot when the event
   is dispatched x ARTIM running or not — the effects of Model.Fsm.dispatch conform to the table exactly as
   the observed cells of the real StateMachine are required to (and per run the observed cells are compared
   with the model's: Corr.CorrFsm.model_matches) *)
Theorem C04_model_conforms : forall (s e : N) (rq : bool) (p : primkind) (tb : bool),
  In s states -> In e events -> In p all_prims -> applicable e p = true ->
  conforms (model_cell s e rq p tb) = true.
Proof. exact model_conforms_everywhere. Qed.
Print Assumptions C04_model_conforms.
