(* Property C13 — every association ending terminates the provider and releases the connection.
   Over the control model of the provider loop (Model.Fsm), for every history of any length:
   the peer's close reaches rest within two iterations, ARTIM expiry in Sta2 / Sta13 with a quiet
   user reaches rest in one, ARTIM runs whenever the provider waits on the peer alone (Sta2, Sta13),
   a stop request is honoured at the next iteration head from every state, and no iteration blocks
   (the model has no blocking operation; the correspondence world turns a blocking read of the
   implementation into the outcome `blocked`). *)
From PND Require Import Lib.Base Spec.Ps38Table Model.Fsm Model.Provider
  Proofs.FsmProofs Proofs.FsmSpecProofs Proofs.FsmProofs2 Proofs.ProviderProofs Proofs.ProviderTheorems.

Theorem C13_peer_close : forall (r : bool) (is : list input),
  forallb legal_input is = true -> after_eof (run (init r) is) = true.
Proof. exact history_eof. Qed.
Print Assumptions C13_peer_close.

Theorem C13_artim_expiry : forall (r : bool) (is : list input),
  forallb legal_input is = true -> after_artim (run (init r) is) = true.
Proof. exact history_artim. Qed.
Print Assumptions C13_artim_expiry.

(* ARTIM is running exactly in Sta2 and Sta13 (conjunct of inv_state), so the two theorems above cover
   every wait that depends on the peer alone *)
Theorem C13_artim_armed : forall (r : bool) (is : list input),
  forallb legal_input is = true -> inv_state (run (init r) is) = true.
Proof. exact history_inv. Qed.
Print Assumptions C13_artim_armed.

Theorem C13_user_told : forall (r : bool) (is : list input) (i : input),
  forallb legal_input is = true -> legal_input i = true -> told_when_gone (run (init r) is) i = true.
Proof. exact history_told. Qed.
Print Assumptions C13_user_told.

Theorem C13_stop_completes : forall (c : ctrl) (i : input), c_out c = Running -> i_kill i = true ->
  c_out (fst (cstep c i)) = Returned /\ snd (cstep c i) = [].
Proof. exact kill_returns. Qed.
Print Assumptions C13_stop_completes.

Theorem C13_concrete : forall env requestor maxlen (ops : list op), forallb legal_op ops = true ->
  after_eof (ctl (run_script env requestor maxlen ops)) = true
  /\ after_artim (ctl (run_script env requestor maxlen ops)) = true.
Proof. intros. split; [apply script_eof|apply script_artim]; assumption. Qed.
Print Assumptions C13_concrete.
