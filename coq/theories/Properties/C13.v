(* Property C13 — every association ending terminates the provider and releases the connection.
   Over the control model of the provider loop (Model.Fsm), for every history of any length:
   the peer's close reaches rest within two iterations, ARTIM expiry in Sta2 / Sta13 with a quiet
   user reaches rest in one, ARTIM runs whenever the provider waits on the peer alone (Sta2, Sta13),
   a stop request is honoured at the next iteration head from every state, and no iteration blocks
   (the model has no blocking operation; the correspondence world turns a blocking read of the
   implementation into the outcome `blocked`). *)
From PND Require Import Lib.Base Spec.Ps38Table Model.Fsm Model.Provider
  Proofs.FsmProofs Proofs.FsmSpecProofs Proofs.FsmProofs2 Proofs.ProviderProofs Proofs.ProviderTheorems.

Theorem C13_peer_close : forall (r : bool) (is : list input),
  forallb legal_input is = true -> after_eof (run (init r) is) = true.
Proof. exact history_eof. Qed.
Print Assumptions C13_peer_close.

Theorem C13_artim_expiry : forall (r : bool) (is : list input),
  forallb legal_input is = true -> after_artim (run (init r) is) = true.
Proof. exact history_artim. Qed.
Print Assumptions C13_artim_expiry.

(* ARTIM is running exactly in Sta2 and Sta13 (conjunct of inv_state), so the two theorems above cover
   every wait that depends on the peer alone *)
Theorem C13_artim_armed : forall (r : bool) (is : list input),
  forallb legal_input is = true -> inv_state (run (init r) is) = true.
Proof. exact history_inv. Qed.
Print Assumptions C13_artim_armed.

Theorem C13_user_told : forall (r : bool) (is : list input) (i : input),
  forallb legal_input is = true -> legal_input i = true -> told_when_gone (run (init r) is) i = true.
Proof. exact history_told. Qed.
Print Assumptions C13_user_told.

Theorem C13_stop_completes : forall (c : ctrl) (i : input), c_out c = Running -> i_kill i = true ->
  c_out (fst (cstep c i)) = Returned /\ snd (cstep c i) = [].
Proof. exact kill_returns. Qed.
Print Assumptions C13_stop_completes.

Theorem C13_concrete : forall env requestor maxlen (ops : list op), forallb legal_op ops = true ->
  after_eof (ctl (run_script env requestor maxlen ops)) = true
  /\ after_artim (ctl (run_script env requestor maxlen ops)) = true.
Proof. intros. split; [apply script_eof|apply script_artim]; assumption. Qed.
Print Assumptions C13_concrete.

(* ---- an ending the peer causes by RESETTING the connection: the provider's next write is refused
   by the kernel (repair D23).  Control model with a write that may fail in any iteration (cstepw), every
   history of any length with any pattern of failing writes:
   - the invariants (never crashed; ARTIM exactly in Sta2 / Sta13; idle => transport closed; not idle =>
     a transport, or its loss queued as Evt17);
   - the iteration in which a write is refused keeps the protocol state, closes the transport, queues
     Evt17 and puts nothing on the wire (failing_step, inv_stepw);
   - the next iteration, whatever arrives in it, ends at rest with nothing queued and — if an
     association existed or was being established — an A-P-ABORT indication to the local user
     (after_failed_write);
   - a refusing transport changes nothing in an iteration that writes nothing (same_unless_send);
   - the peer's close and ARTIM expiry end the provider as before (after_eofw, after_artimw). *)
From PND Require Import Model.Decoder Model.ProviderW Proofs.FsmWProofs Proofs.ProviderWProofs.

Theorem C13_refused_write : forall (r : bool) (is : list (bool * input)),
  forallb legal_winput is = true ->
  inv_statew (runw (init r) is) = true /\ after_failed_write (runw (init r) is) = true
  /\ after_eofw (runw (init r) is) = true /\ after_artimw (runw (init r) is) = true.
Proof.
  intros r is H.
  split; [apply historyw_inv, H|split; [apply historyw_failed, H|split; [apply historyw_eof, H|apply historyw_artim, H]]].
Qed.
Print Assumptions C13_refused_write.

Theorem C13_refused_write_step : forall (r : bool) (is : list (bool * input)) (i : input),
  forallb legal_winput is = true -> legal_input i = true ->
  inv_stepw (runw (init r) is) i = true /\ failing_step (runw (init r) is) i = true
  /\ same_unless_send (runw (init r) is) i = true.
Proof. exact historyw_step. Qed.
Print Assumptions C13_refused_write_step.

(* the concrete model compared with the implementation (Corr.CorrProviderW.prov_corr_w) *)
Theorem C13_refused_write_concrete : forall strict env requestor maxlen (ops : list wop),
  forallb legal_wop ops = true ->
  inv_statew (ctl (run_scriptw strict env requestor maxlen ops)) = true
  /\ after_failed_write (ctl (run_scriptw strict env requestor maxlen ops)) = true
  /\ after_eofw (ctl (run_scriptw strict env requestor maxlen ops)) = true
  /\ after_artimw (ctl (run_scriptw strict env requestor maxlen ops)) = true.
Proof. exact scriptw_inv. Qed.
Print Assumptions C13_refused_write_concrete.

(* the transport that accepts every write — the setting of the theorems above this block — is the
   special case strict = false *)
Theorem C13_plain_transport : forall env requestor maxlen (ops : list op),
  run_scriptw false env requestor maxlen (map Plain ops) = run_script env requestor maxlen ops.
Proof. exact run_scriptw_plain. Qed.
Print Assumptions C13_plain_transport.

(* non-vacuity: a script on which a write IS refused (an acceptor in Sta2 receives an unrecognisable PDU
   with the peer's reset right behind it; AA-1's A-ABORT is refused): Evt17 queued in Sta2, nothing on
   the wire, at rest one iteration later *)
Example C13_a_write_is_refused :
  let env := mkdenv [] [] [] [] in
  let s1 := run_scriptw true env false 65536 [Plain Idle; SegReset [255; 0; 0; 0; 0; 4; 1; 2; 3; 4]] in
  let s2 := run_scriptw true env false 65536 [Plain Idle; SegReset [255; 0; 0; 0; 0; 4; 1; 2; 3; 4]; Plain Idle] in
  failed (ctl s1) = true /\ c_st (ctl s1) = 2 /\ wire s1 = [] /\ at_rest (ctl s2) = true.
Proof. exact a_write_fails. Qed.
