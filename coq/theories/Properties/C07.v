(* Property C07 — DIMSE reassembly is exact under any PDV grouping; completion detected exactly.
   For EVERY well-formed message (wf_message: its command set is read by the strict implicit-VR-LE
   reader, carries a command field present in MESSAGE_TYPE and a CommandDataSetType that says "no
   data set" exactly when there is none; its context is an accepted one), EVERY data set, EVERY
   maximum PDU length (m >= 7, or 0 = no limit) and EVERY grouping of the fragments produced by DIMSEMessage.encode into
   P-DATA-TF PDUs (every group non-empty): fed to a fresh DIMSEDecoder PDU by PDU, the decoder reports
   "still receiving" after every PDU but the last (expected_flags = true ... true false: never early,
   never late) and then delivers a message of the command field's type, on the message's context, with
   the identical command set and the identical data-set bytes — in memory, or, when the SOP class is
   configured for file storage, in the file after what get_file wrote (e_prefix: preamble + meta). *)
From PND Require Import Lib.Base Model.Pdu Model.CmdSet Model.Decoder Model.Dimse Corr.CorrDecoder
  Proofs.DimseProofs Proofs.DecoderProofs Proofs.DecoderProofs2.

Theorem C07_reassembly : forall env cmd data pc cf elems ue m fs (groups : list (list pdv)),
  wf_message env cmd data pc cf elems ue -> cmd <> [] -> legal_max m ->
  dimse_encode cmd data pc m = Ok fs ->
  groups <> [] -> Forall (fun g => g <> []) groups -> concat groups = map pdv_of_frag fs ->
  feed env d_init groups =
  (expected_flags groups,
   Some (match file_for env data elems ue with
         | Some prefix => DMsg cf cmd (prefix ++ data) true pc
         | None => DMsg cf cmd data false pc
         end)).
Proof. exact reassembly_any_grouping. Qed.
Print Assumptions C07_reassembly.

(* the grouping lemma on its own: any PDV sequence that completes the decoder at its last PDV does so
   under every grouping *)
Theorem C07_grouping : forall env cf (groups : list (list pdv)) d dfin,
  groups <> [] -> Forall (fun g => g <> []) groups ->
  completes_at_end env d (concat groups) dfin -> d_cf dfin = Some cf ->
  feed env d groups = (expected_flags groups, Some (msg_of dfin cf)).
Proof. exact grouping_independent. Qed.
Print Assumptions C07_grouping.

(* non-vacuity: a C-STORE-RQ command set with a 9-byte data set for a class kept in files is a
   well-formed message; at maximum length 12 it is sent in 8 fragments *)
Definition ex_env : denv := mkdenv [(1, 2)] [[49; 46; 50]] [3] [68; 73; 67; 77].
Definition ex_elems : list elem := [(0, 2, [49; 46; 50; 0]); (0, 256, [1; 0]); (0, 2048, [1; 0])].
Definition ex_data : bytes := [1; 2; 3; 4; 5; 6; 7; 8; 9].
Example C07_example_wf : wf_message ex_env (enc_elems ex_elems) ex_data 3 1 ex_elems 2.
Proof. constructor; try reflexivity. left. reflexivity. Qed.
Example C07_example_encoded :
  exists fs, dimse_encode (enc_elems ex_elems) ex_data 3 12 = Ok fs /\ length fs = 8%nat /\
  file_for ex_env ex_data ex_elems 2 = Some [68; 73; 67; 77].
Proof. eexists. split; [vm_compute; reflexivity|]. split; reflexivity. Qed.
Example C07_example_flags : expected_flags [1; 2; 3] = [true; true; false].
Proof. reflexivity. Qed.
