(* Property C15 — C-STORE delivers the data set intact end to end; stored files are never clobbered.
   The data-set bytes are opaque here (pydicom's data-set codec per transfer syntax is observed by the
   check, not modelled); everything between the sender's bytes and the receiving handler is. *)
From PND Require Import Lib.Base Model.Pdu Model.CmdSet Model.Decoder Model.Dimse Model.Services Model.Storage
  Corr.CorrDecoder Proofs.DimseProofs Proofs.DecoderProofs2 Proofs.ServicesProofs Proofs.StoreProofs Proofs.StorageProofs
  Model.Provider Model.Framing Proofs.WireProofs.

(* for EVERY data set, EVERY maximum length in force (0 or >= 7) the message sent by storage_scu —
   one fragment per P-DATA-TF — is reassembled by the receiving decoder into a message with the
   identical command set (hence the sent SOP class and instance UIDs) and the identical data-set bytes,
   in memory or in the storage file after the file meta header *)
Theorem C15_data_intact : forall env cmd data pc cf elems ue m fs,
  wf_message env cmd data pc cf elems ue -> cmd <> [] -> legal_max m ->
  dimse_encode cmd data pc m = Ok fs ->
  snd (CorrDecoder.feed env d_init (map (fun f => [pdv_of_frag f]) fs))
  = Some (match file_for env data elems ue with
          | Some prefix => DMsg cf cmd (prefix ++ data) true pc
          | None => DMsg cf cmd data false pc
          end).
Proof. exact store_data_intact. Qed.
Print Assumptions C15_data_intact.

(* the same over the wire: the bytes storage_scu's fragments occupy on the connection, cut by TCP into
   ANY segments, are recognised by the receiving provider as exactly the P-DATA-TF PDUs sent (nothing
   left over), each decodes to the fragment it carried, and the receiving decoder delivers the message *)
Theorem C15_over_the_wire : forall env cmd data pc cf elems ue m fs (segs : list bytes),
  wf_message env cmd data pc cf elems ue -> cmd <> [] -> legal_max m -> eff_max m + 2 < 4294967296 -> pc < 256 ->
  dimse_encode cmd data pc m = Ok fs ->
  concat segs = concat (map (fun f => encode (pdu_of_frag f)) fs) ->
  Framing.feed [] segs = (map (fun f => encode (pdu_of_frag f)) fs, [])
  /\ Forall (fun f => decode_as 4 (encode (pdu_of_frag f)) = Ok (pdu_of_frag f)) fs
  /\ snd (CorrDecoder.feed env d_init (map (fun f => pdvs_of (Some (pdu_of_frag f))) fs))
     = Some (match file_for env data elems ue with
             | Some prefix => DMsg cf cmd (prefix ++ data) true pc
             | None => DMsg cf cmd data false pc
             end).
Proof. exact store_over_the_wire. Qed.
Print Assumptions C15_over_the_wire.

(* each fragment survives the wire (C01 for P-DATA-TF) *)
Theorem C15_fragment_on_the_wire : forall f : frag, f_ctx f < 256 -> lenN (f_payload f) + 8 < 4294967296 ->
  decode_as 4 (encode (PData 0 [pdv_of_frag f])) = Ok (PData 0 [pdv_of_frag f]).
Proof. exact fragment_pdu_roundtrip. Qed.
Print Assumptions C15_fragment_on_the_wire.

(* the status the handler returns (or C000H if it raises EventHandlingError) is the status in the
   C-STORE response, which correlates with the request (and is what storage_scu returns) *)
Theorem C15_status : forall q o, q_cf q = 1 ->
  exists r, store_scp q o = [r] /\ correlates q r /\ same_instance q r
            /\ o_status r = Some (status_of o CANNOT_UNDERSTAND).
Proof. exact store_correlates. Qed.
Print Assumptions C15_status.

(* directory-backed storage: for EVERY directory content and EVERY instance UID a file name is found,
   and it is not the name of an existing file — no stored file is overwritten or truncated *)
Theorem C15_no_clobber : forall (existing : list bytes) (uid : bytes),
  exists n, storage_name existing uid = Some n /\ ~ In n existing.
Proof. exact storage_no_clobber. Qed.
Print Assumptions C15_no_clobber.

Example C15_example_names :
  storage_name [[49; 46; 100; 99; 109]; [49; 46; 100; 99; 109; 95; 49]] [49]
  = Some [49; 46; 100; 99; 109; 95; 49; 95; 50].                    (* "1.dcm", "1.dcm_1" exist -> "1.dcm_1_2" *)
Proof. reflexivity. Qed.
