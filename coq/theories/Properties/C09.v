(* Property C09 — the acceptor answers every proposed presentation context correctly.
   accept_pdu is AssociationAcceptor.accept on PDU values; `answers`, `answer_one`, `served_table` are
   its abstract content.  For EVERY entity configuration (any set of served abstract syntaxes, any set
   of supported transfer syntaxes) and EVERY request (any number of proposed contexts): *)
From PND Require Import Lib.Base Model.Pdu Model.Negotiation Model.NegoPdu Corr.CorrNego
  Proofs.NegotiationProofs Proofs.NegoPduProofs.

(* the reply answers the proposed contexts — once each, in the proposed order (the list of answers IS
   the map of answer_one over the proposals) — and repeats the AE titles and the application context;
   the contexts served afterwards are computed from the same answers *)
Theorem C09_reply_shape : forall cfg own rq m, accept_pdu cfg own rq = Some m ->
  exists props,
    map_opt proposal_of (middle (items_of rq)) = Some props
    /\ map_opt answer_of (middle (items_of (acc_pdu m))) = Some (answers cfg props)
    /\ acc_table m = served_table props (answers cfg props)
    /\ called_of (acc_pdu m) = called_of rq /\ calling_of (acc_pdu m) = calling_of rq
    /\ hd_error (items_of (acc_pdu m)) = hd_error (items_of rq).
Proof. exact accept_pdu_spec. Qed.
Print Assumptions C09_reply_shape.

Theorem C09_same_ids_same_order : forall cfg ps, map an_id (answers cfg ps) = map p_id ps.
Proof. exact answers_ids. Qed.
Print Assumptions C09_same_ids_same_order.

(* accepted iff served as SCP and some proposed transfer syntax is supported; the returned transfer
   syntax was proposed for that context and is supported; a refusal carries result 1 *)
Theorem C09_each_answer : forall cfg p,
  an_id (answer_one cfg p) = p_id p
  /\ (an_result (answer_one cfg p) = 0 <-> acceptable cfg p)
  /\ (an_result (answer_one cfg p) = 0 ->
        In (an_ts (answer_one cfg p)) (p_tss p) /\ In (an_ts (answer_one cfg p)) (a_ts cfg))
  /\ (an_result (answer_one cfg p) <> 0 -> an_result (answer_one cfg p) = 1).
Proof. exact answer_one_spec. Qed.
Print Assumptions C09_each_answer.

(* the contexts the acceptor will subsequently serve are exactly those it reported as accepted, with
   the same transfer syntax *)
Theorem C09_served_is_accepted : forall cfg ps id abs ts,
  In (id, abs, ts) (served_table ps (answers cfg ps)) <->
  exists p, In p ps /\ p_id p = id /\ p_abs p = abs /\ an_result (answer_one cfg p) = 0
            /\ an_ts (answer_one cfg p) = ts.
Proof. exact served_table_spec. Qed.
Print Assumptions C09_served_is_accepted.

(* non-vacuity *)
Example C09_example :
  answers (mkacfg [[1]; [2]] [[7]; [8]])
          [mkprop 1 [1] [[9]; [8]; [7]]; mkprop 3 [5] [[7]]; mkprop 5 [2] [[9]]]
  = [mkans 1 0 [8]; mkans 3 1 []; mkans 5 1 []].
Proof. reflexivity. Qed.
