(* Property C09 — placeholder until NegoPduProofs is written *)
From PND Require Import Lib.Base Model.Negotiation Proofs.NegotiationProofs.
Theorem C09_ids : forall cfg ps, map an_id (answers cfg ps) = map p_id ps.
Proof. exact answers_ids. Qed.
Print Assumptions C09_ids.
