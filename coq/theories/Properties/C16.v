(* Property C16 — C-FIND returns exactly the matches the SCP produced, in order, then stops.
   find_scp: what the provider sends for a query and ANY list of matches (data set bytes, status);
   find_scu: what the user side yields for a list of responses. *)
From PND Require Import Lib.Base Model.Services Proofs.ServicesProofs.

(* end to end, for every list of matches with pending statuses and non-empty data sets: the user
   receives exactly those data sets with exactly those statuses, in order, then one final response
   without data set, and iteration ends *)
Theorem C16_end_to_end : forall q (matches : list (bytes * N)),
  Forall (fun m => find_pending (snd m) = true /\ fst m <> []) matches ->
  find_scu (map rsp_pair (find_scp q matches))
  = map (fun m => (Some (fst m), snd m)) matches ++ [(None, 0)].
Proof. exact find_end_to_end. Qed.
Print Assumptions C16_end_to_end.

(* the same for EVERY list of matches with pending statuses, empty identifiers included: such a match
   reaches the user as (None, status) and does not end the iteration *)
Theorem C16_end_to_end_any : forall q (matches : list (bytes * N)),
  Forall (fun m => find_pending (snd m) = true) matches ->
  find_scu (map rsp_pair (find_scp q matches))
  = map (fun m => (opt_data (fst m), snd m)) matches ++ [(None, 0)].
Proof. exact find_end_to_end_any. Qed.
Print Assumptions C16_end_to_end_any.

(* the user side alone: for any response list pend ++ [final] ++ rest with final not pending it yields
   exactly |pend| + 1 results and never looks at rest *)
Theorem C16_user_stops : forall (pend : list (bytes * N)) (final : bytes * N) (rest : list (bytes * N)),
  Forall (fun m => find_pending (snd m) = true) pend -> find_pending (snd final) = false ->
  find_scu (pend ++ final :: rest) = find_scu (pend ++ [final])
  /\ length (find_scu (pend ++ final :: rest)) = S (length pend).
Proof. exact find_scu_stops. Qed.
Print Assumptions C16_user_stops.

Example C16_example :
  find_scu (map rsp_pair (find_scp (mkrq 32 1 7 [49] None []) [([1; 2], 65280); ([3], 65281)]))
  = [(Some [1; 2], 65280); (Some [3], 65281); (None, 0)].
Proof. reflexivity. Qed.
