(* Property C14 — rejection, abort and release are reported faithfully to both sides.
   Composition: the association layer's mapping (Model.Assoc) + the codec round trip for the three PDUs
   involved (C01, for ALL byte values) + framing (each is exactly one frame) + the provider handing
   the received PDU itself to the user in every reachable state (control model, all histories). *)
From PND Require Import Lib.Base Model.Pdu Model.Assoc Model.Provider Model.Framing Model.Fsm
  Proofs.FsmProofs Proofs.AssocProofs.

(* a refusing application: the A-ASSOCIATE-RJ carries exactly (result, source, reason), no service runs *)
Theorem C14_acceptor_refuses : forall r s d,
  acceptor_establish (AppReject r s d) = (Some (AssocRj 0 0 r s d), false).
Proof. reflexivity. Qed.
Print Assumptions C14_acceptor_refuses.

(* ... and the requestor's error carries exactly the same triple, for every byte value *)
Theorem C14_rejection_unchanged : forall r s d, r < 256 -> s < 256 -> d < 256 ->
  exists p, decode_as 3 (encode (AssocRj 0 0 r s d)) = Ok p /\ handle_errors p = Some (ERejected r s d).
Proof. exact rejection_roundtrip. Qed.
Print Assumptions C14_rejection_unchanged.

Theorem C14_abort_unchanged : forall s r, s < 256 -> r < 256 ->
  exists p, decode_as 7 (encode (Abort 0 0 0 s r)) = Ok p /\ handle_errors p = Some (EAborted s r).
Proof. exact abort_roundtrip. Qed.
Print Assumptions C14_abort_unchanged.

Theorem C14_release_surfaces :
  exists p, decode_as 5 (encode (RelRq 0 0)) = Ok p /\ handle_errors p = Some EReleased.
Proof. exact release_roundtrip. Qed.
Print Assumptions C14_release_surfaces.

(* whenever (any point of any history) the peer's RJ arrives while awaiting the reply, its A-ABORT
   arrives on an association the user knows of, or its A-RELEASE-RQ arrives in data transfer / while
   releasing, the provider hands the user the received PDU itself *)
Theorem C14_reject_delivered : forall r is i, forallb legal_input is = true -> legal_input i = true ->
  indicates_received (run (init r) is) KRj [5] i = true.
Proof. exact history_reject_indicated. Qed.
Print Assumptions C14_reject_delivered.

Theorem C14_abort_delivered : forall r is i s, forallb legal_input is = true -> legal_input i = true ->
  indicates_received (run (init r) is) (KAbort s) [3; 5; 6; 7; 8; 9; 10; 11; 12] i = true.
Proof. exact history_abort_indicated. Qed.
Print Assumptions C14_abort_delivered.

Theorem C14_release_delivered : forall r is i, forallb legal_input is = true -> legal_input i = true ->
  indicates_received (run (init r) is) KRelRq [6; 7] i = true.
Proof. exact history_release_indicated. Qed.
Print Assumptions C14_release_delivered.

(* leaving a requested association normally releases it, leaving it through an error aborts it; an
   association that was never established is only torn down locally *)
Theorem C14_exit_paths :
  exit_action true false = DoRelease /\ exit_action true true = DoAbort
  /\ exit_action false false = DoKill /\ exit_action false true = DoKill.
Proof. repeat split. Qed.
Print Assumptions C14_exit_paths.
