(* Property C02 — the wire format is the PS3.8 9.3 / PS3.7 Annex D layout.
   `layout` (Spec/Ps38Layout.v) is an independent declarative description in which every length
   field is COMPUTED from the bytes of the value it governs; `encode = layout` therefore says that
   each emitted length field delimits exactly its value, with the standard's widths, order and type
   codes.  fixed_lens asks the two fixed-size sub-items to announce their fixed size 4. *)
From PND Require Import Lib.Base Model.Pdu Model.PduWf Spec.Ps38Layout Proofs.PduProofs Proofs.LayoutProofs Proofs.ParseProofs.

Theorem C02_emitted : forall p : pdu, wf_pdu p = true -> fixed_lens p = true ->
  encode p = layout p /\ total_length p = lenN (encode p).
Proof.
  intros p Hwf Hfix. split; [exact (encode_layout p Hwf Hfix)|exact (total_length_bytes p Hwf Hfix)].
Qed.
Print Assumptions C02_emitted.

(* read strictly by the byte layouts — `parse` is a length-driven parser in which every length field
   delimits exactly the bytes it governs, a value must be consumed completely and nothing may follow
   the PDU — every emitted PDU yields exactly the field values of the PDU that was encoded *)
Theorem C02_read_strictly : forall p : pdu, wf_pdu p = true -> fixed_lens p = true ->
  parse (encode p) = Some p.
Proof. exact parse_encode. Qed.
Print Assumptions C02_read_strictly.

(* conversely: every standard-conformant encoding — the layout of ANY well-formed value, whatever the
   order of its sub-items, with unknown sub-item types, several transfer syntaxes, several PDVs —
   decodes to exactly that value *)
Theorem C02_accepted : forall p : pdu, wf_pdu p = true -> fixed_lens p = true ->
  decode_as (type_of p) (layout p) = Ok p.
Proof.
  intros p Hwf Hfix. rewrite <- (encode_layout p Hwf Hfix). exact (decode_encode p Hwf).
Qed.
Print Assumptions C02_accepted.

(* the layout determines the value: two well-formed PDUs of one type with the same bytes are equal *)
Theorem C02_layout_injective : forall p q : pdu,
  wf_pdu p = true -> wf_pdu q = true -> fixed_lens p = true -> fixed_lens q = true ->
  type_of p = type_of q -> layout p = layout q -> p = q.
Proof.
  intros p q Hp Hq Fp Fq Ht Hl.
  pose proof (C02_accepted p Hp Fp) as H1. pose proof (C02_accepted q Hq Fq) as H2.
  rewrite Ht, Hl in H1. rewrite H1 in H2. injection H2. auto.
Qed.
Print Assumptions C02_layout_injective.
