(* Property C20 — concurrent associations on one application entity are isolated.
   Non-interference for ANY per-association step function over an immutable configuration, ANY number
   of associations and ANY interleaving; instantiated with the provider model (Model.Provider.iter,
   configuration = the decoder environment).  That the code has this shape (no association writes
   state shared with another one) is what the check audits statically and exercises dynamically. *)
From PND Require Import Lib.Base Model.Multi Model.Decoder Model.Provider Proofs.MultiProofs.

Theorem C20_isolation : forall (cfg state input : Type) (step : cfg -> state -> input -> state)
  (c : cfg) (sched : list (N * input)) (s : system state) (i : N) (x : state),
  get state i s = Some x ->
  get state i (run_system cfg state input step c sched s)
  = Some (run_single cfg state input step c x (project input i sched)).
Proof. exact isolation. Qed.
Print Assumptions C20_isolation.

(* for the provider model: N providers stepped in any interleaving of their script operations *)
Theorem C20_providers : forall (env : denv) (sched : list (N * op)) (s : system pstate) (i : N) (x : pstate),
  get pstate i s = Some x ->
  get pstate i (run_system denv pstate op iter env sched s)
  = Some (fold_left (iter env) (project op i sched) x).
Proof. intros. apply (isolation denv pstate op iter). assumption. Qed.
Print Assumptions C20_providers.

Theorem C20_message_ids_unique : forall k c, NoDup (msg_ids k c).
Proof. exact msg_ids_unique. Qed.
Print Assumptions C20_message_ids_unique.
