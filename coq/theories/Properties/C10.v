(* Property C10 — the negotiated maximum PDU length is honoured in both directions, including 0.
   negotiate own_r own_a: the requestor announces its configured maximum; the acceptor limits its own
   sending to eff_limit (0 = no limit never restricts the other value) and announces that; the
   requestor limits its sending to eff_limit of its own maximum and the acceptor's announcement.
   legal_max: 0 or at least 7 (the smallest maximum that can carry one payload byte). *)
From PND Require Import Lib.Base Model.Negotiation Model.Dimse Proofs.NegotiationProofs Proofs.DimseProofs Proofs.MaxLenProofs.

Theorem C10_negotiation : forall own_r own_a : N,
  NegotiationProofs.legal_max own_r -> NegotiationProofs.legal_max own_a ->
  let n := negotiate own_r own_a in
  ann_r n = own_r
  /\ le_inf (ann_a n) own_a /\ le_inf (ann_r n) own_r        (* announces what it is prepared to receive *)
  /\ (ann_a n <> 0 -> lim_r n <> 0 /\ lim_r n <= ann_a n)    (* requestor sends within the acceptor's announcement *)
  /\ (ann_r n <> 0 -> lim_a n <> 0 /\ lim_a n <= ann_r n)    (* acceptor sends within the requestor's announcement *)
  /\ NegotiationProofs.legal_max (lim_r n) /\ NegotiationProofs.legal_max (lim_a n).
Proof. exact negotiate_spec. Qed.
Print Assumptions C10_negotiation.

(* composed with C06: with the limit `lim` a side ends up with, EVERY message (any command set, any data
   set, any size) is sent completely and every P-DATA-TF stays within the peer's announcement *)
Theorem C10_every_message_within : forall (lim ann : N) (cmd data : bytes) (pc : N),
  DimseProofs.legal_max lim -> (ann <> 0 -> lim <> 0 /\ lim <= ann) ->
  exists cs ds,
    dimse_encode cmd data pc lim = Ok (cs ++ ds)
    /\ concat_payload cs = cmd /\ concat_payload ds = data
    /\ Forall (fun f => ann = 0 \/ frag_pdu_length f <= ann) (cs ++ ds).
Proof. exact every_message_within. Qed.
Print Assumptions C10_every_message_within.

(* the two composed: from ANY pair of configured maxima, EVERY message of either side *)
Theorem C10_both_directions : forall (own_r own_a : N) (cmd data : bytes) (pc : N),
  NegotiationProofs.legal_max own_r -> NegotiationProofs.legal_max own_a ->
  let n := negotiate own_r own_a in
  (exists cs ds, dimse_encode cmd data pc (lim_r n) = Ok (cs ++ ds)
     /\ concat_payload cs = cmd /\ concat_payload ds = data
     /\ Forall (fun f => ann_a n = 0 \/ frag_pdu_length f <= ann_a n) (cs ++ ds))
  /\ (exists cs ds, dimse_encode cmd data pc (lim_a n) = Ok (cs ++ ds)
     /\ concat_payload cs = cmd /\ concat_payload ds = data
     /\ Forall (fun f => ann_r n = 0 \/ frag_pdu_length f <= ann_r n) (cs ++ ds)).
Proof. exact both_directions_within. Qed.
Print Assumptions C10_both_directions.

Example C10_example : negotiate 0 128 = mkneg 0 128 128 128 /\ negotiate 16384 0 = mkneg 16384 16384 16384 16384
                      /\ negotiate 0 0 = mkneg 0 0 0 0.
Proof. repeat split. Qed.
