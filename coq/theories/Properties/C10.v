(* Property C10 — the negotiated maximum PDU length is honoured in both directions, including 0.
   negotiate own_r own_a: the requestor announces its configured maximum; the acceptor limits its own
   sending to eff_limit (0 = no limit never restricts the other value) and announces that; the
   requestor limits its sending to eff_limit of its own maximum and the acceptor's announcement.
   legal_max: 0 or at least 7 (the smallest maximum that can carry one payload byte). *)
From PND Require Import Lib.Base Model.Pdu Model.Negotiation Model.NegoPdu Model.Dimse Proofs.NegotiationProofs Proofs.DimseProofs Proofs.MaxLenProofs
  Proofs.MaxLenPduProofs.

Theorem C10_negotiation : forall own_r own_a : N,
  NegotiationProofs.legal_max own_r -> NegotiationProofs.legal_max own_a ->
  let n := negotiate own_r own_a in
  ann_r n = own_r
  /\ le_inf (ann_a n) own_a /\ le_inf (ann_r n) own_r        (* announces what it is prepared to receive *)
  /\ (ann_a n <> 0 -> lim_r n <> 0 /\ lim_r n <= ann_a n)    (* requestor sends within the acceptor's announcement *)
  /\ (ann_r n <> 0 -> lim_a n <> 0 /\ lim_a n <= ann_r n)    (* acceptor sends within the requestor's announcement *)
  /\ NegotiationProofs.legal_max (lim_r n) /\ NegotiationProofs.legal_max (lim_a n).
Proof. exact negotiate_spec. Qed.
Print Assumptions C10_negotiation.

(* composed with C06: with the limit `lim` a side ends up with, EVERY message (any command set, any data
   set, any size) is sent completely and every P-DATA-TF stays within the peer's announcement *)
Theorem C10_every_message_within : forall (lim ann : N) (cmd data : bytes) (pc : N),
  DimseProofs.legal_max lim -> (ann <> 0 -> lim <> 0 /\ lim <= ann) ->
  exists cs ds,
    dimse_encode cmd data pc lim = Ok (cs ++ ds)
    /\ concat_payload cs = cmd /\ concat_payload ds = data
    /\ Forall (fun f => ann = 0 \/ frag_pdu_length f <= ann) (cs ++ ds).
Proof. exact every_message_within. Qed.
Print Assumptions C10_every_message_within.

(* the two composed: from ANY pair of configured maxima, EVERY message of either side *)
Theorem C10_both_directions : forall (own_r own_a : N) (cmd data : bytes) (pc : N),
  NegotiationProofs.legal_max own_r -> NegotiationProofs.legal_max own_a ->
  let n := negotiate own_r own_a in
  (exists cs ds, dimse_encode cmd data pc (lim_r n) = Ok (cs ++ ds)
     /\ concat_payload cs = cmd /\ concat_payload ds = data
     /\ Forall (fun f => ann_a n = 0 \/ frag_pdu_length f <= ann_a n) (cs ++ ds))
  /\ (exists cs ds, dimse_encode cmd data pc (lim_a n) = Ok (cs ++ ds)
     /\ concat_payload cs = cmd /\ concat_payload ds = data
     /\ Forall (fun f => ann_r n = 0 \/ frag_pdu_length f <= ann_r n) (cs ++ ds)).
Proof. exact both_directions_within. Qed.
Print Assumptions C10_both_directions.

(* on the PDUs themselves (AssociationAcceptor.accept, AssociationRequester._request): the peer's announcement is
   found wherever its Maximum Length sub-item stands among the user-information sub-items - PS3.7 Annex D fixes no
   order - and a peer that announces nothing is a peer without limit; the acceptor announces its own limit in exactly
   that sub-item and leaves the other sub-items as they were *)
Theorem C10_acceptor_finds_announcement : forall cfg own rq m, accept_pdu cfg own rq = Some m ->
  acc_max m = eff_limit own (peer_announced (user_subs rq))
  /\ user_subs (acc_pdu m) = announce (acc_max m) (user_subs rq)
  /\ find_maxlen (user_subs (acc_pdu m)) = Some (acc_max m)
  /\ filter (fun s => negb (is_maxlen s)) (user_subs (acc_pdu m))
     = filter (fun s => negb (is_maxlen s)) (user_subs rq).
Proof. exact accept_pdu_max. Qed.
Print Assumptions C10_acceptor_finds_announcement.

Theorem C10_announcement_in_place : forall v subs p, find_maxlen subs = Some p ->
  exists before mr ml after,
    subs = before ++ MaxLen mr ml p :: after
    /\ set_maxlen v subs = before ++ MaxLen mr ml v :: after
    /\ forallb (fun s => negb (is_maxlen s)) before = true.
Proof. exact set_maxlen_split. Qed.
Print Assumptions C10_announcement_in_place.

Theorem C10_requestor_finds_announcement : forall own ctxs ac r, read_reply own ctxs ac = Some r ->
  rep_max r = match find_maxlen (user_subs ac) with Some peer => eff_limit own peer | None => own end.
Proof. exact read_reply_max. Qed.
Print Assumptions C10_requestor_finds_announcement.

(* the two functions on PDUs compute `negotiate` (C10_negotiation), for a requestor that announces own_r anywhere *)
Theorem C10_on_pdus : forall cfg own_r own_a ctxs rq m r,
  find_maxlen (user_subs rq) = Some own_r ->
  accept_pdu cfg own_a rq = Some m -> read_reply own_r ctxs (acc_pdu m) = Some r ->
  let n := negotiate own_r own_a in
  acc_max m = lim_a n /\ find_maxlen (user_subs (acc_pdu m)) = Some (ann_a n) /\ rep_max r = lim_r n.
Proof. exact pdu_negotiation. Qed.
Print Assumptions C10_on_pdus.

(* the library talking to itself: the A-ASSOCIATE-RQ it builds (request_pdu: its own Maximum Length sub-item first, then
   whatever sub-items the application adds), answered by its own acceptor under ANY configuration, read by its own
   requestor - both functions succeed and the limits are those of `negotiate`; the reply announces the acceptor's limit
   and repeats the other sub-items *)
Theorem C10_library_to_library : forall cfg called calling ctxs ts_list own_r own_a rest,
  let rq := request_pdu called calling ctxs ts_list (MaxLen 0 4 own_r :: rest) in
  exists m r,
    accept_pdu cfg own_a rq = Some m /\ read_reply own_r ctxs (acc_pdu m) = Some r
    /\ acc_max m = lim_a (negotiate own_r own_a) /\ rep_max r = lim_r (negotiate own_r own_a)
    /\ user_subs (acc_pdu m) = MaxLen 0 4 (ann_a (negotiate own_r own_a)) :: rest.
Proof. exact library_pair. Qed.
Print Assumptions C10_library_to_library.

Theorem C10_nothing_announced : forall cfg own rq m,
  find_maxlen (user_subs rq) = None -> accept_pdu cfg own rq = Some m ->
  acc_max m = own /\ user_subs (acc_pdu m) = MaxLen 0 4 own :: user_subs rq.
Proof. exact accept_without_announcement. Qed.
Print Assumptions C10_nothing_announced.

(* the premises are met: a request with the Maximum Length sub-item behind two others *)
Example C10_on_pdus_example :
  let rq := Assoc KRq 0 1 0 [65] [66] [0;0;0;0;0;0;0;0]
              [AppCtx 0 APP_CONTEXT; PcRq 1 0 0 0 0 {| sy_reserved := 0; sy_name := [49] |} [{| sy_reserved := 0; sy_name := [50] |}];
               UserInfo 0 [ImplClass 0 [49]; ImplVersion 0 [86]; MaxLen 0 4 4096]] in
  find_maxlen (user_subs rq) = Some 4096
  /\ match accept_pdu (mkacfg [[49]] [[50]]) 16384 rq with
     | Some m => acc_max m = 4096 /\ user_subs (acc_pdu m) = [ImplClass 0 [49]; ImplVersion 0 [86]; MaxLen 0 4 4096]
                 /\ match read_reply 4096 [(1, [49])] (acc_pdu m) with Some r => rep_max r = 4096 | None => False end
     | None => False
     end.
Proof. vm_compute. repeat split. Qed.

Example C10_example : negotiate 0 128 = mkneg 0 128 128 128 /\ negotiate 16384 0 = mkneg 16384 16384 16384 16384
                      /\ negotiate 0 0 = mkneg 0 0 0 0.
Proof. repeat split. Qed.
