(* Property C03 — PDU framing is independent of how TCP segments the byte stream.
   `frames` is the provider's buffer discipline (_process_incoming until no complete frame is left);
   `feed` delivers a stream segment by segment.  For EVERY list of segments — cuts inside headers,
   inside bodies, one byte at a time, several PDUs in one segment — the frames recognised and the
   leftover are those of the whole stream: no byte is lost, duplicated or reordered. *)
From PND Require Import Lib.Base Model.Decoder Model.Fsm Model.Provider Model.Framing Model.Stream
  Proofs.FramingProofs Proofs.StreamProofs
  Model.Pdu Model.PduWf Spec.Ps38Layout Proofs.ConvProofs.

Theorem C03_framing : forall segs : list bytes, feed [] segs = frames (concat segs).
Proof. exact feed_any_partition. Qed.
Print Assumptions C03_framing.

Theorem C03_partition_independent : forall segs1 segs2 : list bytes,
  concat segs1 = concat segs2 -> feed [] segs1 = feed [] segs2.
Proof. exact partition_independent. Qed.
Print Assumptions C03_partition_independent.

(* two whole PDUs in one segment, then a third cut in the middle of its header *)
Example C03_example :
  fst (feed [] [[5;0;0;0;0;4;0;0;0;0; 7;0;0;0;0;4;0;0;2;0; 6;0;0]; [0;0;4;0;0;0;0]])
  = [[5;0;0;0;0;4;0;0;0;0]; [7;0;0;0;0;4;0;0;2;0]; [6;0;0;0;0;4;0;0;0;0]].
Proof. vm_compute. reflexivity. Qed.

(* ---- the same for the provider run as a whole (Model.Provider.iter) ---------------------------------
   Along EVERY script — segments of any size arriving at any iterations, interleaved with user
   requests, clock ticks, the peer closing, kill — with `run_frames` the byte strings the loop hands
   to the PDU decoders, `run_delivered` what the transport accepted from the peer, and `stream` what
   the provider still holds (its buffer, then the transport's): *)

(* no byte is lost, duplicated or reordered *)
Theorem C03_provider_conserves : forall (env : denv) (ops : list op) (s : pstate),
  concat (run_frames env s ops) ++ stream (fold_left (iter env) ops s) = stream s ++ run_delivered env s ops.
Proof. exact stream_conserved. Qed.
Print Assumptions C03_provider_conserves.

(* the PDUs recognised are the PS3.8 frames of the delivered content, in order, whatever the cuts *)
Theorem C03_provider_frames : forall (env : denv) (ops : list op) (s : pstate),
  exists tl, fst (frames (stream s ++ run_delivered env s ops)) = run_frames env s ops ++ tl.
Proof. exact frames_of_content. Qed.
Print Assumptions C03_provider_frames.

(* a PDU event reaches the state machine only from a recognised frame, and it is that frame's classification *)
Theorem C03_provider_events : forall (env : denv) (s : pstate) (o : op),
  match iter_frame s o with
  | Some f => i_net (it_input (iter_parts env (apply_op s o) (is_kill o))) = fst (classify f)
  | None => match i_net (it_input (iter_parts env (apply_op s o) (is_kill o))) with
            | NPdu _ | NBad => False | _ => True end
  end.
Proof.
  intros env s o. destruct (iter_frame s o) as [f|] eqn:E;
    [exact (frame_classified env s o f E)|exact (no_frame_no_pdu env s o E)].
Qed.
Print Assumptions C03_provider_events.

(* ---- composed with the codec (C01/C02): the byte stream of a conversation — ANY list of PDUs the
   library can emit — cut by the transport into ANY segments is recognised as exactly those PDUs, with
   nothing left over, and each decodes to the value that was encoded *)
Theorem C03_conversation : forall (ps : list pdu) (segs : list bytes),
  Forall (fun p => wf_pdu p = true /\ fixed_lens p = true) ps ->
  concat segs = concat (map encode ps) ->
  feed [] segs = (map encode ps, [])
  /\ Forall2 (fun f p => decode_as (type_of p) f = Ok p) (map encode ps) ps.
Proof. exact conversation_any_segmentation. Qed.
Print Assumptions C03_conversation.

(* ---- the same on the transport of Model/ProviderW.v: the peer may reset the connection right behind its
   last bytes (SegReset) and writes may be refused from then on.  Whatever the pattern of refused writes, the
   bytes delivered before the reset are still framed: the end of the connection never overtakes the data. *)
From PND Require Import Model.ProviderW Proofs.StreamWProofs.

Theorem C03_provider_conserves_w : forall (strict : bool) (env : denv) (ops : list wop) (s : pstate),
  concat (run_framesw strict env s ops) ++ stream (fold_left (iterw strict env) ops s)
  = stream s ++ run_deliveredw strict env s ops.
Proof. exact stream_conservedw. Qed.
Print Assumptions C03_provider_conserves_w.

Theorem C03_provider_frames_w : forall (strict : bool) (env : denv) (ops : list wop) (s : pstate),
  exists tl, fst (frames (stream s ++ run_deliveredw strict env s ops)) = run_framesw strict env s ops ++ tl.
Proof. exact frames_of_contentw. Qed.
Print Assumptions C03_provider_frames_w.

(* two deliveries of the same content (whole with the reset right behind it / per PDU and then the reset)
   that both consumed it recognised the same PDUs *)
Theorem C03_same_content_same_frames_w : forall strict env (ops1 ops2 : list wop) (s : pstate),
  run_deliveredw strict env s ops1 = run_deliveredw strict env s ops2 ->
  stream (fold_left (iterw strict env) ops1 s) = stream (fold_left (iterw strict env) ops2 s) ->
  concat (run_framesw strict env s ops1) = concat (run_framesw strict env s ops2).
Proof. exact same_content_same_framesw. Qed.
Print Assumptions C03_same_content_same_frames_w.

(* ---- "depends only on the content": how the transport cuts the stream decides how many iterations of the loop see
   "nothing yet" between two PDUs.  Such an iteration (nothing complete from the peer, nothing from the local user, ARTIM
   not expired) in a quiescent control state (no event queued, no outgoing message in progress, not in Sta4) changes
   nothing and emits nothing, in every state any history can reach; so two histories that differ only in such iterations
   end in the same control state with the same outputs in the same order (PDUs written, indications, transport opened and
   closed, ARTIM started).  With C03_provider_frames / C03_provider_events (the PDU events ARE the frames of the content,
   in order) this is the property's second clause up to what is genuinely timing: an ARTIM expiry or a local request
   falling between different PDUs, or an outgoing message whose next fragment is written while the peer's PDU is still
   incomplete. *)
From PND Require Import Proofs.FsmProofs Proofs.FsmStutterProofs.

Theorem C03_idle_iteration_invisible : forall (c : ctrl) (i : input),
  In c reach -> quiescent c = true -> is_idle i = true -> cstep c i = (c, []).
Proof. exact idle_step. Qed.
Print Assumptions C03_idle_iteration_invisible.

Theorem C03_same_up_to_idle_iterations : forall (r : bool) (is1 is2 : list input),
  forallb legal_input is1 = true -> forallb legal_input is2 = true ->
  strip (init r) is1 = strip (init r) is2 ->
  FsmProofs.run (init r) is1 = FsmProofs.run (init r) is2 /\ trace (init r) is1 = trace (init r) is2.
Proof. exact same_up_to_idle. Qed.
Print Assumptions C03_same_up_to_idle_iterations.

(* ---- the same on the concrete loop (Model.Provider.iter, the model that is compared with the real loop after every
   iteration): in a quiet state - no complete frame buffered, nothing waiting at the transport, no request of the local
   user queued, ARTIM not expired, control state quiescent - an iteration reads nothing, writes nothing, indicates
   nothing and keeps control state, buffer, slot, queue and timer; with no outgoing fragments left over it is the
   identity on the whole state, so an idle iteration inserted at a quiet point of ANY script changes nothing at all,
   whatever follows it. *)
From PND Require Import Proofs.ProviderProofs Proofs.ProviderIdleProofs.

Theorem C03_idle_iteration_concrete : forall env s,
  In (ctl s) reach -> quiet s = true ->
  let s' := iter env s Idle in
  ctl s' = ctl s /\ wire s' = wire s /\ given s' = given s /\ raw s' = raw s /\ pending s' = pending s
  /\ userq s' = userq s /\ prim s' = prim s /\ tstart s' = tstart s /\ now s' = now s.
Proof. exact idle_iteration_concrete. Qed.
Print Assumptions C03_idle_iteration_concrete.

Theorem C03_idle_insertion_invisible : forall env requestor maxlen (ops1 ops2 : list op),
  forallb legal_op ops1 = true ->
  quiet_all (run_script env requestor maxlen ops1) = true ->
  run_script env requestor maxlen (ops1 ++ Idle :: ops2) = run_script env requestor maxlen (ops1 ++ ops2).
Proof. exact idle_insertion_invisible. Qed.
Print Assumptions C03_idle_insertion_invisible.

(* the premises are met: an established association (Sta6) with the first three bytes of the peer's next PDU in the
   buffer is a quiet state reached by a legal script; and two histories of the control model that differ only in idle
   iterations have the same non-empty outputs *)
Example C03_quiet_state_exists :
  let s := run_script (mkdenv [] [] [1] []) false 65536 ex_ops in
  quiet_all s = true /\ c_st (ctl s) = 6 /\ raw s = [4; 0; 0] /\ length (wire s) = 1%nat /\ length (given s) = 1%nat
  /\ forallb legal_op ex_ops = true.
Proof. exact quiet_in_sta6. Qed.

Example C03_idle_histories_example :
  let h1 := [idle; pdu_in Fsm.KRq; usr_in Fsm.KAc; pdu_in KRelRq; usr_in KRelRp] in
  let h2 := [idle; idle; pdu_in Fsm.KRq; idle; idle; idle; usr_in Fsm.KAc; idle; pdu_in KRelRq; idle; idle; usr_in KRelRp; idle] in
  strip (init false) h1 = strip (init false) h2 /\ trace (init false) h1 = trace (init false) h2
  /\ trace (init false) h1 <> [].
Proof. exact stutter_example. Qed.
