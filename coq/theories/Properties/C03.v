(* Property C03 — PDU framing is independent of how TCP segments the byte stream.
   `frames` is the provider's buffer discipline (_process_incoming until no complete frame is left);
   `feed` delivers a stream segment by segment.  For EVERY list of segments — cuts inside headers,
   inside bodies, one byte at a time, several PDUs in one segment — the frames recognised and the
   leftover are those of the whole stream: no byte is lost, duplicated or reordered. *)
From PND Require Import Lib.Base Model.Provider Model.Framing Proofs.FramingProofs.

Theorem C03_framing : forall segs : list bytes, feed [] segs = frames (concat segs).
Proof. exact feed_any_partition. Qed.
Print Assumptions C03_framing.

Theorem C03_partition_independent : forall segs1 segs2 : list bytes,
  concat segs1 = concat segs2 -> feed [] segs1 = feed [] segs2.
Proof. exact partition_independent. Qed.
Print Assumptions C03_partition_independent.

(* two whole PDUs in one segment, then a third cut in the middle of its header *)
Example C03_example :
  fst (feed [] [[5;0;0;0;0;4;0;0;0;0; 7;0;0;0;0;4;0;0;2;0; 6;0;0]; [0;0;4;0;0;0;0]])
  = [[5;0;0;0;0;4;0;0;0;0]; [7;0;0;0;0;4;0;0;2;0]; [6;0;0;0;0;4;0;0;0;0]].
Proof. vm_compute. reflexivity. Qed.
