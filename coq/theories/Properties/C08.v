(* Property C08 — transmitted command sets are well-formed (group length, order, type, data-set flag).
   Model.CmdMsg is the message object as far as its command set goes: elements kept by ascending tag
   (pydicom Dataset), property setters, the data_set setter maintaining CommandDataSetType, and
   Association.send = set_length() + implicit-VR-LE encoding.  For EVERY message type (command field
   cf, any list of further fields), EVERY sequence of field assignments, data-set assignments and
   sends — the same object sent any number of times with changing fields — every transmitted command
   set: is in ascending tag order; starts with the Command Group Length element whose value is the
   number of bytes that follow it; carries the class's command field; says 0101H (no data set)
   exactly when no data set is attached; and is read back element for element by the strict
   implicit-VR-LE reader. *)
From PND Require Import Lib.Base Model.CmdSet Model.CmdMsg Proofs.CmdMsgProofs.

Theorem C08_every_send : forall (cf : N) (others : list N) (ops : list mop),
  ~ In 256 others -> ~ In 2048 others -> forallb legal_mop ops = true ->
  Forall (send_ok cf) (run_msg (new_msg cf others) ops).
Proof.
  intros cf others ops H1 H2 Hl. apply run_msg_ok; [exact Hl|apply new_msg_inv; assumption].
Qed.
Print Assumptions C08_every_send.

Theorem C08_readable : forall l : list elem, parse_cmd (enc_elems l) = Ok l.
Proof. exact parse_cmd_enc. Qed.
Print Assumptions C08_readable.

(* non-vacuity: a C-FIND-RSP object sent twice, a data set attached in between *)
Example C08_example :
  map snd (run_msg (new_msg 32800 [0; 2; 288; 2304])
                   [SetField 2 (VUI [49; 46; 50]); SetField 288 (VUS 7); Send; SetData true; Send; SetData false; Send])
  = [false; true; false].
Proof. reflexivity. Qed.
