(* Property C05 — the provider run as a whole behaves as the PS3.8 upper-layer protocol machine along
   every event history.

   Model.Fsm.cstep is the control part of one iteration of DULServiceProvider.run (socket reader,
   framing result, event queue, state machine, timer, fragment generator, reassembly result), driven
   by the finite classification `input` of what the environment delivered in that iteration;
   Model.Provider.iter is the same iteration with its data (buffers, PDU values, wire bytes) and calls
   cstep for every control decision.  `reach` is a set of control states containing the initial
   states and closed under cstep for every legal input (checked by reflection), so the statements
   below hold for ALL histories / scripts of ANY length, not up to a depth.

   legal_input: the peer may send anything (any PDU, garbage, close, reset); the local user hands
   over PDUs of a known type or non-empty fragment generators; no stop request (treated in C13). *)
From PND Require Import Lib.Base Model.Decoder Spec.Ps38Table Model.Fsm Model.Provider
  Proofs.FsmProofs Proofs.FsmSpecProofs Proofs.ProviderProofs Proofs.ProviderTheorems.

(* inv_state: the loop has not died; ARTIM runs <-> Sta2 or Sta13; idle -> transport closed (and
   not idle -> transport present); the event queue is empty between iterations *)
Theorem C05_invariants : forall (r : bool) (is : list input),
  forallb legal_input is = true -> inv_state (run (init r) is) = true.
Proof. exact history_inv. Qed.
Print Assumptions C05_invariants.

(* inv_step: P-DATA is sent only from Sta6/Sta8 and indicated only from Sta6/Sta7; nothing is
   indicated to the user from Sta1 or Sta13 (association over / none yet) *)
Theorem C05_step_outputs : forall (r : bool) (is : list input) (i : input),
  forallb legal_input is = true -> legal_input i = true -> inv_step (run (init r) is) i = true.
Proof. exact history_step. Qed.
Print Assumptions C05_step_outputs.

(* spec_ok: in the state reached, every event whose triggering PDU is in the slot is handled exactly
   as Spec/Ps38Table.v prescribes (PDU sent, indication, close/open, ARTIM, next state), undefined
   combinations are ignored, and unusable P-DATA is handled as AA-8 *)
Theorem C05_follows_table : forall (r : bool) (is : list input),
  forallb legal_input is = true -> running (run (init r) is) = true -> spec_ok (run (init r) is) = true.
Proof. exact history_spec. Qed.
Print Assumptions C05_follows_table.

(* the event dispatched is the one raised by the PDU / primitive in the slot (one event per
   iteration, priority network > user > timer is the definition of Fsm.poll) *)
Theorem C05_event_matches_primitive : forall (r : bool) (is : list input) (i : input),
  forallb legal_input is = true -> running (run (init r) is) = true -> legal_input i = true ->
  poll_consistent (run (init r) is) i = true.
Proof. exact history_consistent. Qed.
Print Assumptions C05_event_matches_primitive.

(* the same for the concrete model that is compared with the implementation step by step *)
Theorem C05_concrete : forall env requestor maxlen (ops : list op), forallb legal_op ops = true ->
  inv_state (ctl (run_script env requestor maxlen ops)) = true
  /\ spec_ok (ctl (run_script env requestor maxlen ops)) = true.
Proof. intros. split; [apply script_inv|apply script_spec]; assumption. Qed.
Print Assumptions C05_concrete.

(* non-vacuity: the invariant is not trivially true, and established states are reachable *)
Example C05_nonvacuous :
  inv_state (mkctrl 6 true true None KNone false false false Running) = false
  /\ existsb (fun c => (c_st c =? 6) && c_sock c) reach = true
  /\ existsb (fun c => c_st c =? 12) reach = true.
Proof. vm_compute. repeat split. Qed.
